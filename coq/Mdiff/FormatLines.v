(* Lines as byte lists, text <-> lines, and the small string functions the formatters and readers
   use (models of strings.Cut, CutPrefix, Fields, HasPrefix).  Definitions only. *)
From Coq Require Import NArith ZArith List Bool.
Import ListNotations.
From Mds Require Export Mdiff.Decimal.
Local Open Scope Z_scope.

Definition line := bytes.
Definition llen {A} (l : list A) : Z := Z.of_nat (length l).
Definition is_nil {A} (l : list A) : bool := match l with [] => true | _ => false end.

Fixpoint bytes_eqb (a b : bytes) : bool :=
  match a, b with
  | [], [] => true
  | x :: a', y :: b' => N.eqb x y && bytes_eqb a' b'
  | _, _ => false
  end.

(* what fmt.Fprint(w, pfx, line, "\n") writes for each line *)
Definition join_lines (ls : list line) : bytes := flat_map (fun l => l ++ [10%N]) ls.

(* diffReader.readline until io.EOF: newline-terminated lines, the terminator removed; a last
   unterminated non-empty line is returned as it is *)
Fixpoint split_lines (t : bytes) : list line :=
  match t with
  | [] => []
  | c :: t' =>
    if N.eqb c 10 then [] :: split_lines t'
    else match split_lines t' with
         | [] => [[c]]
         | l :: ls => (c :: l) :: ls
         end
  end.

(* strings.CutPrefix *)
Fixpoint cut_prefix (pfx s : bytes) : option bytes :=
  match pfx with
  | [] => Some s
  | p :: pfx' => match s with
                 | c :: s' => if N.eqb p c then cut_prefix pfx' s' else None
                 | [] => None
                 end
  end.

Definition has_prefix (pfx s : bytes) : bool :=
  match cut_prefix pfx s with Some _ => true | None => false end.

(* strings.Cut(s, string(c)): around the first occurrence of the byte c *)
Fixpoint cut_byte (c : N) (s : bytes) : option (bytes * bytes) :=
  match s with
  | [] => None
  | b :: s' =>
    if N.eqb b c then Some ([], s')
    else match cut_byte c s' with
         | Some (x, y) => Some (b :: x, y)
         | None => None
         end
  end.

(* strings.Fields restricted to ASCII white space (tab, LF, VT, FF, CR, space) *)
Definition is_space (b : N) : bool :=
  N.eqb b 32 || (N.leb 9 b && N.leb b 13).

Fixpoint fields_loop (s : bytes) (cur : bytes) : list bytes :=
  match s with
  | [] => if is_nil cur then [] else [cur]
  | b :: s' =>
    if is_space b then (if is_nil cur then fields_loop s' [] else cur :: fields_loop s' [])
    else fields_loop s' (cur ++ [b])
  end.
Definition fields (s : bytes) : list bytes := fields_loop s [].

Definition newline_free (l : line) : Prop := ~ In 10%N l.

(* byte-string constants *)
Definition s_lt : bytes := [60; 32]%N.          (* "< " *)
Definition s_gt : bytes := [62; 32]%N.          (* "> " *)
Definition s_sep : bytes := [45; 45; 45]%N.     (* "---" *)
Definition s_atat : bytes := [64; 64]%N.        (* "@@" *)
Definition s_minus : bytes := [45]%N.
Definition s_plus : bytes := [43]%N.
Definition s_mmm : bytes := [45; 45; 45; 32]%N. (* "--- " *)
Definition s_ppp : bytes := [43; 43; 43; 32]%N. (* "+++ " *)
Definition s_sss : bytes := [42; 42; 42; 32]%N. (* "*** " *)
Definition s_diff : bytes := [100; 105; 102; 102; 32]%N. (* "diff " *)
Definition s_stars15 : bytes := repeat 42%N 15.
Definition s_4stars : bytes := [32; 42; 42; 42; 42]%N. (* " ****" *)
Definition s_4dashes : bytes := [32; 45; 45; 45; 45]%N. (* " ----" *)
