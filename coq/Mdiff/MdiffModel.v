(* Model of mdiff/mdiff.go: New (chunk construction over the edit script), AddContext with the
   gap-bounded findContext (the code after repair 82c6b7a), UnifyChunks / Unify.
   Definitions only.

   The edit script is an ARGUMENT of [new_chunks]/[new_diff]: the theorems quantify over every
   valid script, the correspondence feeds the script slice.EditScript actually returned, and
   Mdiff/MdiffCompose.v plugs in the model of slice.EditScript (Slice/EditModel.v).

   Statement by statement: the same loops, the same branch order; every range computation,
   bound (min(n, gap)), overlap (lap), comparison and merge condition is the definition the
   translator regenerates from the Go source into Gen/MdiffIdx.v.  Machine ints are [Z].  Slices
   are lists; pointers into slices (cur, last, end, start) are modelled by the value at the
   position they point to, written back at that position.  An index or slice bound out of range,
   a nil dereference and the explicit panic of UnifyChunks are explicit results [Panic _]
   (Mdiff/MdiffProofs*.v prove that none happens on New -> AddContext -> Unify).

   The edit type is the one of the slice.EditScript model (Slice/EditLoop.v):
     Inductive op := Drop | Emit | Copy | Replace.
     Record edit T := mkEdit { eop : op; X : list T; Y : list T }.                       *)
From Coq Require Import ZArith List Bool.
Import ListNotations.
From Mds Require Import Gen.MdiffIdx.
From Mds Require Export Slice.EditLoop.
Local Open Scope Z_scope.

Inductive panic_kind :=
| PIndex    (* index / slice bounds out of range *)
| PNil      (* nil pointer dereference (slice.PtrAt returned nil) *)
| PMerge.   (* panic("diff: context merge did not work correctly") *)

Inductive res (A : Type) :=
| Ok (a : A)
| Panic (k : panic_kind).
Arguments Ok {A} a.
Arguments Panic {A} k.

Definition bind {A B : Type} (r : res A) (f : A -> res B) : res B :=
  match r with
  | Ok a => f a
  | Panic k => Panic k
  end.

Definition len {A : Type} (l : list A) : Z := Z.of_nat (length l).

(* *p for a pointer returned by slice.PtrAt *)
Definition deref {A : Type} (o : option A) : res A :=
  match o with Some a => Ok a | None => Panic PNil end.

(* slice.indexCheck: negative offsets count from the end *)
Definition norm_idx (i n : Z) : Z := if i <? 0 then i + n else i.

(* slice.PtrAt(s, i): nil when out of range *)
Definition ptr_at {A : Type} (s : list A) (i : Z) : option A := zth s (norm_idx i (len s)).

(* write through the pointer slice.PtrAt(s, i) returned (only used when it is not nil) *)
Definition set_at {A : Type} (s : list A) (i : Z) (v : A) : list A :=
  let k := Z.to_nat (norm_idx i (len s)) in firstn k s ++ v :: skipn (S k) s.

(* s[:hi] and s[lo:] (bounds checked against the length, which is stricter than Go's cap) *)
Definition take {A : Type} (s : list A) (hi : Z) : res (list A) :=
  match zslice s 0 hi with Some r => Ok r | None => Panic PIndex end.
Definition drop {A : Type} (s : list A) (lo : Z) : res (list A) :=
  match zslice s lo (len s) with Some r => Ok r | None => Panic PIndex end.

Section Mdiff.
  Variable T : Type.
  Variable eqb : T -> T -> bool.   (* == on lines *)

  (* Chunk: 1-based, half-open line ranges *)
  Record chunk := mkChunk { edits : list (edit T); LStart : Z; LEnd : Z; RStart : Z; REnd : Z }.

  (* Diff *)
  Record diff := mkDiff { Left : list T; Right : list T; Chunks : list chunk; Edits : list (edit T) }.

  Definition zero_chunk : chunk := mkChunk [] 0 0 0 0.          (* new(Chunk) *)
  Definition with_edits (c : chunk) (es : list (edit T)) : chunk :=
    mkChunk es (LStart c) (LEnd c) (RStart c) (REnd c).

  (* ------------------------------------------------------------------ New *)

  (* out = ns_done ++ [ns_cur]: cur always points at the last element of out *)
  Record new_state := mkNew { ns_done : list chunk; ns_cur : chunk; ns_lcur : Z; ns_rcur : Z }.

  (* out := []*Chunk{{LStart: 1, RStart: 1, LEnd: 1, REnd: 1}}; lcur, rcur := 1, 1 *)
  Definition new_init : new_state := mkNew [] (mkChunk [] 1 1 1 1) new_lcur_init new_rcur_init.

  (* the head of the loop body: if there is a gap after the previous chunk, start a new one,
     unless the previous chunk is empty, in which case take it over *)
  Definition new_open (st : new_state) : list chunk * chunk :=
    let cur := ns_cur st in
    let lcur := ns_lcur st in
    let rcur := ns_rcur st in
    if new_gap lcur (LEnd cur) rcur (REnd cur) then
      let '(done, cur1) :=
        if new_cur_nonempty (LStart cur) (LEnd cur) (RStart cur) (REnd cur)
        then (ns_done st ++ [cur], zero_chunk)
        else (ns_done st, cur) in
      (done, mkChunk (edits cur1) (new_set_lstart lcur rcur) (new_set_lend lcur rcur)
                     (new_set_rstart lcur rcur) (new_set_rend lcur rcur))
    else (ns_done st, cur).

  Definition new_step (st : new_state) (e : edit T) : new_state :=
    let '(done, cur) := new_open st in
    let lcur := ns_lcur st in
    let rcur := ns_rcur st in
    let nx := len (X e) in
    let ny := len (Y e) in
    match eop e with
    | Drop =>
      let n := new_drop_l nx ny in
      mkNew done (mkChunk (edits cur ++ [e]) (LStart cur) (new_addl_lend (LEnd cur) n) (RStart cur) (REnd cur))
            (new_addl_lcur lcur n) rcur
    | Copy =>
      let n := new_copy_r nx ny in
      mkNew done (mkChunk (edits cur ++ [e]) (LStart cur) (LEnd cur) (RStart cur) (new_addr_rend (REnd cur) n))
            lcur (new_addr_rcur rcur n)
    | Replace =>
      let n := new_repl_l nx ny in
      let m := new_repl_r nx ny in
      mkNew done (mkChunk (edits cur ++ [e]) (LStart cur) (new_addl_lend (LEnd cur) n)
                          (RStart cur) (new_addr_rend (REnd cur) m))
            (new_addl_lcur lcur n) (new_addr_rcur rcur m)
    | Emit =>
      (* not counted against the chunk, not appended: continue *)
      mkNew done cur (new_emit_lcur lcur nx ny) (new_emit_rcur rcur nx ny)
    end.

  (* the order of the switch cases in New's loop body (OpDrop, OpCopy, OpReplace, OpEmit), as the
     translator found them; [new_step] above matches on the same four constructors.  A reordered
     or relabelled case loses its anchor. *)
  Definition new_switch_cases : list Z := [new_case0 0; new_case1 1; new_case2 2; new_case3 3].

  (* the Chunks field of New(lhs, rhs) when slice.EditScript(lhs, rhs) returned [es] *)
  Definition new_chunks (es : list (edit T)) : list chunk :=
    let st := fold_left new_step es new_init in
    let cur := ns_cur st in
    let out := ns_done st ++ [cur] in
    if new_last_empty (LStart cur) (LEnd cur) (RStart cur) (REnd cur)
    then firstn (Z.to_nat (new_trim_hi (len out))) out
    else out.

  Definition new_diff (lhs rhs : list T) (es : list (edit T)) : diff :=
    mkDiff lhs rhs (new_chunks es) es.

  (* ------------------------------------------------------------------ findContext *)

  (* for i := range npre { p, q := ...; if p < 0 || q < 0 || Left[p] != Right[q] { break };
     pre = append(pre, Left[p]) }.  The bounds part of the condition is evaluated first
     (short circuit); only then are the two elements read. *)
  Fixpoint fc_pre_loop (L R : list T) (lcur rcur : Z) (k : nat) (i : Z) (acc : list T) : res (list T) :=
    match k with
    | O => Ok acc
    | S k' =>
      let p := fc_pre_p lcur rcur i in
      let q := fc_pre_q lcur rcur i in
      if fc_pre_stop p q false then Ok acc
      else match zth L p, zth R q with
           | Some a, Some b =>
             if fc_pre_stop p q (negb (eqb a b)) then Ok acc
             else fc_pre_loop L R lcur rcur k' (i + 1) (acc ++ [a])
           | _, _ => Panic PIndex
           end
    end.

  Fixpoint fc_post_loop (L R : list T) (lend rend : Z) (k : nat) (i : Z) (acc : list T) : res (list T) :=
    match k with
    | O => Ok acc
    | S k' =>
      let p := fc_post_p lend rend i in
      let q := fc_post_q lend rend i in
      if fc_post_stop p q (len L) (len R) false then Ok acc
      else match zth L p, zth R q with
           | Some a, Some b =>
             if fc_post_stop p q (len L) (len R) (negb (eqb a b)) then Ok acc
             else fc_post_loop L R lend rend k' (i + 1) (acc ++ [a])
           | _, _ => Panic PIndex
           end
    end.

  Definition find_context (L R : list T) (c : chunk) (npre npost : Z) : res (list T * list T) :=
    let lcur := fc_lcur (LStart c) in
    let rcur := fc_rcur (RStart c) in
    let lend := fc_lend (LEnd c) in
    let rend := fc_rend (REnd c) in
    bind (fc_pre_loop L R lcur rcur (Z.to_nat (fc_pre_count npre npost)) 0 []) (fun pre0 =>
    let pre := rev pre0 in                  (* slices.Reverse(pre) *)
    bind (fc_post_loop L R lend rend (Z.to_nat (fc_post_count npre npost)) 0 []) (fun post =>
    Ok (pre, post))).

  (* ------------------------------------------------------------------ AddContext *)

  Definition emit_edit (x : list T) : edit T := mkEdit Emit x [].

  (* the body of the loop for chunk c.  [bounded] = true is the code of the tree (context is
     bounded by the gaps to the neighbouring chunks); false is the code before repair 82c6b7a
     (d.findContext(c, n)), kept only to state the refutation of the pre-fix behaviour. *)
  Definition ac_chunk (bounded : bool) (L R : list T) (n : Z) (c : chunk) (prevEnd nextStart : Z) : res chunk :=
    let npre := if bounded then ac_npre n (LStart c) prevEnd else n in
    let npost := if bounded then ac_npost n nextStart (LEnd c) else n in
    bind (find_context L R c npre npost) (fun pp =>
    let pre := fst pp in
    let post := snd pp in
    let c1 := if ac_has_pre (len pre)
              then mkChunk (emit_edit pre :: edits c) (ac_pre_lstart (LStart c) (len pre)) (LEnd c)
                           (ac_pre_rstart (RStart c) (len pre)) (REnd c)
              else c in
    let c2 := if ac_has_post (len post)
              then mkChunk (edits c1 ++ [emit_edit post]) (LStart c1) (ac_post_lend (LEnd c1) (len post))
                           (RStart c1) (ac_post_rend (REnd c1) (len post))
              else c1 in
    Ok c2).

  (* for i, c := range d.Chunks.  [all] is d.Chunks as it was on entry: iteration i reads
     d.Chunks[i+1].LStart, which no earlier iteration has written. *)
  Fixpoint ac_loop (bounded : bool) (L R : list T) (n : Z) (all todo : list chunk) (i prevEnd : Z)
    : res (list chunk) :=
    match todo with
    | [] => Ok []
    | c :: rest =>
      bind (if ac_has_next i (len all)
            then match zth all (ac_next_idx i) with
                 | Some c' => Ok (LStart c')
                 | None => Panic PIndex
                 end
            else Ok (ac_next_default (len L))) (fun nextStart =>
      bind (ac_chunk bounded L R n c prevEnd nextStart) (fun c' =>
      bind (ac_loop bounded L R n all rest (i + 1) (ac_prev_next (LEnd c))) (fun rest' =>
      Ok (c' :: rest'))))
    end.

  Definition add_context_v (bounded : bool) (L R : list T) (n : Z) (cs : list chunk) : res (list chunk) :=
    if ac_skip n (len cs) then Ok cs
    else ac_loop bounded L R n cs cs 0 ac_prev_init.

  Definition add_context := add_context_v true.
  Definition add_context_prefix := add_context_v false.   (* the code before 82c6b7a *)

  (* ------------------------------------------------------------------ UnifyChunks *)

  Definition is_emit (e : edit T) : bool := op_eqb (eop e) Emit.
  Definition set_X (e : edit T) (x : list T) : edit T := mkEdit (eop e) x (Y e).

  (* if lap > 0 { ... }: cut the overlapping lines off one context edit *)
  Definition uc_trim (last c : chunk) (lap : Z) : res (chunk * chunk) :=
    bind (deref (ptr_at (edits last) uc_end_idx)) (fun en =>
    bind (if uc_end_emit (is_emit en) then
            (* last has post-context *)
            bind (if uc_end_whole lap (len (X en))
                  then take (edits last) (uc_end_drop_hi (len (edits last)))
                  else bind (take (X en) (uc_end_trim_hi (len (X en)) lap)) (fun x' =>
                       Ok (set_at (edits last) uc_end_idx (set_X en x')))) (fun es' =>
            Ok (mkChunk es' (LStart last) (uc_end_lend (LEnd last) lap)
                            (RStart last) (uc_end_rend (REnd last) lap), c))
          else
            bind (deref (ptr_at (edits c) uc_start_idx)) (fun st =>
            if uc_start_emit (is_emit st) then
              (* c has pre-context *)
              bind (if uc_start_whole lap (len (X st))
                    then drop (edits c) uc_start_drop_lo
                    else bind (drop (X st) (uc_start_trim_lo lap)) (fun x' =>
                         Ok (set_at (edits c) uc_start_idx (set_X st x')))) (fun es' =>
              Ok (last, mkChunk es' (uc_start_lstart (LStart c) lap) (LEnd c)
                                    (uc_start_rstart (RStart c) lap) (REnd c)))
            else Ok (last, c))) (fun lc =>
    (* Reaching here, the two must now abut properly. *)
    if uc_bad_merge (LStart (snd lc)) (LEnd (fst lc)) then Panic PMerge else Ok lc)).

  (* if end.Op == OpEmit && start.Op == OpEmit { ... }: end and start are re-read at the positions
     the pointers designate (end: last edit of last, start: first edit of c) *)
  Definition uc_fusion (last c : chunk) : res (chunk * chunk) :=
    bind (deref (ptr_at (edits last) uc_end_idx)) (fun en =>
    if is_emit en then
      bind (deref (ptr_at (edits c) uc_start_idx)) (fun st =>
      if uc_fuse (is_emit en) (is_emit st) then
        let nx := len (X st) in
        bind (drop (edits c) uc_fuse_drop_lo) (fun es' =>
        Ok (mkChunk (set_at (edits last) uc_end_idx (set_X en (X en ++ X st)))
                    (LStart last) (uc_fuse_lend (LEnd last) nx) (RStart last) (uc_fuse_rend (REnd last) nx),
            mkChunk es' (uc_fuse_lstart (LStart c) nx) (LEnd c) (uc_fuse_rstart (RStart c) nx) (REnd c)))
      else Ok (last, c))
    else Ok (last, c)).

  (* Merge. *)
  Definition uc_merge (last c : chunk) : chunk :=
    mkChunk (edits last ++ edits c) (LStart last) (uc_merge_lend (LEnd c) (REnd c))
            (RStart last) (uc_merge_rend (LEnd c) (REnd c)).

  (* merged = fst st ++ [snd st]; last = slice.At(merged, -1) *)
  Definition unify_step (st : list chunk * chunk) (c : chunk) : res (list chunk * chunk) :=
    let done := fst st in
    let last := snd st in
    if uc_apart (LStart c) (LEnd last) then Ok (done ++ [last], c)
    else
      let lap := uc_lap (LStart c) (LEnd last) in
      bind (if uc_overlap lap then uc_trim last c lap else Ok (last, c)) (fun lc =>
      bind (uc_fusion (fst lc) (snd lc)) (fun lc' =>
      Ok (done, uc_merge (fst lc') (snd lc')))).

  Fixpoint unify_loop (st : list chunk * chunk) (cs : list chunk) : res (list chunk * chunk) :=
    match cs with
    | [] => Ok st
    | c :: rest => bind (unify_step st c) (fun st' => unify_loop st' rest)
    end.

  Definition unify_chunks (cs : list chunk) : res (list chunk) :=
    if uc_empty (len cs) then Ok []
    else match zth cs 0 with
         | None => Panic PIndex
         | Some c0 =>
           bind (drop cs uc_rest_lo) (fun rest =>
           bind (unify_loop ([], c0) rest) (fun st =>
           Ok (fst st ++ [snd st])))
         end.

  (* ------------------------------------------------------------------ the Diff methods *)

  Definition diff_add_context (n : Z) (d : diff) : res diff :=
    bind (add_context (Left d) (Right d) n (Chunks d)) (fun cs =>
    Ok (mkDiff (Left d) (Right d) cs (Edits d))).

  Definition diff_unify (d : diff) : res diff :=
    bind (unify_chunks (Chunks d)) (fun cs =>
    Ok (mkDiff (Left d) (Right d) cs (Edits d))).

  (* New(lhs, rhs).AddContext(n).Unify() with the three intermediate chunk lists *)
  Definition pipeline (lhs rhs : list T) (es : list (edit T)) (n : Z)
    : list chunk * res (list chunk) * res (list chunk) :=
    let c0 := new_chunks es in
    let c1 := add_context lhs rhs n c0 in
    (c0, c1, bind c1 unify_chunks).
End Mdiff.

Arguments mkChunk {T} edits LStart LEnd RStart REnd.
Arguments edits {T} c.
Arguments LStart {T} c.
Arguments LEnd {T} c.
Arguments RStart {T} c.
Arguments REnd {T} c.
Arguments mkDiff {T} Left Right Chunks Edits.
Arguments Left {T} d.
Arguments Right {T} d.
Arguments Chunks {T} d.
Arguments Edits {T} d.
Arguments zero_chunk {T}.
Arguments with_edits {T} c es.
Arguments new_init {T}.
Arguments new_open {T} st.
Arguments new_step {T} st e.
Arguments new_chunks {T} es.
Arguments new_diff {T} lhs rhs es.
Arguments find_context {T} eqb L R c npre npost.
Arguments emit_edit {T} x.
Arguments ac_chunk {T} eqb bounded L R n c prevEnd nextStart.
Arguments ac_loop {T} eqb bounded L R n all todo i prevEnd.
Arguments add_context_v {T} eqb bounded L R n cs.
Arguments add_context {T} eqb L R n cs.
Arguments add_context_prefix {T} eqb L R n cs.
Arguments is_emit {T} e.
Arguments set_X {T} e x.
Arguments uc_trim {T} last c lap.
Arguments uc_fusion {T} last c.
Arguments uc_merge {T} last c.
Arguments unify_step {T} st c.
Arguments unify_loop {T} st cs.
Arguments unify_chunks {T} cs.
Arguments diff_add_context {T} eqb n d.
Arguments diff_unify {T} d.
Arguments pipeline {T} eqb lhs rhs es n.
