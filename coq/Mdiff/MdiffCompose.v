(* C13, composed with C11: mdiff.New calls slice.EditScript; plugging the model of EditScript
   (Slice/EditModel.v) and its theorems (Slice/EditTheorems.v) into the chunk model removes the
   script from the inputs.  The line comparison is == on strings: a decidable equality. *)
From Coq Require Import ZArith List Bool Lia.
Import ListNotations.
From Mds Require Import Slice.EditModel Slice.EditSpec Slice.EditTheorems.
From Mds Require Import Mdiff.MdiffModel Mdiff.MdiffSpec Mdiff.MdiffProofsNew Mdiff.MdiffProofs.
Local Open Scope Z_scope.

Section Compose.
  Variable T : Type.
  Variable eqb : T -> T -> bool.
  Hypothesis eqb_eq : forall a b, eqb a b = true <-> a = b.

  (* New(lhs, rhs) *)
  Definition mdiff_new (lhs rhs : list T) : diff T :=
    new_diff lhs rhs (edit_script_func eqb lhs rhs).

  Lemma consumed_eq : forall es : list (edit T), consumed es = edits_consume es.
  Proof.
    intros. unfold consumed, edits_consume. apply flat_map_ext. intros e.
    unfold edit_consume. destruct (eop e); reflexivity.
  Qed.
  Lemma produced_eq : forall es : list (edit T), produced es = edits_produce es.
  Proof.
    intros. unfold produced, edits_produce. apply flat_map_ext. intros e.
    unfold edit_produce. destruct (eop e); reflexivity.
  Qed.

  Lemma refl : forall a, eqb a a = true.
  Proof. intros. apply eqb_eq. reflexivity. Qed.

  (* what EditScript returns is a script for (lhs, rhs) in the sense of MdiffSpec *)
  Lemma edit_script_ok : forall lhs rhs, script_ok lhs rhs (edit_script_func eqb lhs rhs).
  Proof.
    intros lhs rhs. pose proof (edit_script_exec_exact T eqb eqb_eq lhs rhs) as H. cbn zeta in H.
    rewrite consumed_eq, produced_eq in H.
    destruct (edit_script_func eqb lhs rhs) as [|e es] eqn:Hes.
    - destruct lhs as [|a lhs]; cbn [expand] in H.
      + left. exact H.
      + right. split; [reflexivity|]. destruct H as [_ H]. cbn in H. rewrite app_nil_r in H. exact H.
    - left. destruct lhs; exact H.
  Qed.

  (* its non-Emit edits are not empty (it is canonical) *)
  Lemma edit_script_ne : forall lhs rhs, Forall (edit_ne T) (edit_script_func eqb lhs rhs).
  Proof.
    intros lhs rhs.
    destruct (edit_script_canonical T eqb refl (dec_sym T eqb eqb_eq) (dec_trans T eqb eqb_eq) lhs rhs) as [Hc _].
    unfold canonical in Hc. apply andb_true_iff in Hc. destruct Hc as [Hc _].
    rewrite forallb_forall in Hc. apply Forall_forall. intros e He. specialize (Hc e He).
    unfold edit_ne, is_emit, edit_consume, edit_produce. unfold nonempty_edit in Hc.
    destruct (eop e); cbn [op_eqb]; intros Hem; try discriminate.
    - left. destruct (X e); [discriminate|discriminate].
    - right. destruct (Y e); [discriminate|discriminate].
    - left. destruct (X e); [discriminate|discriminate].
  Qed.

  (* New(lhs, rhs).AddContext(n).Unify() *)
  Theorem composed_correct : forall (lhs rhs : list T) (n : Z),
      0 <= n ->
      let d0 := mdiff_new lhs rhs in
      edit_script_run eqb lhs rhs = EOk (Edits d0) /\
      exists d1 d2,
        diff_add_context eqb n d0 = Ok d1 /\ diff_unify d1 = Ok d2 /\
        Forall (chunk_ok lhs rhs) (Chunks d0) /\ Forall (chunk_ok lhs rhs) (Chunks d1) /\
        Forall (chunk_ok lhs rhs) (Chunks d2) /\
        Forall2 (ctx_of n) (Chunks d0) (Chunks d1) /\
        separated 1 (Chunks d0) /\ separated 1 (Chunks d2) /\
        apply_chunks lhs (Chunks d0) = rhs /\ apply_chunks lhs (Chunks d2) = rhs /\
        flat_map edits (Chunks d0) = changes (Edits d0) /\
        changes (flat_map edits (Chunks d2)) = changes (Edits d0) /\
        Edits d1 = Edits d0 /\ Edits d2 = Edits d0 /\
        Left d2 = lhs /\ Right d2 = rhs.
  Proof.
    intros lhs rhs n Hn d0.
    pose proof (edit_script_ok lhs rhs) as Hok.
    pose proof (edit_script_ne lhs rhs) as Hne.
    split.
    { apply (edit_script_run_ok T eqb refl (dec_sym T eqb eqb_eq) (dec_trans T eqb eqb_eq)). }
    destruct (new_correct T lhs rhs _ Hok) as (Hn1 & Hn2 & Hn3 & _ & Hn5 & _).
    destruct (unify_correct T eqb refl lhs rhs _ n Hok Hn)
      as (ca & cu & base & Ha & Hu & Hu1 & Hu2 & Hu3 & _ & _ & _ & _ & _ & Hu9).
    destruct (add_context_correct T eqb refl lhs rhs _ n Hok Hn) as (ca' & Ha' & Ha1 & Ha2).
    rewrite Ha in Ha'. injection Ha' as <-.
    exists (mkDiff lhs rhs ca (Edits d0)), (mkDiff lhs rhs cu (Edits d0)).
    unfold d0, mdiff_new, diff_add_context, diff_unify, new_diff. cbn [Left Right Chunks Edits].
    rewrite Ha. cbn [bind]. cbn [Left Right Chunks Edits]. rewrite Hu. cbn [bind].
    repeat (split; try assumption; try reflexivity).
    - apply Hn5. exact Hne.
    - rewrite Hu9. rewrite (Hn5 Hne). reflexivity.
  Qed.
End Compose.
