(* C13 proofs, part 0: list/position lemmas and the segment decomposition the proofs use.

   A diff is described by a list of SEGMENTS (g, E): g = the unchanged lines before a chunk (the
   gap), E = the chunk's edits (its core), and the lines gt after the last chunk:
       Left  = g1 ++ consume E1 ++ g2 ++ consume E2 ++ ... ++ gt
       Right = g1 ++ produce E1 ++ g2 ++ produce E2 ++ ... ++ gt
   [seg_chunks] are the chunks of New, [ctx_chunks n] those of AddContext n, and merging the
   segments whose gap is at most 2n gives those of Unify. *)
From Coq Require Import ZArith List Bool Lia.
Import ListNotations.
From Mds Require Import Gen.MdiffIdx Mdiff.MdiffModel Mdiff.MdiffSpec.
Local Open Scope Z_scope.

Arguments mkNew {T} ns_done ns_cur ns_lcur ns_rcur.
Arguments ns_done {T} n.
Arguments ns_cur {T} n.
Arguments ns_lcur {T} n.
Arguments ns_rcur {T} n.
Arguments fc_pre_loop {T} eqb L R lcur rcur k i acc.
Arguments fc_post_loop {T} eqb L R lend rend k i acc.

Lemma len_nil : forall A, len (@nil A) = 0.
Proof. reflexivity. Qed.
Lemma len_cons : forall A (x : A) l, len (x :: l) = 1 + len l.
Proof. intros. unfold len. cbn [length]. lia. Qed.
Lemma len_app : forall A (a b : list A), len (a ++ b) = len a + len b.
Proof. intros. unfold len. rewrite app_length. lia. Qed.
Lemma len_nonneg : forall A (l : list A), 0 <= len l.
Proof. intros. unfold len. lia. Qed.
Lemma len_zero : forall A (l : list A), len l = 0 -> l = [].
Proof. intros A [|x l]; [reflexivity|]. rewrite len_cons. pose proof (len_nonneg A l). lia. Qed.
Lemma len_rev : forall A (l : list A), len (rev l) = len l.
Proof. intros. unfold len. rewrite rev_length. reflexivity. Qed.
Lemma len_firstn : forall A (l : list A) k, (k <= length l)%nat -> len (firstn k l) = Z.of_nat k.
Proof. intros. unfold len. rewrite firstn_length. lia. Qed.
Lemma len_skipn : forall A (l : list A) k, len (skipn k l) = len l - Z.of_nat (Nat.min k (length l)).
Proof. intros. unfold len. rewrite skipn_length. lia. Qed.
Lemma zlen_len : forall A (l : list A), zlen l = len l.
Proof. reflexivity. Qed.

Global Hint Rewrite len_nil len_cons len_app len_rev zlen_len : len.

Ltac lens := autorewrite with len in *.
(* equalities between concatenations up to associativity and [] *)
Ltac lapp := repeat (rewrite <- app_assoc || rewrite app_nil_r || (progress cbn [app])); reflexivity.

Lemma zth_app_mid : forall A (a : list A) x b k, k = len a -> zth (a ++ x :: b) k = Some x.
Proof.
  intros A a x b k ->. unfold zth.
  pose proof (len_nonneg A a).
  destruct (len a <? 0) eqn:E; [apply Z.ltb_lt in E; lia|].
  unfold len. rewrite Nat2Z.id. rewrite nth_error_app2 by lia. rewrite Nat.sub_diag. reflexivity.
Qed.

Lemma firstn_app_exact : forall A (a b : list A) k, k = length a -> firstn k (a ++ b) = a.
Proof. intros A a b k ->. rewrite firstn_app, Nat.sub_diag, firstn_all. cbn. apply app_nil_r. Qed.
Lemma skipn_app_exact : forall A (a b : list A) k, k = length a -> skipn k (a ++ b) = b.
Proof. intros A a b k ->. rewrite skipn_app, Nat.sub_diag, skipn_all. reflexivity. Qed.

(* lines [1 + |a|, 1 + |a| + |b|) of a ++ b ++ c are b *)
Lemma slice1_app : forall A (a b c : list A) s e,
    s = 1 + len a -> e = 1 + len a + len b -> slice1 (a ++ b ++ c) s e = b.
Proof.
  intros A a b c s e -> ->. unfold slice1.
  replace (Z.to_nat (1 + len a - 1)) with (length a) by (unfold len; lia).
  replace (Z.to_nat (1 + len a + len b - (1 + len a))) with (length b) by (unfold len; lia).
  rewrite skipn_app_exact by reflexivity. apply firstn_app_exact. reflexivity.
Qed.

Section Base.
  Variable T : Type.
  Notation edit := (edit T).
  Notation chunk := (chunk T).

  Lemma consume_app : forall a b : list edit, edits_consume (a ++ b) = edits_consume a ++ edits_consume b.
  Proof. intros. apply flat_map_app. Qed.
  Lemma produce_app : forall a b : list edit, edits_produce (a ++ b) = edits_produce a ++ edits_produce b.
  Proof. intros. apply flat_map_app. Qed.
  Lemma consume_one : forall e : edit, edits_consume [e] = edit_consume e.
  Proof. intros. cbn. apply app_nil_r. Qed.
  Lemma produce_one : forall e : edit, edits_produce [e] = edit_produce e.
  Proof. intros. cbn. apply app_nil_r. Qed.
  Lemma changes_app : forall a b : list edit, changes (a ++ b) = changes a ++ changes b.
  Proof. intros. apply filter_app. Qed.

  Lemma consume_emit_opt : forall x : list T, edits_consume (emit_opt x) = x.
  Proof. intros [|a x]; [reflexivity|]. cbn. now rewrite app_nil_r. Qed.
  Lemma produce_emit_opt : forall x : list T, edits_produce (emit_opt x) = x.
  Proof. intros [|a x]; [reflexivity|]. cbn. now rewrite app_nil_r. Qed.
  Lemma changes_emit_opt : forall x : list T, changes (emit_opt x) = [].
  Proof. intros [|a x]; reflexivity. Qed.

  (* ---------------------------------------------------------------- segments *)
  Definition seg : Type := (list T * list edit)%type.

  Fixpoint segs_left (s : list seg) : list T :=
    match s with [] => [] | (g, E) :: r => g ++ edits_consume E ++ segs_left r end.
  Fixpoint segs_right (s : list seg) : list T :=
    match s with [] => [] | (g, E) :: r => g ++ edits_produce E ++ segs_right r end.

  Definition chunk_at (lpos rpos : Z) (g : list T) (E : list edit) : chunk :=
    mkChunk E (lpos + len g) (lpos + len g + len (edits_consume E))
              (rpos + len g) (rpos + len g + len (edits_produce E)).

  (* the chunks of New *)
  Fixpoint seg_chunks (lpos rpos : Z) (s : list seg) : list chunk :=
    match s with
    | [] => []
    | (g, E) :: r =>
      chunk_at lpos rpos g E ::
      seg_chunks (lpos + len g + len (edits_consume E)) (rpos + len g + len (edits_produce E)) r
    end.

  Definition no_emit (E : list edit) : Prop := Forall (fun e => is_emit e = false) E.
  Definition nonempty_range (E : list edit) : Prop := edits_consume E <> [] \/ edits_produce E <> [].
  Definition core_wf (E : list edit) : Prop := no_emit E /\ nonempty_range E.
  Definition segs_wf (s : list seg) : Prop :=
    Forall (fun x => core_wf (snd x)) s /\ Forall (fun x => fst x <> []) (tl s).

  Lemma segs_left_app : forall a b, segs_left (a ++ b) = segs_left a ++ segs_left b.
  Proof. induction a as [|[g E] a IH]; intros; cbn; [reflexivity|]. rewrite IH, !app_assoc. reflexivity. Qed.
  Lemma segs_right_app : forall a b, segs_right (a ++ b) = segs_right a ++ segs_right b.
  Proof. induction a as [|[g E] a IH]; intros; cbn; [reflexivity|]. rewrite IH, !app_assoc. reflexivity. Qed.

  Lemma seg_chunks_ext : forall s l r l' r', l = l' -> r = r' -> seg_chunks l r s = seg_chunks l' r' s.
  Proof. intros; subst; reflexivity. Qed.

  Lemma seg_chunks_app : forall a b l r,
      seg_chunks l r (a ++ b) =
      seg_chunks l r a ++ seg_chunks (l + len (segs_left a)) (r + len (segs_right a)) b.
  Proof.
    induction a as [|[g E] a IH]; intros; cbn [app seg_chunks segs_left segs_right].
    - apply seg_chunks_ext; lens; lia.
    - rewrite IH. cbn [app]. f_equal. f_equal. apply seg_chunks_ext; lens; lia.
  Qed.

  Lemma seg_chunks_len : forall s l r, len (seg_chunks l r s) = len s.
  Proof. induction s as [|[g E] s IH]; intros; cbn [seg_chunks]; lens; [reflexivity|]. rewrite IH. reflexivity. Qed.

  Lemma no_emit_changes : forall E, no_emit E -> changes E = E.
  Proof.
    induction E as [|e E IH]; intros H; [reflexivity|]. inversion H; subst.
    cbn. unfold non_emit at 1. rewrite H2. cbn. f_equal. apply IH. assumption.
  Qed.
End Base.

Arguments segs_left {T} s.
Arguments segs_right {T} s.
Arguments chunk_at {T} lpos rpos g E.
Arguments seg_chunks {T} lpos rpos s.
Arguments no_emit {T} E.
Arguments nonempty_range {T} E.
Arguments core_wf {T} E.
Arguments segs_wf {T} s.
