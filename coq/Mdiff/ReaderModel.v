(* Model of mdiff/reader.go: Read (readNormal, readNormalEdit), ReadUnified (readUnifiedHeader,
   readUnifiedChunk), ReadGitPatch (scanToPrefix), parseSpan, parseFileLine.  Definitions only.
   The diffReader (bufio reader + one saved line) is the list of lines still to be read:
   readline takes the head, unread puts a line back in front.  Error values are reduced to an
   enumeration of the failing site. *)
From Coq Require Import NArith ZArith List Bool.
Import ListNotations.
From Mds Require Export Mdiff.FormatModel.
From Mds Require Import Gen.MdiffReadSpan.
Local Open Scope Z_scope.

Inductive rerr :=
| EBlank        (* "unexpected blank line" *)
| ECmd          (* "invalid change command" *)
| ESpan         (* parseSpan failed: missing prefix or strconv.Atoi error *)
| ECount        (* "add got %d lines, want %d" / "delete got ..." *)
| EEdit         (* readNormalEdit: unexpected delete line / insert line / --- separator *)
| EHeader       (* "invalid chunk header" *)
| ERight        (* "missing right header" *)
| EEof          (* io.EOF inside the file header *)
| EPrefix       (* errUnexpectedPrefix reaching the caller of ReadUnified *)
| ENoPatch      (* ReadGitPatch: "no patches found" *)
| EPatchHeader  (* ReadGitPatch: "missing patch header" / "incomplete patch header" *)
| EFuel.        (* the model ran out of fuel: proved impossible, never produced by the code *)

Inductive rres (A : Type) := ROk (a : A) | RErr (e : rerr).
Arguments ROk {A}. Arguments RErr {A}.

(* parseSpan(tag, s), with [dflt] standing for the second result when the count is omitted.
   strconv.Atoi fails on numbers an int cannot hold (atoi64); the sums and differences the readers
   form afterwards are Go's int arithmetic (wrap64). *)
Definition parse_span (dflt : Z) (tag s : bytes) : option (Z * Z) :=
  match cut_prefix tag s with
  | None => None
  | Some rest =>
    match cut_byte 44 rest with   (* strings.SplitN(rest, ",", 2) *)
    | None => match atoi64 rest with Some lo => Some (lo, dflt) | None => None end
    | Some (a, b) =>
      match atoi64 a with
      | None => None
      | Some lo => match atoi64 b with Some hi => Some (lo, hi) | None => None end
      end
    end
  end.

(* ---------------------------------------------------------------- normal format *)

Inductive ncmd := CmdA | CmdC | CmdD.

(* the three strings.Cut attempts of readNormal, in order a, c, d *)
Definition split_cmd (l : line) : option (bytes * ncmd * bytes) :=
  match cut_byte 97 l with
  | Some (x, y) => Some (x, CmdA, y)
  | None =>
    match cut_byte 99 l with
    | Some (x, y) => Some (x, CmdC, y)
    | None =>
      match cut_byte 100 l with
      | Some (x, y) => Some (x, CmdD, y)
      | None => None
      end
    end
  end.

(* readNormalEdit: (e.X, e.Y, lines left) *)
Fixpoint read_normal_edit (ls : list line) (xs ys : list line) (below : bool)
  : rres (list line * list line * list line) :=
  match ls with
  | [] => ROk (xs, ys, [])
  | l :: rest =>
    match cut_prefix s_lt l with
    | Some r =>
      if below || negb (is_nil ys) then RErr EEdit
      else read_normal_edit rest (xs ++ [r]) ys below
    | None =>
      match cut_prefix s_gt l with
      | Some r =>
        if negb (is_nil xs) && negb below then RErr EEdit
        else read_normal_edit rest xs (ys ++ [r]) below
      | None =>
        if bytes_eqb l s_sep then
          (if below then RErr EEdit else read_normal_edit rest xs ys true)
        else ROk (xs, ys, l :: rest)   (* unread *)
      end
    end
  end.

(* one range of a change command: parseSpan, "m,0 -> m,m", inclusive -> exclusive *)
Definition read_normal_range (spec : bytes) : option (Z * Z) :=
  match parse_span parse_span_omitted_hi [] spec with
  | None => None
  | Some (lo, hi) =>
    let hi := if read_normal_lhi_is_omitted lo hi then read_normal_lhi_default lo hi else hi in
    Some (lo, wrap64 (read_normal_lhi_end lo hi))
  end.
Definition read_normal_range_r (spec : bytes) : option (Z * Z) :=
  match parse_span parse_span_omitted_hi [] spec with
  | None => None
  | Some (lo, hi) =>
    let hi := if read_normal_rhi_is_omitted lo hi then read_normal_rhi_default lo hi else hi in
    Some (lo, wrap64 (read_normal_rhi_end lo hi))
  end.

Fixpoint read_normal_loop (fuel : nat) (ls : list line) (acc : list (chunk line))
  : rres (list (chunk line)) :=
  match fuel with
  | O => RErr EFuel
  | S f =>
    match ls with
    | [] => ROk acc
    | l :: rest =>
      if is_nil l then RErr EBlank else
      match split_cmd l with
      | None => RErr ECmd
      | Some (lspec, cmd, rspec) =>
        match read_normal_range lspec with
        | None => RErr ESpan
        | Some (llo, lhi) =>
          match read_normal_range_r rspec with
          | None => RErr ESpan
          | Some (rlo, rhi) =>
            match read_normal_edit rest [] [] false with
            | RErr e => RErr e
            | ROk (xs, ys, rest') =>
              let '(o, llo, rlo) :=
                match cmd with
                | CmdA => (Copy, wrap64 (read_normal_add_llo llo), rlo)
                | CmdC => (Replace, llo, rlo)
                | CmdD => (Drop, llo, wrap64 (read_normal_del_rlo rlo))
                end in
              let is_ac := match cmd with CmdD => false | _ => true end in
              let is_cd := match cmd with CmdA => false | _ => true end in
              if negb (llen ys =? wrap64 (read_normal_want_add rlo rhi)) && is_ac then RErr ECount
              else if negb (llen xs =? wrap64 (read_normal_want_del llo lhi)) && is_cd then RErr ECount
              else read_normal_loop f rest'
                     (acc ++ [mkChunk [mkEdit o xs ys]
                                (read_normal_chunk_lstart llo lhi rlo rhi) (read_normal_chunk_lend llo lhi rlo rhi)
                                (read_normal_chunk_rstart llo lhi rlo rhi) (read_normal_chunk_rend llo lhi rlo rhi)])
            end
          end
        end
      end
    end
  end.

(* every iteration reads at least the command line *)
Definition read_normal_lines (ls : list line) : rres (list (chunk line)) :=
  read_normal_loop (S (length ls)) ls [].

Definition read_normal (t : bytes) : rres (list (chunk line)) := read_normal_lines (split_lines t).

(* ---------------------------------------------------------------- unified format *)

Definition new_edit (o : op) (t : line) : edit line :=
  match o with
  | Copy => mkEdit o [] [t]
  | _ => mkEdit o [t] []
  end.
Definition extend_edit (e : edit line) (o : op) (t : line) : edit line :=
  match o with
  | Copy => mkEdit (eop e) (X e) (Y e ++ [t])
  | _ => mkEdit (eop e) (X e ++ [t]) (Y e)
  end.

(* the closure [add] of readUnifiedChunk on ch.Edits *)
Fixpoint add_text (o : op) (t : line) (es : list (edit line)) : list (edit line) :=
  match es with
  | [] => [new_edit o t]
  | [e] => if op_eqb (eop e) o then [extend_edit e o t] else [e; new_edit o t]
  | e :: es' => e :: add_text o t es'
  end.

Inductive body_end := BodyEof | BodyNext | BodyUnexpected | BodyBlank.

(* the nextLine loop: (how it ended, ch.Edits, lines left with the offending line unread) *)
Fixpoint read_uchunk_body (ls : list line) (es : list (edit line))
  : body_end * list (edit line) * list line :=
  match ls with
  | [] => (BodyEof, es, [])
  | l :: rest =>
    match l with
    | [] => (BodyBlank, es, rest)
    | c :: t =>
      if N.eqb c 32 then read_uchunk_body rest (add_text Emit t es)
      else if N.eqb c 45 then read_uchunk_body rest (add_text Drop t es)
      else if N.eqb c 43 then read_uchunk_body rest (add_text Copy t es)
      else if N.eqb c 64 then (BodyNext, es, l :: rest)
      else (BodyUnexpected, es, l :: rest)
    end
  end.

(* F5: the count that an omitted count stands for; F6 repaired: "s,0" is the empty range after
   line s, i.e. it starts at s+1.  Result: (start, count) *)
Definition omitted_count (v : variant) : Z :=
  if uspan_omitted_count_zero v then parse_span_omitted_hi else 1.

Definition read_uspan (v : variant) (tag s : bytes) : option (Z * Z) :=
  match parse_span (omitted_count v) tag s with
  | None => None
  | Some (lo, n) =>
    let lo' := if negb (uspan_empty_names_next_line v) && (n =? 0) then wrap64 (lo + 1) else lo in
    Some (lo', n)
  end.

(* ch := &Chunk{LStart: llo, LEnd: llo + lhi, RStart: rlo, REnd: rlo + rhi} *)
Definition uchunk_of (es : list (edit line)) (llo lhi rlo rhi : Z) : chunk line :=
  mkChunk es (read_uchunk_lstart llo lhi rlo rhi) (wrap64 (read_uchunk_lend llo lhi rlo rhi))
             (read_uchunk_rstart llo lhi rlo rhi) (wrap64 (read_uchunk_rend llo lhi rlo rhi)).

Inductive uchunk_res :=
| UEof                                               (* io.EOF before a chunk header *)
| UErr (e : rerr)
| UChunk (c : chunk line) (rest : list line)         (* appended to r.chunks, nil *)
| UUnexpected (c : chunk line) (rest : list line).   (* appended, errUnexpectedPrefix *)

Definition nth_field (fs : list bytes) (i : nat) : bytes := nth i fs [].

Definition read_uchunk (v : variant) (ls : list line) : uchunk_res :=
  match ls with
  | [] => UEof
  | l :: rest =>
    let parts := fields l in
    if read_uchunk_min_fields (llen parts)
         (negb (bytes_eqb (nth_field parts 0) s_atat)) (negb (bytes_eqb (nth_field parts 3) s_atat))
    then UErr EHeader else
    match read_uspan v s_minus (nth_field parts 1) with
    | None => UErr ESpan
    | Some (llo, lhi) =>
      match read_uspan v s_plus (nth_field parts 2) with
      | None => UErr ESpan
      | Some (rlo, rhi) =>
        match read_uchunk_body rest [] with
        | (BodyBlank, _, _) => UErr EBlank
        | (BodyUnexpected, es, rest') => UUnexpected (uchunk_of es llo lhi rlo rhi) rest'
        | (_, es, rest') => UChunk (uchunk_of es llo lhi rlo rhi) rest'
        end
      end
    end
  end.

Section Headers.
  Variable time : Type.
  Variable zero_time : time.
  Variable parse_time : bytes -> option time.     (* time.Parse(TimeFormat, s) *)

  (* parseFileLine(s, TimeFormat) *)
  Definition parse_file_line (s : bytes) : bytes * time :=
    match cut_byte 9 s with
    | Some (name, rest) =>
      match parse_time rest with
      | Some ts => (name, ts)
      | None => (name, zero_time)
      end
    | None => (s, zero_time)
    end.

  (* readUnifiedHeader (after repair F9: end of input before the first line is not an error) *)
  Definition read_uheader (ls : list line) : rres (option (file_info time) * list line) :=
    match ls with
    | [] => ROk (None, [])
    | l :: rest =>
      match cut_prefix s_mmm l with
      | None => ROk (None, l :: rest)   (* unread *)
      | Some lhs =>
        let '(ln, lt) := parse_file_line lhs in
        match rest with
        | [] => RErr EEof
        | r :: rest' =>
          match cut_prefix s_ppp r with
          | None => RErr ERight
          | Some rhs =>
            let '(rn, rt) := parse_file_line rhs in
            ROk (Some (mkFileInfo ln rn lt rt), rest')
          end
        end
      end
    end.

  Fixpoint read_uchunks (v : variant) (fuel : nat) (ls : list line) (acc : list (chunk line))
    : rres (list (chunk line)) :=
    match fuel with
    | O => RErr EFuel
    | S f =>
      match read_uchunk v ls with
      | UEof => ROk acc
      | UErr e => RErr e
      | UChunk c rest => read_uchunks v f rest (acc ++ [c])
      | UUnexpected _ _ => RErr EPrefix
      end
    end.

  Record patch := mkPatch { p_info : option (file_info time); p_chunks : list (chunk line) }.

  Definition read_unified_lines (v : variant) (ls : list line) : rres patch :=
    match read_uheader ls with
    | RErr e => RErr e
    | ROk (fi, rest) =>
      match read_uchunks v (S (length rest)) rest [] with
      | RErr e => RErr e
      | ROk cs => ROk (mkPatch fi cs)
      end
    end.

  Definition read_unified (v : variant) (t : bytes) : rres patch := read_unified_lines v (split_lines t).

  (* ---- ReadGitPatch ---- *)
  (* scanToPrefix: None = io.EOF; otherwise the lines from the matching one on (it is unread) *)
  Fixpoint scan_to_prefix (pfx : bytes) (ls : list line) : option (list line) :=
    match ls with
    | [] => None
    | l :: rest => if has_prefix pfx l then Some (l :: rest) else scan_to_prefix pfx rest
    end.

  (* the inner loop: chunks until io.EOF or errUnexpectedPrefix *)
  Fixpoint read_git_chunks (v : variant) (fuel : nat) (ls : list line) (acc : list (chunk line))
    : rres (list (chunk line) * list line) :=
    match fuel with
    | O => RErr EFuel
    | S f =>
      match read_uchunk v ls with
      | UEof => ROk (acc, [])
      | UErr e => RErr e
      | UChunk c rest => read_git_chunks v f rest (acc ++ [c])
      | UUnexpected c rest => ROk (acc ++ [c], rest)
      end
    end.

  Fixpoint read_git_loop (v : variant) (fuel : nat) (ls : list line) (out : list patch)
    : rres (list patch) :=
    match fuel with
    | O => RErr EFuel
    | S f =>
      match scan_to_prefix s_diff ls with
      | None => if is_nil out then RErr ENoPatch else ROk out
      | Some ls1 =>
        match scan_to_prefix s_mmm ls1 with
        | None => RErr EPatchHeader
        | Some ls2 =>
          match read_uheader ls2 with
          | RErr e => RErr e
          | ROk (None, _) => RErr EPatchHeader
          | ROk (Some fi, ls3) =>
            match read_git_chunks v (S (length ls3)) ls3 [] with
            | RErr e => RErr e
            | ROk (cs, ls4) => read_git_loop v f ls4 (out ++ [mkPatch (Some fi) cs])
            end
          end
        end
      end
    end.

  Definition read_git_lines (v : variant) (ls : list line) : rres (list patch) :=
    read_git_loop v (S (length ls)) ls [].
  Definition read_git_patch (v : variant) (t : bytes) : rres (list patch) :=
    read_git_lines v (split_lines t).
End Headers.

Arguments mkPatch {time}. Arguments p_info {time}. Arguments p_chunks {time}.
