(* C13 proofs, part 2: findContext / AddContext.  On the chunks of a segment decomposition,
   AddContext n returns [ctx_chunks n]: every chunk gets the last min(n, |gap before|) lines of the
   gap before it and the first min(n, |gap after|) lines of the gap after it; no panic.  Only
   reflexivity of the line comparison is needed. *)
From Coq Require Import ZArith List Bool Lia ZifyBool.
Import ListNotations.
From Mds Require Import Gen.MdiffIdx Mdiff.MdiffModel Mdiff.MdiffSpec Mdiff.MdiffProofsBase.
Local Open Scope Z_scope.

Section CtxDefs.
  Variable T : Type.
  Notation edit := (edit T).
  Notation chunk := (chunk T).

  (* number of context lines taken from a gap g *)
  Definition ctx_k (n : Z) (g : list T) : nat := Z.to_nat (Z.min n (len g)).
  Definition ctx_pre (n : Z) (g : list T) : list T := skipn (length g - ctx_k n g) g.
  Definition ctx_post (n : Z) (g : list T) : list T := firstn (ctx_k n g) g.

  Definition next_gap (r : list (seg T)) (gt : list T) : list T :=
    match r with [] => gt | (g, _) :: _ => g end.

  Definition ctx_chunk_at (n lpos rpos : Z) (g : list T) (E : list edit) (gn : list T) : chunk :=
    let pre := ctx_pre n g in
    let post := ctx_post n gn in
    mkChunk (emit_opt pre ++ E ++ emit_opt post)
            (lpos + len g - len pre) (lpos + len g + len (edits_consume E) + len post)
            (rpos + len g - len pre) (rpos + len g + len (edits_produce E) + len post).

  (* the chunks of AddContext n *)
  Fixpoint ctx_chunks (n lpos rpos : Z) (s : list (seg T)) (gt : list T) : list chunk :=
    match s with
    | [] => []
    | (g, E) :: r =>
      ctx_chunk_at n lpos rpos g E (next_gap r gt) ::
      ctx_chunks n (lpos + len g + len (edits_consume E)) (rpos + len g + len (edits_produce E)) r gt
    end.

  Lemma ctx_k_le : forall n g, (ctx_k n g <= length g)%nat.
  Proof. intros. unfold ctx_k, len. lia. Qed.
  Lemma ctx_k_val : forall n g, Z.of_nat (ctx_k n g) = Z.max 0 (Z.min n (len g)).
  Proof. intros. unfold ctx_k. lia. Qed.
  Lemma len_ctx_pre : forall n g, len (ctx_pre n g) = Z.max 0 (Z.min n (len g)).
  Proof.
    intros. unfold ctx_pre. rewrite len_skipn. pose proof (ctx_k_le n g). pose proof (ctx_k_val n g).
    unfold len in *. lia.
  Qed.
  Lemma len_ctx_post : forall n g, len (ctx_post n g) = Z.max 0 (Z.min n (len g)).
  Proof.
    intros. unfold ctx_post. rewrite len_firstn by apply ctx_k_le. apply ctx_k_val.
  Qed.
  Lemma ctx_pre_split : forall n g, g = firstn (length g - ctx_k n g) g ++ ctx_pre n g.
  Proof. intros. unfold ctx_pre. symmetry. apply firstn_skipn. Qed.
  Lemma ctx_post_split : forall n g, g = ctx_post n g ++ skipn (ctx_k n g) g.
  Proof. intros. unfold ctx_post. symmetry. apply firstn_skipn. Qed.

  Lemma ctx_pre_nil : forall n g, n <= 0 -> ctx_pre n g = [].
  Proof. intros. apply len_zero. rewrite len_ctx_pre. pose proof (len_nonneg _ g). lia. Qed.
  Lemma ctx_post_nil : forall n g, n <= 0 -> ctx_post n g = [].
  Proof. intros. apply len_zero. rewrite len_ctx_post. pose proof (len_nonneg _ g). lia. Qed.

  (* without context these are New's chunks *)
  Lemma ctx_chunks_0 : forall n s lpos rpos gt, n <= 0 -> ctx_chunks n lpos rpos s gt = seg_chunks lpos rpos s.
  Proof.
    induction s as [|[g E] s IH]; intros; cbn [ctx_chunks seg_chunks]; [reflexivity|].
    rewrite IH by assumption. f_equal. unfold ctx_chunk_at, chunk_at.
    rewrite ctx_pre_nil, ctx_post_nil by assumption. cbn [emit_opt app]. rewrite app_nil_r.
    f_equal; lens; lia.
  Qed.

  Lemma ctx_chunks_len : forall n s l r gt, len (ctx_chunks n l r s gt) = len s.
  Proof. induction s as [|[g E] s IH]; intros; cbn [ctx_chunks]; lens; [reflexivity|]. rewrite IH. reflexivity. Qed.
End CtxDefs.

Arguments ctx_k {T} n g.
Arguments ctx_pre {T} n g.
Arguments ctx_post {T} n g.
Arguments next_gap {T} r gt.
Arguments ctx_chunk_at {T} n lpos rpos g E gn.
Arguments ctx_chunks {T} n lpos rpos s gt.
Arguments ctx_k_le {T}.
Arguments ctx_k_val {T}.
Arguments len_ctx_pre {T}.
Arguments len_ctx_post {T}.
Arguments ctx_pre_split {T}.
Arguments ctx_post_split {T}.
Arguments ctx_pre_nil {T}.
Arguments ctx_post_nil {T}.
Arguments ctx_chunks_0 {T}.
Arguments ctx_chunks_len {T}.

Section AddContext.
  Variable T : Type.
  Variable eqb : T -> T -> bool.
  Hypothesis eqb_refl : forall a, eqb a a = true.
  Notation edit := (edit T).
  Notation chunk := (chunk T).

  Variables L R : list T.

  (* walking backward from the chunk: the lines [rev v] just before position lcur - |w| *)
  Lemma fc_pre_loop_ok : forall (v l1 r1 u w l2 r2 : list T) lcur rcur i acc,
      L = l1 ++ u ++ rev v ++ w ++ l2 -> R = r1 ++ u ++ rev v ++ w ++ r2 ->
      lcur = len l1 + len u + len v + len w -> rcur = len r1 + len u + len v + len w ->
      i = len w ->
      fc_pre_loop eqb L R lcur rcur (length v) i acc = Ok (acc ++ v).
  Proof.
    induction v as [|a v IH]; intros l1 r1 u w l2 r2 lcur rcur i acc HL HR Hl Hr Hi.
    - cbn. rewrite app_nil_r. reflexivity.
    - cbn [length fc_pre_loop]. cbn [rev] in HL, HR.
      pose proof (len_nonneg _ l1). pose proof (len_nonneg _ r1). pose proof (len_nonneg _ u).
      pose proof (len_nonneg _ v). pose proof (len_nonneg _ w). lens.
      assert (Hp : zth L (fc_pre_p lcur rcur i) = Some a).
      { rewrite HL. replace (l1 ++ u ++ (rev v ++ [a]) ++ w ++ l2) with ((l1 ++ u ++ rev v) ++ a :: (w ++ l2)) by lapp.
        apply zth_app_mid. unfold fc_pre_p. lens. lia. }
      assert (Hq : zth R (fc_pre_q lcur rcur i) = Some a).
      { rewrite HR. replace (r1 ++ u ++ (rev v ++ [a]) ++ w ++ r2) with ((r1 ++ u ++ rev v) ++ a :: (w ++ r2)) by lapp.
        apply zth_app_mid. unfold fc_pre_q. lens. lia. }
      rewrite Hp, Hq, eqb_refl. cbn [negb].
      replace (fc_pre_stop (fc_pre_p lcur rcur i) (fc_pre_q lcur rcur i) false) with false
        by (unfold fc_pre_stop, fc_pre_p, fc_pre_q; lia).
      rewrite (IH l1 r1 u (a :: w) l2 r2 lcur rcur (i + 1) (acc ++ [a])); try (lens; lia).
      + f_equal. lapp.
      + rewrite HL. lapp.
      + rewrite HR. lapp.
  Qed.

  Lemma fc_post_loop_ok : forall (v l1 r1 w l2 r2 : list T) lend rend i acc,
      L = l1 ++ w ++ v ++ l2 -> R = r1 ++ w ++ v ++ r2 ->
      lend = len l1 -> rend = len r1 -> i = len w ->
      fc_post_loop eqb L R lend rend (length v) i acc = Ok (acc ++ v).
  Proof.
    induction v as [|a v IH]; intros l1 r1 w l2 r2 lend rend i acc HL HR Hl Hr Hi.
    - cbn. rewrite app_nil_r. reflexivity.
    - cbn [length fc_post_loop].
      pose proof (len_nonneg _ l1). pose proof (len_nonneg _ r1). pose proof (len_nonneg _ l2).
      pose proof (len_nonneg _ r2). pose proof (len_nonneg _ v). pose proof (len_nonneg _ w).
      assert (HLl : len L = len l1 + len w + (1 + len v) + len l2) by (rewrite HL; lens; lia).
      assert (HRl : len R = len r1 + len w + (1 + len v) + len r2) by (rewrite HR; lens; lia).
      assert (Hp : zth L (fc_post_p lend rend i) = Some a).
      { rewrite HL. replace (l1 ++ w ++ (a :: v) ++ l2) with ((l1 ++ w) ++ a :: (v ++ l2)) by lapp.
        apply zth_app_mid. unfold fc_post_p. lens. lia. }
      assert (Hq : zth R (fc_post_q lend rend i) = Some a).
      { rewrite HR. replace (r1 ++ w ++ (a :: v) ++ r2) with ((r1 ++ w) ++ a :: (v ++ r2)) by lapp.
        apply zth_app_mid. unfold fc_post_q. lens. lia. }
      rewrite Hp, Hq, eqb_refl. cbn [negb].
      replace (fc_post_stop (fc_post_p lend rend i) (fc_post_q lend rend i) (len L) (len R) false) with false
        by (unfold fc_post_stop, fc_post_p, fc_post_q; lia).
      rewrite (IH l1 r1 (w ++ [a]) l2 r2 lend rend (i + 1) (acc ++ [a])); try (lens; lia).
      + f_equal. lapp.
      + rewrite HL. lapp.
      + rewrite HR. lapp.
  Qed.

  (* a chunk with core lines Xc / Yc, gap g before and gn after *)
  (* the counts only matter through the number of iterations they allow *)
  Lemma find_context_gen : forall n (c : chunk) (l1 r1 g Xc Yc gn l2 r2 : list T) npre npost,
      L = l1 ++ g ++ Xc ++ gn ++ l2 -> R = r1 ++ g ++ Yc ++ gn ++ r2 ->
      LStart c = 1 + len l1 + len g -> RStart c = 1 + len r1 + len g ->
      LEnd c = LStart c + len Xc -> REnd c = RStart c + len Yc ->
      Z.to_nat npre = ctx_k n g -> Z.to_nat npost = ctx_k n gn ->
      find_context eqb L R c npre npost = Ok (ctx_pre n g, ctx_post n gn).
  Proof.
    intros n c l1 r1 g Xc Yc gn l2 r2 npre npost HL HR Hls Hrs Hle Hre Hnpre Hnpost.
    unfold find_context, fc_pre_count, fc_post_count.
    rewrite Hnpre, Hnpost.
    pose proof (ctx_k_le n g) as Hk. pose proof (ctx_k_le n gn) as Hkn.
    (* pre *)
    set (u := firstn (length g - ctx_k n g) g).
    assert (Hg : g = u ++ rev (rev (ctx_pre n g))) by (rewrite rev_involutive; apply ctx_pre_split).
    assert (Hlen : length (rev (ctx_pre n g)) = ctx_k n g).
    { rewrite rev_length. unfold ctx_pre. rewrite skipn_length. lia. }
    rewrite <- Hlen at 1.
    rewrite (fc_pre_loop_ok (rev (ctx_pre n g)) l1 r1 u [] (Xc ++ gn ++ l2) (Yc ++ gn ++ r2)).
    2:{ rewrite HL. rewrite Hg at 1. lapp. }
    2:{ rewrite HR. rewrite Hg at 1. lapp. }
    2:{ unfold fc_lcur. rewrite Hls. rewrite Hg at 1. lens. lia. }
    2:{ unfold fc_rcur. rewrite Hrs. rewrite Hg at 1. lens. lia. }
    2:{ reflexivity. }
    cbn [bind app]. rewrite rev_involutive.
    (* post *)
    assert (Hlenp : length (ctx_post n gn) = ctx_k n gn).
    { unfold ctx_post. rewrite firstn_length. lia. }
    rewrite <- Hlenp at 1.
    rewrite (fc_post_loop_ok (ctx_post n gn) (l1 ++ g ++ Xc) (r1 ++ g ++ Yc) []
                             (skipn (ctx_k n gn) gn ++ l2) (skipn (ctx_k n gn) gn ++ r2)).
    2:{ rewrite HL. rewrite (ctx_post_split n gn) at 1. lapp. }
    2:{ rewrite HR. rewrite (ctx_post_split n gn) at 1. lapp. }
    2:{ unfold fc_lend. rewrite Hle, Hls. lens. lia. }
    2:{ unfold fc_rend. rewrite Hre, Hrs. lens. lia. }
    2:{ reflexivity. }
    reflexivity.
  Qed.

  Lemma find_context_ok : forall n (c : chunk) (l1 r1 g Xc Yc gn l2 r2 : list T),
      L = l1 ++ g ++ Xc ++ gn ++ l2 -> R = r1 ++ g ++ Yc ++ gn ++ r2 ->
      LStart c = 1 + len l1 + len g -> RStart c = 1 + len r1 + len g ->
      LEnd c = LStart c + len Xc -> REnd c = RStart c + len Yc ->
      find_context eqb L R c (Z.min n (len g)) (Z.min n (len gn)) = Ok (ctx_pre n g, ctx_post n gn).
  Proof. intros. eapply find_context_gen; eauto. Qed.

  (* the chunk update after findContext *)
  Lemma ac_chunk_ok : forall n (c : chunk) prevEnd nextStart pre post,
      find_context eqb L R c (ac_npre n (LStart c) prevEnd) (ac_npost n nextStart (LEnd c)) = Ok (pre, post) ->
      ac_chunk eqb true L R n c prevEnd nextStart =
      Ok (mkChunk (emit_opt pre ++ edits c ++ emit_opt post)
                  (LStart c - len pre) (LEnd c + len post) (RStart c - len pre) (REnd c + len post)).
  Proof.
    intros n c prevEnd nextStart pre post Hfc. unfold ac_chunk. rewrite Hfc. cbn [bind fst snd].
    f_equal. destruct c as [es ls le rs re]. cbn [edits LStart LEnd RStart REnd].
    pose proof (len_nonneg _ pre). pose proof (len_nonneg _ post).
    destruct pre as [|a pre], post as [|b post];
      unfold ac_has_pre, ac_has_post, ac_pre_lstart, ac_pre_rstart, ac_post_lend, ac_post_rend;
      cbn [emit_opt app]; lens;
      try pose proof (len_nonneg _ pre); try pose proof (len_nonneg _ post).
    all: repeat match goal with
         | |- context [negb (?x =? 0)] =>
           first [replace (negb (x =? 0)) with true by lia | replace (negb (x =? 0)) with false by lia]
         end;
      cbn [edits LStart LEnd RStart REnd app]; rewrite ?app_nil_r; f_equal; lia.
  Qed.

  Theorem ac_loop_ok : forall n gt (segs : list (seg T)) (lpre rpre : list T) (all allpre : list chunk) lpos rpos i,
      0 < n ->
      L = lpre ++ segs_left segs ++ gt -> R = rpre ++ segs_right segs ++ gt ->
      lpos = 1 + len lpre -> rpos = 1 + len rpre ->
      all = allpre ++ seg_chunks lpos rpos segs -> i = len allpre ->
      ac_loop eqb true L R n all (seg_chunks lpos rpos segs) i lpos = Ok (ctx_chunks n lpos rpos segs gt).
  Proof.
    intros n gt. induction segs as [|[g E] r IH]; intros lpre rpre all allpre lpos rpos i Hn HL HR Hlp Hrp Hall Hi.
    - reflexivity.
    - cbn [seg_chunks ctx_chunks ac_loop]. cbn [seg_chunks] in Hall.
      cbn [segs_left segs_right] in HL, HR.
      set (c := chunk_at lpos rpos g E) in *.
      set (le := lpos + len g + len (edits_consume E)) in *.
      set (re := rpos + len g + len (edits_produce E)) in *.
      pose proof (len_nonneg _ allpre).
      (* nextStart *)
      assert (Hnext : (if ac_has_next i (len all)
                       then match zth all (ac_next_idx i) with Some c' => Ok (LStart c') | None => Panic PIndex end
                       else Ok (ac_next_default (len L))) = Ok (le + len (next_gap r gt))).
      { destruct r as [|[g' E'] r'].
        - replace (ac_has_next i (len all)) with false
            by (rewrite Hall; unfold ac_has_next; cbn [seg_chunks]; lens; lia).
          f_equal. unfold ac_next_default. rewrite HL. cbn [next_gap segs_left]. subst le. lens. lia.
        - replace (ac_has_next i (len all)) with true.
          2:{ rewrite Hall. unfold ac_has_next. cbn [seg_chunks]. lens.
              pose proof (len_nonneg _ (seg_chunks
                (le + len g' + len (edits_consume E')) (re + len g' + len (edits_produce E')) r')). lia. }
          rewrite Hall. cbn [seg_chunks].
          replace (allpre ++ c :: chunk_at le re g' E' :: seg_chunks (le + len g' + len (edits_consume E')) (re + len g' + len (edits_produce E')) r')
            with ((allpre ++ [c]) ++ chunk_at le re g' E' :: seg_chunks (le + len g' + len (edits_consume E')) (re + len g' + len (edits_produce E')) r') by lapp.
          rewrite zth_app_mid by (unfold ac_next_idx; lens; lia).
          reflexivity. }
      rewrite Hnext. cbn [bind].
      (* the chunk *)
      assert (Hfc : find_context eqb L R c (ac_npre n (LStart c) lpos) (ac_npost n (le + len (next_gap r gt)) (LEnd c))
                    = Ok (ctx_pre n g, ctx_post n (next_gap r gt))).
      { replace (ac_npre n (LStart c) lpos) with (Z.min n (len g)) by (unfold ac_npre, c, chunk_at; cbn [LStart]; lia).
        replace (ac_npost n (le + len (next_gap r gt)) (LEnd c)) with (Z.min n (len (next_gap r gt)))
          by (unfold ac_npost, c, chunk_at, le; cbn [LEnd]; lia).
        destruct r as [|[g' E'] r']; cbn [next_gap].
        - apply (find_context_ok n c lpre rpre g (edits_consume E) (edits_produce E) gt [] []);
            unfold c, chunk_at; cbn [LStart LEnd RStart REnd]; try lia.
          + rewrite HL. cbn [segs_left]. lapp.
          + rewrite HR. cbn [segs_right]. lapp.
        - apply (find_context_ok n c lpre rpre g (edits_consume E) (edits_produce E) g'
                                 (edits_consume E' ++ segs_left r' ++ gt) (edits_produce E' ++ segs_right r' ++ gt));
            unfold c, chunk_at; cbn [LStart LEnd RStart REnd]; try lia.
          + rewrite HL. cbn [segs_left]. lapp.
          + rewrite HR. cbn [segs_right]. lapp. }
      rewrite (ac_chunk_ok _ _ _ _ _ _ Hfc). cbn [bind].
      (* the rest *)
      unfold ac_prev_next. replace (LEnd c) with le by reflexivity.
      rewrite (IH (lpre ++ g ++ edits_consume E) (rpre ++ g ++ edits_produce E) all (allpre ++ [c]) le re (i + 1));
        try assumption.
      + cbn [bind]. apply f_equal. apply (f_equal2 cons); [|reflexivity].
        unfold ctx_chunk_at, c, chunk_at, le. cbn [edits LStart LEnd RStart REnd].
        f_equal; lia.
      + rewrite HL. lapp.
      + rewrite HR. lapp.
      + unfold le. lens. lia.
      + unfold re. lens. lia.
      + rewrite Hall. lapp.
      + lens. lia.
  Qed.

  (* AddContext on New's chunks *)
  Theorem add_context_ok : forall n gt (segs : list (seg T)),
      L = segs_left segs ++ gt -> R = segs_right segs ++ gt ->
      add_context eqb L R n (seg_chunks 1 1 segs) = Ok (ctx_chunks n 1 1 segs gt).
  Proof.
    intros n gt segs HL HR. unfold add_context, add_context_v.
    destruct (ac_skip n (len (seg_chunks 1 1 segs))) eqn:Hskip.
    - rewrite seg_chunks_len in Hskip. unfold ac_skip in Hskip.
      destruct (Z.leb_spec n 0).
      + rewrite ctx_chunks_0 by assumption. reflexivity.
      + assert (len segs = 0) by lia. assert (segs = []) by (apply len_zero; assumption). subst. reflexivity.
    - unfold ac_skip in Hskip. unfold ac_prev_init.
      apply (ac_loop_ok n gt segs [] [] (seg_chunks 1 1 segs) [] 1 1 0); try reflexivity; try assumption. lia.
  Qed.
End AddContext.
