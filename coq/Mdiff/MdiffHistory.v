(* C13 for every history of AddContext(n_i) / Unify calls after New: the invariant [reach] holds
   of New's chunks and is closed under both operations (neither panics), and it implies the
   property: every chunk right, non-context edits kept, a patch whenever the chunks do not overlap,
   ascending / disjoint / not adjacent after Unify (and after New). *)
From Coq Require Import ZArith List Bool Lia ZifyBool.
Import ListNotations.
From Mds Require Import Gen.MdiffIdx Mdiff.MdiffModel Mdiff.MdiffSpec Mdiff.MdiffProofsBase
     Mdiff.MdiffProofsNew Mdiff.MdiffProofsCtx Mdiff.MdiffProofsUnify Mdiff.MdiffProofsProps Mdiff.MdiffProofs
     Mdiff.MdiffHistModel Mdiff.MdiffHistBase Mdiff.MdiffHistCtx Mdiff.MdiffHistUnify Mdiff.MdiffHistProps.
From Mds Require Import Mdiff.FormatSpec Mdiff.MdiffPatchOk.
From Mds Require Import Slice.EditModel Slice.EditSpec Slice.EditTheorems Mdiff.MdiffCompose.
Local Open Scope Z_scope.

Section History.
  Variable T : Type.
  Variable eqb : T -> T -> bool.
  Hypothesis eqb_refl : forall a, eqb a a = true.
  Notation edit := (edit T).
  Notation chunk := (chunk T).

  (* the chunk lists a history can reach, for inputs L, R and a list [base] of non-context edits *)
  Definition reach (L R : list T) (base : list edit) (cs : list chunk) : Prop :=
    exists (s : list (hseg T)) (Gt : gapd T),
      cs = hchunks 1 1 s Gt /\ L = hleft s ++ flat Gt /\ R = hright s ++ flat Gt /\
      hvalid s Gt /\ changes (flat_map snd s) = base.

  Lemma reach_new : forall (L R : list T) (es : list edit),
      script_ok L R es -> reach L R (flat_map edits (new_chunks es)) (new_chunks es).
  Proof.
    intros L R es Hs.
    destruct (new_chunks_segs T L R es Hs) as (segs & gt & Hn & HL & HR & Hwf & _).
    exists (init_segs segs), (gap0 gt).
    assert (Hf : flat (gap0 gt) = gt) by (unfold flat, gap0; cbn; apply app_nil_r).
    unfold hleft, hright. rewrite to_segs_init, Hf, hchunks_init.
    split; [exact Hn|]. split; [exact HL|]. split; [exact HR|].
    split; [apply hvalid_init; exact Hwf|].
    rewrite Hn, seg_chunks_edits.
    replace (flat_map snd (init_segs segs)) with (flat_map snd segs).
    - apply segs_wf_changes. exact Hwf.
    - clear. induction segs as [|[g E] r IH]; [reflexivity|]. cbn [init_segs map flat_map fst snd].
      fold (init_segs r). rewrite IH. reflexivity.
  Qed.

  Lemma reach_add : forall (L R : list T) base cs n,
      reach L R base cs ->
      exists cs', add_context eqb L R n cs = Ok cs' /\ reach L R base cs' /\
                  Forall2 (ctx_of (Z.max 0 n)) cs cs'.
  Proof.
    intros L R base cs n (s & Gt & -> & HL & HR & Hv & Hb).
    exists (hchunks 1 1 (ac_segs n s) (ac_last n s Gt)).
    split; [apply hadd_context_ok; assumption|]. split.
    - exists (ac_segs n s), (ac_last n s Gt). split; [reflexivity|].
      unfold hleft, hright. rewrite to_segs_ac, flat_ac_last.
      split; [exact HL|]. split; [exact HR|]. split; [apply hvalid_ac; exact Hv|].
      rewrite ac_segs_cores. exact Hb.
    - apply hchunks_ctx_step.
  Qed.

  Lemma reach_unify : forall (L R : list T) base cs,
      reach L R base cs ->
      exists cu, unify_chunks cs = Ok cu /\ reach L R base cu /\
                 separated 1 cu /\ patch_ok L R cu /\ (separated 1 cs -> cu = cs).
  Proof.
    intros L R base cs (s & Gt & -> & HL & HR & Hv & Hb).
    exists (hchunks 1 1 (un_segs s) Gt).
    destruct (hvalid_un T s Gt Hv) as [Hv' Hap].
    assert (HL' : L = hleft (un_segs s) ++ flat Gt) by (rewrite (un_segs_left T s Gt Hv); exact HL).
    assert (HR' : R = hright (un_segs s) ++ flat Gt) by (rewrite (un_segs_right T s Gt Hv); exact HR).
    split; [apply hunify_ok; exact Hv|]. split; [|split; [|split]].
    - exists (un_segs s), Gt. repeat (split; try assumption). rewrite un_segs_changes. exact Hb.
    - apply hchunks_separated. exact Hap.
    - apply hpatch_ok; try assumption.
      eapply Forall_impl; [|exact Hap]. intros x Hx. apply apart_nonover. exact Hx.
    - intros Hsep. rewrite un_segs_apart; [reflexivity|]. apply (separated1_apart T Gt s 1 1 Hsep).
  Qed.

  (* what the invariant says about the chunks *)
  Lemma reach_props : forall (L R : list T) base cs,
      reach L R base cs ->
      Forall (chunk_ok L R) cs /\ changes (flat_map edits cs) = base /\ Forall has_change cs /\
      (separated 0 cs -> patch_ok L R cs /\ apply_chunks L cs = R).
  Proof.
    intros L R base cs (s & Gt & -> & HL & HR & Hv & Hb).
    split; [apply (hchunks_ok T L R Gt s [] []); try reflexivity; assumption|].
    split; [rewrite hchunks_changes; exact Hb|]. split.
    - apply hchunks_change. destruct s as [|[G E] r]; [constructor|]. destruct Hv as (_ & _ & _ & H). exact H.
    - intros Hsep. assert (Hp : patch_ok L R (hchunks 1 1 s Gt)) by (apply hpatch_ok_separated; assumption).
      split; [exact Hp|apply patch_ok_apply; exact Hp].
  Qed.

  Lemma reach_run : forall (L R : list T) base ops cs,
      reach L R base cs -> exists cs', run_ops eqb L R cs ops = Ok cs' /\ reach L R base cs'.
  Proof.
    intros L R base. induction ops as [|o ops IH]; intros cs Hr; cbn [run_ops].
    - exists cs. split; [reflexivity|exact Hr].
    - destruct o as [n|]; cbn [run_op].
      + destruct (reach_add L R base cs n Hr) as (cs1 & H1 & Hr1 & _). rewrite H1. cbn [bind]. apply IH. exact Hr1.
      + destruct (reach_unify L R base cs Hr) as (cs1 & H1 & Hr1 & _). rewrite H1. cbn [bind]. apply IH. exact Hr1.
  Qed.

  Lemma run_ops_app : forall (L R : list T) a b cs,
      run_ops eqb L R cs (a ++ b) = bind (run_ops eqb L R cs a) (fun cs' => run_ops eqb L R cs' b).
  Proof.
    intros L R. induction a as [|o a IH]; intros b cs; cbn [app run_ops]; [reflexivity|].
    destruct (run_op eqb L R cs o); cbn [bind]; [apply IH|reflexivity].
  Qed.

  (* ---- the theorems *)

  (* every history: no panic; every chunk right; the non-context edits are New's; every chunk has
     one; chunks that do not overlap are a patch and apply *)
  Theorem history_correct : forall (L R : list T) (es : list edit) (ops : list hop),
      script_ok L R es ->
      exists cs,
        run_ops eqb L R (new_chunks es) ops = Ok cs /\
        Forall (chunk_ok L R) cs /\
        changes (flat_map edits cs) = flat_map edits (new_chunks es) /\
        Forall has_change cs /\
        (separated 0 cs -> patch_ok L R cs /\ apply_chunks L cs = R).
  Proof.
    intros L R es ops Hs.
    destruct (reach_run L R _ ops _ (reach_new L R es Hs)) as (cs & Hrun & Hr).
    exists cs. split; [exact Hrun|]. apply reach_props. exact Hr.
  Qed.

  (* every history that ends with Unify: moreover ascending, disjoint, not adjacent; a patch;
     applying gives Right; and Unify did nothing if the chunks were already like that *)
  Theorem history_unify_correct : forall (L R : list T) (es : list edit) (ops : list hop),
      script_ok L R es ->
      exists cs cu,
        run_ops eqb L R (new_chunks es) ops = Ok cs /\
        run_ops eqb L R (new_chunks es) (ops ++ [HUnify]) = Ok cu /\
        Forall (chunk_ok L R) cu /\ separated 1 cu /\ apply_chunks L cu = R /\ patch_ok L R cu /\
        changes (flat_map edits cu) = flat_map edits (new_chunks es) /\
        Forall has_change cu /\
        (separated 1 cs -> cu = cs).
  Proof.
    intros L R es ops Hs.
    destruct (reach_run L R _ ops _ (reach_new L R es Hs)) as (cs & Hrun & Hr).
    destruct (reach_unify L R _ cs Hr) as (cu & Hu & Hru & Hsep & Hp & Hid).
    destruct (reach_props L R _ cu Hru) as (H1 & H2 & H3 & _).
    exists cs, cu. split; [exact Hrun|]. split.
    { rewrite run_ops_app, Hrun. cbn [bind run_ops run_op]. rewrite Hu. reflexivity. }
    repeat (split; try assumption). apply patch_ok_apply. exact Hp.
  Qed.

  (* every history followed by AddContext n: chunk i afterwards is chunk i before plus at most
     max(n,0) context lines before and after (one Emit edit each), nothing else changed *)
  Theorem history_add_correct : forall (L R : list T) (es : list edit) (ops : list hop) (n : Z),
      script_ok L R es ->
      exists cs ca,
        run_ops eqb L R (new_chunks es) ops = Ok cs /\
        run_ops eqb L R (new_chunks es) (ops ++ [HAdd n]) = Ok ca /\
        Forall2 (ctx_of (Z.max 0 n)) cs ca.
  Proof.
    intros L R es ops n Hs.
    destruct (reach_run L R _ ops _ (reach_new L R es Hs)) as (cs & Hrun & Hr).
    destruct (reach_add L R _ cs n Hr) as (ca & Ha & _ & Hctx).
    exists cs, ca. split; [exact Hrun|]. split; [|exact Hctx].
    rewrite run_ops_app, Hrun. cbn [bind run_ops run_op]. rewrite Ha. reflexivity.
  Qed.

  (* after New itself the chunks are already ascending, disjoint and not adjacent: Unify right
     after New is a no-op (the doc comment of Unify) *)
  Theorem unify_after_new_noop : forall (L R : list T) (es : list edit),
      script_ok L R es -> unify_chunks (new_chunks es) = Ok (new_chunks es).
  Proof.
    intros L R es Hs.
    destruct (reach_unify L R _ _ (reach_new L R es Hs)) as (cu & Hu & _ & _ & _ & Hid).
    rewrite Hu. f_equal. apply Hid. exact (proj1 (proj2 (new_correct T L R es Hs))).
  Qed.
End History.

(* ---- from the inputs alone: the Diff value through any history *)
Section HistoryComposed.
  Variable T : Type.
  Variable eqb : T -> T -> bool.
  Hypothesis eqb_eq : forall a b, eqb a b = true <-> a = b.

  Lemma diff_run_chunks : forall (d : diff T) ops,
      match run_ops eqb (Left d) (Right d) (Chunks d) ops with
      | Ok cs => diff_run eqb d ops = Ok (mkDiff (Left d) (Right d) cs (Edits d))
      | Panic k => diff_run eqb d ops = Panic k
      end.
  Proof.
    intros d ops. revert d. induction ops as [|o ops IH]; intros d; cbn [run_ops diff_run].
    - destruct d; reflexivity.
    - destruct o as [n|]; cbn [run_op diff_op]; unfold diff_add_context, diff_unify.
      + destruct (add_context eqb (Left d) (Right d) n (Chunks d)) as [cs1|k]; cbn [bind]; [|reflexivity].
        apply (IH (mkDiff (Left d) (Right d) cs1 (Edits d))).
      + destruct (unify_chunks (Chunks d)) as [cs1|k]; cbn [bind]; [|reflexivity].
        apply (IH (mkDiff (Left d) (Right d) cs1 (Edits d))).
  Qed.

  Theorem history_composed : forall (lhs rhs : list T) (ops : list hop),
      let d0 := mdiff_new T eqb lhs rhs in
      edit_script_run eqb lhs rhs = EOk (Edits d0) /\
      exists d,
        diff_run eqb d0 ops = Ok d /\
        Edits d = Edits d0 /\ Left d = lhs /\ Right d = rhs /\
        Forall (chunk_ok lhs rhs) (Chunks d) /\
        changes (flat_map edits (Chunks d)) = changes (Edits d0) /\
        Forall has_change (Chunks d) /\
        (separated 0 (Chunks d) -> patch_ok lhs rhs (Chunks d) /\ apply_chunks lhs (Chunks d) = rhs) /\
        ((ops = [] \/ exists ops', ops = ops' ++ [HUnify]) ->
         separated 1 (Chunks d) /\ patch_ok lhs rhs (Chunks d) /\ apply_chunks lhs (Chunks d) = rhs).
  Proof.
    intros lhs rhs ops d0.
    pose proof (edit_script_ok T eqb eqb_eq lhs rhs) as Hok.
    pose proof (edit_script_ne T eqb eqb_eq lhs rhs) as Hne.
    pose proof (refl T eqb eqb_eq) as Hrefl.
    split.
    { apply (edit_script_run_ok T eqb Hrefl (dec_sym T eqb eqb_eq) (dec_trans T eqb eqb_eq)). }
    destruct (new_correct T lhs rhs _ Hok) as (_ & Hsep0 & _ & _ & Hn5 & _).
    destruct (history_correct T eqb Hrefl lhs rhs _ ops Hok) as (cs & Hrun & H1 & H2 & H3 & H4).
    pose proof (diff_run_chunks d0 ops) as Hd. unfold d0, mdiff_new, new_diff in Hd. cbn [Left Right Chunks Edits] in Hd.
    rewrite Hrun in Hd.
    eexists. split; [exact Hd|]. cbn [Left Right Chunks Edits].
    split; [reflexivity|]. split; [reflexivity|]. split; [reflexivity|].
    split; [exact H1|]. split; [rewrite H2; apply Hn5; exact Hne|]. split; [exact H3|]. split; [exact H4|].
    intros [->|(ops' & ->)].
    - cbn [run_ops] in Hrun. injection Hrun as <-.
      assert (Hs0 : separated 0 (new_chunks (edit_script_func eqb lhs rhs))).
      { destruct (new_patch_ok T lhs rhs _ Hok) as [Hp _]. apply (patch_ok_separated T _ _ _ Hp). }
      destruct (H4 Hs0) as [Hp Ha]. repeat split; assumption.
    - destruct (history_unify_correct T eqb Hrefl lhs rhs _ ops' Hok) as (cs' & cu & _ & Hru & _ & Hs1 & Ha & Hp & _).
      rewrite Hrun in Hru. injection Hru as <-. repeat split; assumption.
  Qed.
End HistoryComposed.
