(* C13 for every history of AddContext / Unify calls, part 0: the description of the chunk lists a
   history can reach.

   As in MdiffProofsBase a diff is a list of segments (gap, core) plus the lines after the last
   chunk, but now every gap carries the context that the calls so far have taken from it:
     - LAYERS (a, b), one per effective AddContext call: a = the lines given to the chunk before
       the gap as post-context, b = the lines given to the chunk after it as pre-context (one Emit
       edit each); stored innermost (= latest) first;
     - the INNER part: [IFree m] = m still belongs to no chunk; [IOver u v w] = the latest call
       took u ++ v for the chunk before and v ++ w for the chunk after (the two contexts overlap in
       v): this is the state Unify repairs.
   AddContext adds a layer to every gap that still has free lines ([ac_gap]); Unify merges the
   segments around every gap without free lines, whose lines become Emit edits inside the merged
   core ([fuse_pieces], [un_aux]).  Cores may therefore contain Emit edits, but never at their
   ends ([ends_ok]). *)
From Coq Require Import ZArith List Bool Lia ZifyBool.
Import ListNotations.
From Mds Require Import Gen.MdiffIdx Mdiff.MdiffModel Mdiff.MdiffSpec Mdiff.MdiffProofsBase
     Mdiff.MdiffProofsCtx Mdiff.MdiffProofsUnify.
Local Open Scope Z_scope.

Section HistBase.
  Variable T : Type.
  Notation edit := (edit T).
  Notation chunk := (chunk T).

  Inductive inner := IFree (m : list T) | IOver (u v w : list T).
  Definition gapd : Type := (list (list T * list T) * inner)%type.
  Definition hseg : Type := (gapd * list edit)%type.

  Definition inner_flat (i : inner) : list T := match i with IFree m => m | IOver u v w => u ++ v ++ w end.
  Definition inner_post (i : inner) : list (list T) := match i with IFree _ => [] | IOver u v _ => [u ++ v] end.
  Definition inner_pre (i : inner) : list (list T) := match i with IFree _ => [] | IOver _ v w => [v ++ w] end.
  Definition inner_free (i : inner) : list T := match i with IFree m => m | IOver _ _ _ => [] end.

  (* the lines of the gap; the context pieces of the chunk before it (in edit order) and of the
     chunk after it (in edit order); the lines no chunk has taken *)
  Definition flat (G : gapd) : list T :=
    concat (rev (map fst (fst G))) ++ inner_flat (snd G) ++ concat (map snd (fst G)).
  Definition posts (G : gapd) : list (list T) := rev (map fst (fst G)) ++ inner_post (snd G).
  Definition pres (G : gapd) : list (list T) := inner_pre (snd G) ++ map snd (fst G).
  Definition free (G : gapd) : list T := inner_free (snd G).
  (* free lines (> 0), meeting contexts (0) or overlapping contexts (< 0) *)
  Definition slack (G : gapd) : Z := len (flat G) - len (concat (pres G)) - len (concat (posts G)).

  Definition pre_rest (G : gapd) : list T :=
    concat (rev (map fst (fst G))) ++ match snd G with IFree _ => [] | IOver u _ _ => u end.
  Definition post_rest (G : gapd) : list T :=
    match snd G with IFree _ => [] | IOver _ _ w => w end ++ concat (map snd (fst G)).

  Definition ctx_edits (ps : list (list T)) : list edit := flat_map (@emit_opt T) ps.

  Definition hchunk_at (lpos rpos : Z) (G : gapd) (E : list edit) (Gn : gapd) : chunk :=
    mkChunk (ctx_edits (pres G) ++ E ++ ctx_edits (posts Gn))
            (lpos + len (flat G) - len (concat (pres G)))
            (lpos + len (flat G) + len (edits_consume E) + len (concat (posts Gn)))
            (rpos + len (flat G) - len (concat (pres G)))
            (rpos + len (flat G) + len (edits_produce E) + len (concat (posts Gn))).

  Definition next_gapd (r : list hseg) (Gt : gapd) : gapd := match r with [] => Gt | (G, _) :: _ => G end.

  Fixpoint hchunks (lpos rpos : Z) (s : list hseg) (Gt : gapd) : list chunk :=
    match s with
    | [] => []
    | (G, E) :: r =>
      hchunk_at lpos rpos G E (next_gapd r Gt) ::
      hchunks (lpos + len (flat G) + len (edits_consume E)) (rpos + len (flat G) + len (edits_produce E)) r Gt
    end.

  Definition to_segs (s : list hseg) : list (seg T) := map (fun x => (flat (fst x), snd x)) s.
  Definition hleft (s : list hseg) : list T := segs_left (to_segs s).
  Definition hright (s : list hseg) : list T := segs_right (to_segs s).

  (* ---- the state after New *)
  Definition gap0 (g : list T) : gapd := ([], IFree g).
  Definition init_segs (segs : list (seg T)) : list hseg := map (fun x => (gap0 (fst x), snd x)) segs.

  (* ---- AddContext n on one gap.  PreOnly: the gap before the first chunk (only the chunk after
     it takes context); PostOnly: the lines after the last chunk; Both: a gap between two chunks *)
  Inductive side := PreOnly | Both | PostOnly.

  Definition over_u (n : Z) (m : list T) : list T := firstn (length m - ctx_k n m) m.
  Definition over_v (n : Z) (m : list T) : list T :=
    firstn (ctx_k n m - (length m - ctx_k n m)) (skipn (length m - ctx_k n m) m).
  Definition over_w (n : Z) (m : list T) : list T :=
    skipn (ctx_k n m - (length m - ctx_k n m)) (skipn (length m - ctx_k n m) m).
  Definition mid_of (n : Z) (m : list T) : list T := skipn (ctx_k n m) (firstn (length m - ctx_k n m) m).

  Definition ac_gap (sd : side) (n : Z) (G : gapd) : gapd :=
    match snd G with
    | IOver _ _ _ => G
    | IFree m =>
      if (ctx_k n m =? 0)%nat then G else
      match sd with
      | PreOnly => (([], ctx_pre n m) :: fst G, IFree (firstn (length m - ctx_k n m) m))
      | PostOnly => ((ctx_post n m, []) :: fst G, IFree (skipn (ctx_k n m) m))
      | Both =>
        if (2 * ctx_k n m <=? length m)%nat
        then ((ctx_post n m, ctx_pre n m) :: fst G, IFree (mid_of n m))
        else (fst G, IOver (over_u n m) (over_v n m) (over_w n m))
      end
    end.

  Definition ac_rest (n : Z) (r : list hseg) : list hseg := map (fun x => (ac_gap Both n (fst x), snd x)) r.
  Definition ac_segs (n : Z) (s : list hseg) : list hseg :=
    match s with [] => [] | (G, E) :: r => (ac_gap PreOnly n G, E) :: ac_rest n r end.
  Definition ac_last (n : Z) (s : list hseg) (Gt : gapd) : gapd :=
    match s with [] => Gt | _ => ac_gap PostOnly n Gt end.

  (* ---- Unify *)
  Definition touching (G : gapd) : bool := slack G <=? 0.

  (* the Emit edits a touching gap leaves inside the merged chunk *)
  Definition fuse_pieces (G : gapd) : list (list T) :=
    match snd G, fst G with
    | IFree _, (a, b) :: ly0 => rev (map fst ly0) ++ [a ++ b] ++ map snd ly0
    | IFree m, [] => [m]
    | IOver [] v w, (a, b) :: ly0 => rev (map fst ly0) ++ [a ++ v ++ w] ++ b :: map snd ly0
    | IOver u v w, ly => rev (map fst ly) ++ [u ++ v ++ w] ++ map snd ly
    end.

  Fixpoint un_aux (G : gapd) (E : list edit) (r : list hseg) : list hseg :=
    match r with
    | [] => [(G, E)]
    | (G', E') :: r' =>
      if touching G' then un_aux G (E ++ map (@emit_edit T) (fuse_pieces G') ++ E') r'
      else (G, E) :: un_aux G' E' r'
    end.
  Definition un_segs (s : list hseg) : list hseg := match s with [] => [] | (G, E) :: r => un_aux G E r end.

  (* ---- validity *)
  Definition layer_ok (ab : list T * list T) : Prop := fst ab <> [] /\ snd ab <> [].
  Definition ok_inner (G : gapd) : Prop :=
    Forall layer_ok (fst G) /\
    match snd G with IFree m => fst G = [] -> m <> [] | IOver _ v _ => v <> [] end.
  Definition ok_first (G : gapd) : Prop := concat (posts G) = [] /\ exists m, snd G = IFree m.
  Definition ok_last (G : gapd) : Prop := concat (pres G) = [] /\ exists m, snd G = IFree m.

  Definition hvalid (s : list hseg) (Gt : gapd) : Prop :=
    match s with
    | [] => True
    | (G0, _) :: r =>
      ok_first G0 /\ Forall (fun x => ok_inner (fst x)) r /\ ok_last Gt /\
      Forall (fun x => ends_ok T (snd x)) s
    end.

  (* ------------------------------------------------------------------ basic facts *)
  Definition opt (x : list T) : list (list T) := match x with [] => [] | _ => [x] end.

  Lemma ctx_edits_app : forall a b, ctx_edits (a ++ b) = ctx_edits a ++ ctx_edits b.
  Proof. intros. apply flat_map_app. Qed.
  Lemma ctx_edits_opt : forall x, ctx_edits (opt x) = emit_opt x.
  Proof. intros [|a x]; [reflexivity|]. cbn. reflexivity. Qed.
  Lemma concat_opt : forall x, concat (opt x) = x.
  Proof. intros [|a x]; [reflexivity|]. cbn. now rewrite app_nil_r. Qed.
  Lemma ctx_edits_map : forall ps, Forall (fun p => p <> []) ps -> ctx_edits ps = map (@emit_edit T) ps.
  Proof.
    induction ps as [|p ps IH]; intros H; [reflexivity|]. inversion H; subst.
    cbn [ctx_edits flat_map map]. rewrite (emit_opt_ne T p) by assumption. cbn [app]. f_equal. apply IH. assumption.
  Qed.
  Lemma consume_ctx_edits : forall ps, edits_consume (ctx_edits ps) = concat ps.
  Proof.
    induction ps as [|p ps IH]; [reflexivity|]. cbn [ctx_edits flat_map concat].
    rewrite consume_app, consume_emit_opt. f_equal. exact IH.
  Qed.
  Lemma produce_ctx_edits : forall ps, edits_produce (ctx_edits ps) = concat ps.
  Proof.
    induction ps as [|p ps IH]; [reflexivity|]. cbn [ctx_edits flat_map concat].
    rewrite produce_app, produce_emit_opt. f_equal. exact IH.
  Qed.
  Lemma changes_ctx_edits : forall ps, changes (ctx_edits ps) = [].
  Proof.
    induction ps as [|p ps IH]; [reflexivity|]. cbn [ctx_edits flat_map].
    rewrite changes_app, changes_emit_opt. exact IH.
  Qed.
  Lemma consume_map_emit : forall ps, edits_consume (map (@emit_edit T) ps) = concat ps.
  Proof. induction ps as [|p ps IH]; [reflexivity|]. cbn [map concat]. rewrite consume_emit_cons. f_equal. exact IH. Qed.
  Lemma produce_map_emit : forall ps, edits_produce (map (@emit_edit T) ps) = concat ps.
  Proof. induction ps as [|p ps IH]; [reflexivity|]. cbn [map concat]. rewrite produce_emit_cons. f_equal. exact IH. Qed.
  Lemma changes_map_emit : forall ps, changes (map (@emit_edit T) ps) = [].
  Proof. induction ps as [|p ps IH]; [reflexivity|]. cbn [map]. exact IH. Qed.

  (* the two ways to cut a gap *)
  Lemma flat_pre_split : forall G, flat G = pre_rest G ++ free G ++ concat (pres G).
  Proof.
    intros [ly [m|u v w]]; unfold flat, pre_rest, free, pres; cbn [fst snd inner_flat inner_free inner_pre].
    - rewrite app_nil_r. reflexivity.
    - cbn [app concat]. lapp.
  Qed.
  Lemma flat_post_split : forall G, flat G = concat (posts G) ++ free G ++ post_rest G.
  Proof.
    intros [ly [m|u v w]]; unfold flat, post_rest, free, posts; cbn [fst snd inner_flat inner_free inner_post].
    - rewrite app_nil_r. reflexivity.
    - rewrite concat_app. cbn [app concat]. lapp.
  Qed.

  Lemma slack_val : forall G, slack G = match snd G with IFree m => len m | IOver _ v _ => - len v end.
  Proof.
    intros [ly [m|u v w]]; unfold slack, flat, posts, pres; cbn [fst snd inner_flat inner_post inner_pre];
      rewrite ?concat_app; cbn [concat]; lens; lia.
  Qed.

  Lemma slack_k : forall n G, Z.to_nat (Z.min n (slack G)) = ctx_k n (free G).
  Proof.
    intros n [ly [m|u v w]]; rewrite slack_val; unfold free, ctx_k; cbn [snd inner_free]; [reflexivity|].
    pose proof (len_nonneg _ v). lens. lia.
  Qed.

  Lemma slack_pre : forall G, len (flat G) - len (concat (pres G)) = len (pre_rest G) + len (free G).
  Proof. intros G. rewrite (flat_pre_split G) at 1. lens. lia. Qed.
  Lemma slack_post : forall G, len (flat G) = len (concat (posts G)) + len (free G) + len (post_rest G).
  Proof. intros G. rewrite (flat_post_split G) at 1. lens. lia. Qed.

  (* ---- AddContext on a gap *)
  Lemma ctx_k_0_pre : forall n (m : list T), ctx_k n m = 0%nat -> ctx_pre n m = [].
  Proof. intros n m H. unfold ctx_pre. rewrite H, Nat.sub_0_r. apply skipn_all. Qed.
  Lemma ctx_k_0_post : forall n (m : list T), ctx_k n m = 0%nat -> ctx_post n m = [].
  Proof. intros n m H. unfold ctx_post. rewrite H. reflexivity. Qed.
  Lemma ctx_k_pos_pre : forall n (m : list T), ctx_k n m <> 0%nat -> ctx_pre n m <> [].
  Proof.
    intros n m H Hn. apply (f_equal (@length T)) in Hn. unfold ctx_pre in Hn. rewrite skipn_length in Hn.
    pose proof (ctx_k_le n m). cbn in Hn. lia.
  Qed.
  Lemma ctx_k_pos_post : forall n (m : list T), ctx_k n m <> 0%nat -> ctx_post n m <> [].
  Proof.
    intros n m H Hn. apply (f_equal (@length T)) in Hn. unfold ctx_post in Hn. rewrite firstn_length in Hn.
    pose proof (ctx_k_le n m). cbn in Hn. lia.
  Qed.
  Lemma opt_ne : forall x : list T, x <> [] -> opt x = [x].
  Proof. intros [|a x] H; [congruence|reflexivity]. Qed.

  Lemma over_split : forall n (m : list T), m = over_u n m ++ over_v n m ++ over_w n m.
  Proof. intros. unfold over_u, over_v, over_w. rewrite firstn_skipn. symmetry. apply firstn_skipn. Qed.
  Lemma over_pre : forall n (m : list T), over_v n m ++ over_w n m = ctx_pre n m.
  Proof. intros. unfold over_v, over_w, ctx_pre. apply firstn_skipn. Qed.
  Lemma over_post : forall n (m : list T), (length m < 2 * ctx_k n m)%nat -> over_u n m ++ over_v n m = ctx_post n m.
  Proof.
    intros n m H. pose proof (ctx_k_le n m) as Hk. unfold over_u, over_v, ctx_post.
    set (k := ctx_k n m) in *. set (a := (length m - k)%nat). set (b := (k - a)%nat).
    rewrite <- (firstn_skipn a m) at 3. rewrite <- (firstn_skipn b (skipn a m)) at 2.
    rewrite app_assoc. symmetry. apply firstn_app_exact.
    rewrite app_length, !firstn_length, skipn_length. lia.
  Qed.
  Lemma over_v_ne : forall n (m : list T), (length m < 2 * ctx_k n m)%nat -> over_v n m <> [].
  Proof.
    intros n m H Hn. apply (f_equal (@length T)) in Hn. unfold over_v in Hn.
    rewrite firstn_length, skipn_length in Hn. pose proof (ctx_k_le n m). cbn in Hn. lia.
  Qed.
  Lemma mid_split : forall n (m : list T), (2 * ctx_k n m <= length m)%nat ->
      m = ctx_post n m ++ mid_of n m ++ ctx_pre n m.
  Proof.
    intros n m H. unfold ctx_post, mid_of, ctx_pre. set (k := ctx_k n m) in *.
    rewrite app_assoc.
    replace (firstn k m) with (firstn k (firstn (length m - k) m)) by (rewrite firstn_firstn; f_equal; lia).
    rewrite firstn_skipn. symmetry. apply firstn_skipn.
  Qed.

  Lemma ac_gap_flat : forall sd n G, flat (ac_gap sd n G) = flat G.
  Proof.
    intros sd n [ly [m|u v w]]; unfold ac_gap; cbn [fst snd]; [|reflexivity].
    destruct (Nat.eqb_spec (ctx_k n m) 0) as [Hk|Hk]; [reflexivity|].
    destruct sd.
    - unfold flat. cbn [fst snd map inner_flat concat rev]. rewrite concat_app. cbn [concat app].
      rewrite <- !app_assoc. cbn [app]. f_equal. rewrite app_assoc. f_equal. symmetry. apply ctx_pre_split.
    - destruct (Nat.leb_spec (2 * ctx_k n m) (length m)) as [Hle|Hgt].
      + unfold flat. cbn [fst snd map inner_flat concat rev]. rewrite concat_app. cbn [concat app].
        rewrite <- !app_assoc. cbn [app]. f_equal. rewrite !app_assoc. f_equal. rewrite <- !app_assoc.
        symmetry. apply mid_split. assumption.
      + unfold flat. cbn [fst snd inner_flat]. rewrite <- over_split. reflexivity.
    - unfold flat. cbn [fst snd map inner_flat concat rev]. rewrite concat_app. cbn [concat app].
      rewrite <- !app_assoc. cbn [app]. f_equal. rewrite app_assoc. f_equal. symmetry. apply ctx_post_split.
  Qed.

  Lemma ac_gap_pres : forall sd n G, sd <> PostOnly ->
      pres (ac_gap sd n G) = opt (ctx_pre n (free G)) ++ pres G.
  Proof.
    intros sd n [ly [m|u v w]] Hsd; unfold ac_gap, free; cbn [fst snd inner_free].
    2:{ unfold ctx_pre. rewrite skipn_nil. reflexivity. }
    destruct (Nat.eqb_spec (ctx_k n m) 0) as [Hk|Hk].
    { rewrite ctx_k_0_pre by assumption. reflexivity. }
    rewrite (opt_ne _ (ctx_k_pos_pre n m Hk)).
    destruct sd; [reflexivity| |congruence].
    destruct (Nat.leb_spec (2 * ctx_k n m) (length m)) as [Hle|Hgt]; [reflexivity|].
    unfold pres. cbn [fst snd inner_pre]. rewrite over_pre. reflexivity.
  Qed.

  Lemma ac_gap_posts : forall sd n G, sd <> PreOnly ->
      posts (ac_gap sd n G) = posts G ++ opt (ctx_post n (free G)).
  Proof.
    intros sd n [ly [m|u v w]] Hsd; unfold ac_gap, free; cbn [fst snd inner_free].
    2:{ unfold ctx_post. rewrite firstn_nil. cbn [opt]. rewrite app_nil_r. reflexivity. }
    destruct (Nat.eqb_spec (ctx_k n m) 0) as [Hk|Hk].
    { rewrite ctx_k_0_post by assumption. cbn [opt]. rewrite app_nil_r. reflexivity. }
    rewrite (opt_ne _ (ctx_k_pos_post n m Hk)).
    destruct sd; [congruence| |].
    - destruct (Nat.leb_spec (2 * ctx_k n m) (length m)) as [Hle|Hgt].
      + unfold posts. cbn [fst snd inner_post map rev]. rewrite !app_nil_r. reflexivity.
      + unfold posts. cbn [fst snd inner_post]. rewrite over_post by assumption. rewrite app_nil_r. reflexivity.
    - unfold posts. cbn [fst snd inner_post map rev]. rewrite !app_nil_r. reflexivity.
  Qed.

  Lemma ac_gap_posts_first : forall n G, concat (posts (ac_gap PreOnly n G)) = concat (posts G).
  Proof.
    intros n [ly [m|u v w]]; unfold ac_gap; cbn [fst snd]; [|reflexivity].
    destruct (ctx_k n m =? 0)%nat; [reflexivity|].
    unfold posts. cbn [fst snd inner_post map rev]. rewrite !app_nil_r, concat_app. cbn. now rewrite app_nil_r.
  Qed.
  Lemma ac_gap_pres_last : forall n G, concat (pres (ac_gap PostOnly n G)) = concat (pres G).
  Proof.
    intros n [ly [m|u v w]]; unfold ac_gap; cbn [fst snd]; [|reflexivity].
    destruct (ctx_k n m =? 0)%nat; [reflexivity|]. reflexivity.
  Qed.

  (* n <= 0: nothing happens *)
  Lemma ac_gap_nonpos : forall sd n G, n <= 0 -> ac_gap sd n G = G.
  Proof.
    intros sd n [ly [m|u v w]] Hn; unfold ac_gap; cbn [fst snd]; [|reflexivity].
    replace (ctx_k n m) with 0%nat by (unfold ctx_k; pose proof (len_nonneg _ m); lia). reflexivity.
  Qed.

  (* ---- validity is kept by AddContext *)
  Lemma ac_gap_ok_inner : forall n G, ok_inner G -> ok_inner (ac_gap Both n G).
  Proof.
    intros n [ly [m|u v w]] [Hly Hin]; unfold ac_gap; cbn [fst snd] in *; [|split; assumption].
    destruct (Nat.eqb_spec (ctx_k n m) 0) as [Hk|Hk]; [split; assumption|].
    destruct (Nat.leb_spec (2 * ctx_k n m) (length m)) as [Hle|Hgt]; split; cbn [fst snd].
    - constructor; [|assumption]. split; cbn [fst snd]; [apply ctx_k_pos_post|apply ctx_k_pos_pre]; assumption.
    - discriminate.
    - assumption.
    - apply over_v_ne. assumption.
  Qed.
  Lemma ac_gap_ok_first : forall n G, ok_first G -> ok_first (ac_gap PreOnly n G).
  Proof.
    intros n G [H1 (m & H2)]. split; [rewrite ac_gap_posts_first; assumption|].
    destruct G as [ly i]. cbn [snd] in H2. subst i. unfold ac_gap. cbn [fst snd].
    destruct (ctx_k n m =? 0)%nat; cbn [snd]; eauto.
  Qed.
  Lemma ac_gap_ok_last : forall n G, ok_last G -> ok_last (ac_gap PostOnly n G).
  Proof.
    intros n G [H1 (m & H2)]. split; [rewrite ac_gap_pres_last; assumption|].
    destruct G as [ly i]. cbn [snd] in H2. subst i. unfold ac_gap. cbn [fst snd].
    destruct (ctx_k n m =? 0)%nat; cbn [snd]; eauto.
  Qed.

  Lemma hvalid_ac : forall n s Gt, hvalid s Gt -> hvalid (ac_segs n s) (ac_last n s Gt).
  Proof.
    intros n [|[G0 E0] r] Gt H; [exact I|]. destruct H as (H1 & H2 & H3 & H4).
    cbn [ac_segs ac_last hvalid]. split; [apply ac_gap_ok_first; assumption|].
    split; [|split; [apply ac_gap_ok_last; assumption|]].
    - unfold ac_rest. apply Forall_map. eapply Forall_impl; [|exact H2]. intros [G E] HG. cbn [fst]. apply ac_gap_ok_inner. exact HG.
    - inversion H4; subst. constructor; [assumption|]. unfold ac_rest. apply Forall_map.
      eapply Forall_impl; [|eassumption]. intros [G E] HE. exact HE.
  Qed.

  (* ---- the pieces of a valid inner gap are not empty *)
  Lemma ok_inner_posts_ne : forall G, ok_inner G -> Forall (fun p => p <> []) (posts G).
  Proof.
    intros [ly i] [Hly Hin]. cbn [fst snd] in *. unfold posts. cbn [fst snd]. apply Forall_app. split.
    - apply Forall_rev. apply Forall_map. eapply Forall_impl; [|exact Hly]. intros ab [H _]. exact H.
    - destruct i as [m|u v w]; cbn [inner_post]; [constructor|]. constructor; [|constructor].
      intros H. apply app_eq_nil in H. tauto.
  Qed.
  Lemma ok_inner_pres_ne : forall G, ok_inner G -> Forall (fun p => p <> []) (pres G).
  Proof.
    intros [ly i] [Hly Hin]. cbn [fst snd] in *. unfold pres. cbn [fst snd]. apply Forall_app. split.
    - destruct i as [m|u v w]; cbn [inner_pre]; [constructor|]. constructor; [|constructor].
      intros H. apply app_eq_nil in H. tauto.
    - apply Forall_map. eapply Forall_impl; [|exact Hly]. intros ab [_ H]. exact H.
  Qed.

  (* ---- what a touching gap leaves behind is the gap *)
  Lemma fuse_concat : forall G, ok_inner G -> touching G = true -> concat (fuse_pieces G) = flat G.
  Proof.
    intros [ly i] [Hly Hin] Ht. unfold touching in Ht. rewrite slack_val in Ht. cbn [fst snd] in *.
    unfold fuse_pieces, flat. cbn [fst snd].
    destruct i as [m|u v w]; cbn [inner_flat].
    - assert (m = []) by (apply len_zero; pose proof (len_nonneg _ m); lia). subst m.
      destruct ly as [|[a b] ly0]; [exfalso; apply Hin; reflexivity|].
      cbn [map fst snd rev]. rewrite !concat_app. cbn [concat]. lapp.
    - destruct u as [|x u]; [destruct ly as [|[a b] ly0]|]; cbn [map fst snd rev];
        rewrite ?concat_app; cbn [concat]; rewrite ?concat_app; cbn [concat]; lapp.
  Qed.

  (* ---- init *)
  Lemma hchunks_init : forall segs gt lpos rpos,
      hchunks lpos rpos (init_segs segs) (gap0 gt) = seg_chunks lpos rpos segs.
  Proof.
    induction segs as [|[g E] r IH]; intros; cbn [init_segs map hchunks seg_chunks]; [reflexivity|].
    cbn [fst snd]. fold (init_segs r).
    assert (Hf : forall x, flat (gap0 x) = x) by (intros; unfold flat, gap0; cbn; apply app_nil_r).
    rewrite Hf, IH. f_equal. unfold hchunk_at, chunk_at. rewrite Hf.
    assert (Hp : forall x, pres (gap0 x) = []) by reflexivity.
    assert (Hq : forall x, posts (gap0 x) = []) by reflexivity.
    rewrite Hp. replace (posts (next_gapd (init_segs r) (gap0 gt))) with (@nil (list T))
      by (destruct r as [|[g' E'] r']; reflexivity).
    cbn [ctx_edits flat_map concat app]. rewrite app_nil_r. f_equal; lens; lia.
  Qed.

  Lemma to_segs_init : forall segs, to_segs (init_segs segs) = segs.
  Proof.
    induction segs as [|[g E] r IH]; [reflexivity|]. cbn [init_segs map to_segs fst snd].
    fold (init_segs r). fold (to_segs (init_segs r)). rewrite IH. f_equal. f_equal.
    unfold flat, gap0. cbn. apply app_nil_r.
  Qed.

  Lemma hvalid_init : forall segs gt, segs_wf segs -> hvalid (init_segs segs) (gap0 gt).
  Proof.
    intros [|[g E] r] gt [Hc Hg]; [exact I|]. cbn [init_segs map hvalid fst snd tl] in *.
    split; [split; [reflexivity|eexists; reflexivity]|].
    split; [|split; [split; [reflexivity|eexists; reflexivity]|]].
    - apply Forall_map. eapply Forall_impl; [|exact Hg]. intros [g' E'] Hne. cbn [fst] in *.
      split; cbn [fst snd gap0]; [constructor|]. intros _. exact Hne.
    - change ((gap0 g, E) :: map (fun x => (gap0 (fst x), snd x)) r) with (init_segs ((g, E) :: r)).
      unfold init_segs. apply Forall_map. eapply Forall_impl; [|exact Hc]. intros [g' E'] HE. cbn [snd] in *.
      apply core_wf_ends. exact HE.
  Qed.

  Lemma to_segs_ac_rest : forall n r, to_segs (ac_rest n r) = to_segs r.
  Proof.
    induction r as [|[G E] r IH]; [reflexivity|]. cbn [ac_rest map to_segs fst snd].
    fold (ac_rest n r). fold (to_segs (ac_rest n r)). fold (to_segs r). rewrite IH, ac_gap_flat. reflexivity.
  Qed.
  Lemma to_segs_ac : forall n s, to_segs (ac_segs n s) = to_segs s.
  Proof.
    intros n [|[G E] r]; [reflexivity|]. cbn [ac_segs to_segs map fst snd].
    fold (to_segs (ac_rest n r)). fold (to_segs r). rewrite to_segs_ac_rest, ac_gap_flat. reflexivity.
  Qed.
  Lemma flat_ac_last : forall n s Gt, flat (ac_last n s Gt) = flat Gt.
  Proof. intros n [|x s] Gt; [reflexivity|]. apply ac_gap_flat. Qed.
End HistBase.

Arguments IFree {T} m.
Arguments IOver {T} u v w.
Arguments flat {T} G.
Arguments posts {T} G.
Arguments pres {T} G.
Arguments free {T} G.
Arguments slack {T} G.
Arguments pre_rest {T} G.
Arguments post_rest {T} G.
Arguments ctx_edits {T} ps.
Arguments hchunk_at {T} lpos rpos G E Gn.
Arguments next_gapd {T} r Gt.
Arguments hchunks {T} lpos rpos s Gt.
Arguments to_segs {T} s.
Arguments hleft {T} s.
Arguments hright {T} s.
Arguments gap0 {T} g.
Arguments init_segs {T} segs.
Arguments ac_gap {T} sd n G.
Arguments ac_rest {T} n r.
Arguments ac_segs {T} n s.
Arguments ac_last {T} n s Gt.
Arguments touching {T} G.
Arguments fuse_pieces {T} G.
Arguments un_aux {T} G E r.
Arguments un_segs {T} s.
Arguments ok_inner {T} G.
Arguments ok_first {T} G.
Arguments ok_last {T} G.
Arguments hvalid {T} s Gt.
Arguments opt {T} x.
