(* Basic lemmas of the C14 slice: text <-> lines, the string functions, numerals and range
   spellings (dspan) with the normal reader's range parser. *)
From Coq Require Import NArith ZArith List Bool Lia.
Import ListNotations.
From Mds Require Import Mdiff.ReaderModel Mdiff.FormatSpec.
From Mds Require Import Gen.MdiffSpan Gen.MdiffReadSpan.
Local Open Scope Z_scope.

(* ---------------------------------------------------------------- lines *)
Lemma split_lines_line_app l t :
  newline_free l -> split_lines (l ++ 10%N :: t) = l :: split_lines t.
Proof.
  induction l as [|c l IH]; intros Hnf; cbn [app split_lines].
  - reflexivity.
  - destruct (N.eqb c 10) eqn:E.
    + apply N.eqb_eq in E. subst c. exfalso. apply Hnf. left. reflexivity.
    + rewrite IH; [reflexivity|]. intros Hin. apply Hnf. right. exact Hin.
Qed.

Lemma split_join_lines ls : Forall newline_free ls -> split_lines (join_lines ls) = ls.
Proof.
  induction 1 as [|l ls Hl _ IH]; [reflexivity|].
  unfold join_lines in *. cbn [flat_map]. rewrite <- app_assoc. cbn [app].
  rewrite split_lines_line_app by exact Hl. rewrite IH. reflexivity.
Qed.

Lemma join_lines_app a b : join_lines (a ++ b) = join_lines a ++ join_lines b.
Proof. unfold join_lines. apply flat_map_app. Qed.

(* ---------------------------------------------------------------- strings *)
Lemma bytes_eqb_refl a : bytes_eqb a a = true.
Proof. induction a as [|x a IH]; cbn; [reflexivity|]. rewrite N.eqb_refl, IH. reflexivity. Qed.

Lemma bytes_eqb_eq a : forall b, bytes_eqb a b = true -> a = b.
Proof.
  induction a as [|x a IH]; intros [|y b] H; cbn in H; try discriminate; [reflexivity|].
  apply andb_true_iff in H. destruct H as [H1 H2]. apply N.eqb_eq in H1. subst y.
  f_equal. apply IH. exact H2.
Qed.

Lemma bytes_eqb_neq a b : a <> b -> bytes_eqb a b = false.
Proof.
  intros H. destruct (bytes_eqb a b) eqn:E; [|reflexivity].
  exfalso. apply H. apply bytes_eqb_eq. exact E.
Qed.

Lemma cut_prefix_app p s : cut_prefix p (p ++ s) = Some s.
Proof. induction p as [|c p IH]; cbn; [reflexivity|]. rewrite N.eqb_refl. exact IH. Qed.

Lemma cut_prefix_head_neq p c s b : N.eqb p b = false -> cut_prefix (p :: c) (b :: s) = None.
Proof. intros H. cbn. rewrite H. reflexivity. Qed.

Lemma cut_byte_first c a b : ~ In c a -> cut_byte c (a ++ c :: b) = Some (a, b).
Proof.
  induction a as [|x a IH]; intros H; cbn [app cut_byte].
  - rewrite N.eqb_refl. reflexivity.
  - destruct (N.eqb x c) eqn:E.
    + apply N.eqb_eq in E. subst x. exfalso. apply H. left. reflexivity.
    + rewrite IH; [reflexivity|]. intros Hin. apply H. right. exact Hin.
Qed.

Lemma cut_byte_none c s : ~ In c s -> cut_byte c s = None.
Proof.
  induction s as [|x s IH]; intros H; cbn [cut_byte]; [reflexivity|].
  destruct (N.eqb x c) eqn:E.
  - apply N.eqb_eq in E. subst x. exfalso. apply H. left. reflexivity.
  - rewrite IH; [reflexivity|]. intros Hin. apply H. right. exact Hin.
Qed.

(* ---------------------------------------------------------------- numerals and spans *)
(* bytes of a range spelling: digits, minus sign, comma *)
Definition span_byte (b : N) : bool := numeral_byte b || N.eqb b 44.
Definition span_bytes (s : bytes) : Prop := Forall (fun b => span_byte b = true) s.

Lemma itoa_span n : span_bytes (itoa n).
Proof.
  eapply Forall_impl; [|apply itoa_numeral]. intros b H. unfold span_byte. rewrite H. reflexivity.
Qed.

Lemma span_bytes_app a b : span_bytes a -> span_bytes b -> span_bytes (a ++ b).
Proof. intros. apply Forall_app. split; assumption. Qed.

Lemma span_bytes_notin c s : span_bytes s -> span_byte c = false -> ~ In c s.
Proof.
  intros Hs Hc Hin. unfold span_bytes in Hs. rewrite Forall_forall in Hs.
  specialize (Hs c Hin). congruence.
Qed.

Lemma numeral_notin c n : numeral_byte c = false -> ~ In c (itoa n).
Proof.
  intros Hc Hin. pose proof (itoa_numeral n) as H. rewrite Forall_forall in H.
  specialize (H c Hin). congruence.
Qed.

Lemma dspan_span s e : span_bytes (dspan s e).
Proof.
  unfold dspan. destruct (dspan_bare s e); [apply itoa_span|].
  apply span_bytes_app; [apply itoa_span|]. apply span_bytes_app; [|apply itoa_span].
  constructor; [reflexivity|constructor].
Qed.

Lemma dspan_nonempty s e : dspan s e <> [].
Proof.
  unfold dspan. destruct (dspan_bare s e); [apply itoa_nonempty|].
  intros H. apply app_eq_nil in H. destruct H as [H _]. exact (itoa_nonempty _ H).
Qed.

(* numbers an int holds with room to spare: [fits] (Decimal.v) is |z| <= 2^61 *)
Ltac fits64 := apply fits_int64; unfold fits in *; lia.
(* Go's int arithmetic is exact on numbers that fit *)
Ltac unwrap := repeat match goal with |- context [wrap64 ?z] => rewrite (wrap64_id z) by fits64 end.

(* parseSpan("", spelling) *)
Lemma parse_span_itoa d n : in_int64 n = true -> parse_span d [] (itoa n) = Some (n, d).
Proof.
  intros Hn. unfold parse_span. cbn [cut_prefix].
  rewrite cut_byte_none by (apply numeral_notin; reflexivity).
  rewrite itoa_atoi64 by exact Hn. reflexivity.
Qed.

Lemma parse_span_pair d tag a b :
  in_int64 a = true -> in_int64 b = true ->
  parse_span d tag (tag ++ itoa a ++ [44%N] ++ itoa b) = Some (a, b).
Proof.
  intros Ha Hb. unfold parse_span. rewrite cut_prefix_app. cbn [app].
  rewrite cut_byte_first by (apply numeral_notin; reflexivity).
  rewrite !itoa_atoi64 by assumption. reflexivity.
Qed.

Lemma parse_span_single d tag a : in_int64 a = true -> parse_span d tag (tag ++ itoa a) = Some (a, d).
Proof.
  intros Ha. unfold parse_span. rewrite cut_prefix_app.
  rewrite cut_byte_none by (apply numeral_notin; reflexivity).
  rewrite itoa_atoi64 by exact Ha. reflexivity.
Qed.

Lemma parse_span_dspan d s e :
  fits s -> fits e ->
  parse_span d [] (dspan s e) = if e - s =? 1 then Some (s, d) else Some (s, e - 1).
Proof.
  intros Hs He. unfold dspan, dspan_bare, dspan_single, dspan_lo, dspan_hi.
  destruct (e - s =? 1); [apply parse_span_itoa; fits64|].
  apply (parse_span_pair d [] s (e - 1)); fits64.
Qed.

(* one range of a change command read back *)
Lemma read_normal_range_dspan s e :
  fits s -> fits e ->
  e - s = 1 \/ e <> 1 -> read_normal_range (dspan s e) = Some (s, e).
Proof.
  intros Hs He H. unfold read_normal_range. rewrite parse_span_dspan by assumption.
  unfold parse_span_omitted_hi, read_normal_lhi_is_omitted, read_normal_lhi_default, read_normal_lhi_end.
  destruct (e - s =? 1) eqn:E.
  - apply Z.eqb_eq in E. cbn [Z.eqb]. rewrite wrap64_id by fits64. f_equal. f_equal. lia.
  - apply Z.eqb_neq in E. destruct (e - 1 =? 0) eqn:E0.
    + apply Z.eqb_eq in E0. lia.
    + rewrite wrap64_id by fits64. f_equal. f_equal. lia.
Qed.

Lemma read_normal_range_r_dspan s e :
  fits s -> fits e ->
  e - s = 1 \/ e <> 1 -> read_normal_range_r (dspan s e) = Some (s, e).
Proof.
  intros Hs He H. unfold read_normal_range_r. rewrite parse_span_dspan by assumption.
  unfold parse_span_omitted_hi, read_normal_rhi_is_omitted, read_normal_rhi_default, read_normal_rhi_end.
  destruct (e - s =? 1) eqn:E.
  - apply Z.eqb_eq in E. cbn [Z.eqb]. rewrite wrap64_id by fits64. f_equal. f_equal. lia.
  - apply Z.eqb_neq in E. destruct (e - 1 =? 0) eqn:E0.
    + apply Z.eqb_eq in E0. lia.
    + rewrite wrap64_id by fits64. f_equal. f_equal. lia.
Qed.

Lemma read_normal_range_itoa t : fits t -> read_normal_range (itoa t) = Some (t, t + 1).
Proof.
  intros Ht. unfold read_normal_range. rewrite parse_span_itoa by fits64.
  unfold parse_span_omitted_hi, read_normal_lhi_is_omitted, read_normal_lhi_default, read_normal_lhi_end.
  cbn [Z.eqb]. rewrite wrap64_id by fits64. reflexivity.
Qed.

Lemma read_normal_range_r_itoa t : fits t -> read_normal_range_r (itoa t) = Some (t, t + 1).
Proof.
  intros Ht. unfold read_normal_range_r. rewrite parse_span_itoa by fits64.
  unfold parse_span_omitted_hi, read_normal_rhi_is_omitted, read_normal_rhi_default, read_normal_rhi_end.
  cbn [Z.eqb]. rewrite wrap64_id by fits64. reflexivity.
Qed.

(* ---------------------------------------------------------------- change command lines *)
Definition cmd_byte (c : N) : Prop := c = 97%N \/ c = 99%N \/ c = 100%N.

Lemma cmd_byte_not_span c : cmd_byte c -> span_byte c = false.
Proof. intros [->|[->| ->]]; reflexivity. Qed.

(* a line that ends the data of a change command *)
Definition stops_edit (l : line) : Prop :=
  cut_prefix s_lt l = None /\ cut_prefix s_gt l = None /\ bytes_eqb l s_sep = false.

Definition head_stops (ls : list line) : Prop :=
  match ls with [] => True | l :: _ => stops_edit l end.

Lemma cmd_line_stops a c b : span_bytes a -> cmd_byte c -> stops_edit (a ++ c :: b).
Proof.
  intros Ha Hc. unfold stops_edit. split; [|split].
  - destruct a as [|x a]; cbn [app].
    + apply cut_prefix_head_neq. destruct Hc as [->|[->| ->]]; reflexivity.
    + inversion Ha as [|? ? Hx _]; subst. apply cut_prefix_head_neq.
      destruct (N.eqb 60 x) eqn:E; [|reflexivity]. apply N.eqb_eq in E. subst x. discriminate Hx.
  - destruct a as [|x a]; cbn [app].
    + apply cut_prefix_head_neq. destruct Hc as [->|[->| ->]]; reflexivity.
    + inversion Ha as [|? ? Hx _]; subst. apply cut_prefix_head_neq.
      destruct (N.eqb 62 x) eqn:E; [|reflexivity]. apply N.eqb_eq in E. subst x. discriminate Hx.
  - apply bytes_eqb_neq. intros H.
    assert (Hin : In c s_sep) by (rewrite <- H; apply in_or_app; right; left; reflexivity).
    unfold s_sep in Hin. cbn in Hin.
    destruct Hc as [->|[->| ->]]; repeat (destruct Hin as [Hin|Hin]; [discriminate Hin|]); exact Hin.
Qed.

Lemma split_cmd_a a b : span_bytes a -> split_cmd (a ++ 97%N :: b) = Some (a, CmdA, b).
Proof.
  intros Ha. unfold split_cmd.
  rewrite cut_byte_first by (apply span_bytes_notin; [exact Ha|reflexivity]). reflexivity.
Qed.

Lemma split_cmd_c a b : span_bytes a -> span_bytes b -> split_cmd (a ++ 99%N :: b) = Some (a, CmdC, b).
Proof.
  intros Ha Hb. unfold split_cmd.
  rewrite cut_byte_none.
  - rewrite cut_byte_first by (apply span_bytes_notin; [exact Ha|reflexivity]). reflexivity.
  - intros Hin. apply in_app_or in Hin. destruct Hin as [Hin|[Hin|Hin]].
    + revert Hin. apply span_bytes_notin; [exact Ha|reflexivity].
    + discriminate Hin.
    + revert Hin. apply span_bytes_notin; [exact Hb|reflexivity].
Qed.

Lemma split_cmd_d a b : span_bytes a -> span_bytes b -> split_cmd (a ++ 100%N :: b) = Some (a, CmdD, b).
Proof.
  intros Ha Hb. unfold split_cmd.
  assert (Hn : forall c, span_byte c = false -> c <> 100%N -> ~ In c (a ++ 100%N :: b)).
  { intros c Hc Hne Hin. apply in_app_or in Hin. destruct Hin as [Hin|[Hin|Hin]].
    - revert Hin. apply span_bytes_notin; assumption.
    - apply Hne. symmetry. exact Hin.
    - revert Hin. apply span_bytes_notin; assumption. }
  rewrite cut_byte_none by (apply Hn; [reflexivity|discriminate]).
  rewrite cut_byte_none by (apply Hn; [reflexivity|discriminate]).
  rewrite cut_byte_first by (apply span_bytes_notin; [exact Ha|reflexivity]). reflexivity.
Qed.

(* ---------------------------------------------------------------- what an edit list consumes / produces *)
Lemma consumed_cons (e : edit line) es :
  consumed (e :: es) = match eop e with Copy => [] | _ => X e end ++ consumed es.
Proof. reflexivity. Qed.
Lemma produced_cons (e : edit line) es :
  produced (e :: es) = match eop e with Drop => [] | Emit => X e | _ => Y e end ++ produced es.
Proof. reflexivity. Qed.

(* ---------------------------------------------------------------- lengths *)
Lemma llen_app {A} (a b : list A) : llen (a ++ b) = llen a + llen b.
Proof. unfold llen. rewrite app_length. lia. Qed.
Lemma llen_nonneg {A} (a : list A) : 0 <= llen a.
Proof. unfold llen. lia. Qed.
Lemma llen_pos {A} (a : list A) : a <> [] -> 1 <= llen a.
Proof. destruct a; [congruence|]. unfold llen. cbn [length]. lia. Qed.
Lemma llen_nil {A} : llen (@nil A) = 0.
Proof. reflexivity. Qed.
Lemma llen_map {A B} (f : A -> B) l : llen (map f l) = llen l.
Proof. unfold llen. rewrite map_length. reflexivity. Qed.
