(* The control skeleton of mdiff/format.go and mdiff/reader.go that FormatModel.v and ReaderModel.v
   transcribe by hand, pinned against the Go source.  Gen/MdiffFmtSkel.v and Gen/MdiffReadSkel.v
   (regenerated on every run) carry, for every function of the two files, its statement skeleton
   as one number (a hex digit per statement: 1 if, 2 for, 3 range, 4 return, 5 assignment,
   6 expression statement, 7 break/continue, 8 ++/--, 9 declaration, a switch, b case, d else,
   e/f braces), the labels of every switch in source order, the marker and the side (e.X / e.Y)
   of every writeLines call, the conditions of the readers' loops and guards, and the number and
   order of the calls the model depends on.  String literals appear as a selector among the
   literals the function uses (the translator prints numbers only), operators as a selector among
   slice.OpDrop/OpEmit/OpCopy/OpReplace.

   The models keep their literal transcription (selectors such as case:#k are positional: an
   inserted case shifts them, and a model that followed them would turn a harmless insertion into
   spurious disagreements with the implementation); what is proved here is that the transcription
   IS what the regenerated values say: value by value ([formatters_as_modelled],
   [readers_as_modelled]) and, for the readers' two switches, as functions
   ([switches_as_generated]: read_uchunk_body and split_cmd equal the switches built from the
   regenerated labels, operators and letters).  An added guard inside a case, an early return, a
   dropped, added or reordered statement, a changed label, marker, side or condition makes one of
   these equations false (or loses the anchor), and the build of Props/C14.vo stops here. *)
From Coq Require Import NArith ZArith List Bool Lia.
Import ListNotations.
From Mds Require Import Gen.MdiffFmtSkel Gen.MdiffReadSkel Mdiff.ReaderModel.
Local Open Scope Z_scope.

Definition skeleton_of_source : list Z :=
  [shape_Unified;
   shape_fmtFileHeader;
   shape_Context;
   shape_Normal;
   shape_dspan;
   shape_uspan;
   shape_writeLines;
   shape_hasRelevantEdits;
   shape_ReadGitPatch;
   shape_ReadUnified;
   shape_Read;
   shape_readline;
   shape_unread;
   shape_parseFileLine;
   shape_parseSpan;
   shape_readUnified;
   shape_readUnifiedHeader;
   shape_readUnifiedChunk;
   shape_readNormal;
   shape_readNormalEdit;
   shape_scanToPrefix;
   shape_Patch_Format].

(* the skeletons the models were transcribed from *)
Definition skeleton_of_model : list Z :=
  [80601785363396942348269986255411561024171540303;
   3860754287;
   1559065270925553173447291840127075226251812022535650561452550589140434767;
   81315827253213723341656163761461118798466645839;
   236867407;
   236867407;
   14935807;
   978747457359;
   23433550790834069032092724254146003978754775775309122754641919;
   61494677327;
   61494677327;
   1118581958766424146498585688143;
   3679;
   1031856346734001999;
   4431794353799115640676437839;
   1064272158176420736946175;
   4872809582086485540571923735511473018191;
   1738676500361062655351989615040640261400783831811899080097235243214317362131656242511;
   8940117950507991407455173666216367376155193045301633757280865814746705986350068439143683753625686898770396565106652671;
   23458664946914072715049656943727579646570067552949700299063119;
   1021844209212477439;
   3663].

(* a generated selector picks the k-th of the literals / operators it was offered *)
Definition picks2 (k : nat) (f : Z -> Z -> Z) : Prop := forall a b, f a b = nth k [a; b] 0.
Definition picks3 (k : nat) (f : Z -> Z -> Z -> Z) : Prop := forall a b c, f a b c = nth k [a; b; c] 0.
Definition picks4 (k : nat) (f : Z -> Z -> Z -> Z -> Z) : Prop := forall a b c d, f a b c d = nth k [a; b; c; d] 0.
(* operators are offered in the order Drop, Emit, Copy, Replace; sides as e.X, e.Y *)
Notation oDrop := 0%nat (only parsing).  Notation oEmit := 1%nat (only parsing).
Notation oCopy := 2%nat (only parsing).  Notation oRepl := 3%nat (only parsing).
Notation sideX := 0%nat (only parsing).  Notation sideY := 1%nat (only parsing).

Definition formatters_as_modelled : Prop :=
  (* Unified (uedit_lines): switch e.Op { Drop: "-" e.X | Emit: " " e.X | Copy: "+" e.Y |
     Replace: "-" e.X then "+" e.Y }; markers offered as "-", " ", "+" *)
  picks4 oDrop unified_case0 /\ picks3 0 unified_w0_pfx /\ picks2 sideX unified_w0_side /\
  picks4 oEmit unified_case1 /\ picks3 1 unified_w1_pfx /\ picks2 sideX unified_w1_side /\
  picks4 oCopy unified_case2 /\ picks3 2 unified_w2_pfx /\ picks2 sideY unified_w2_side /\
  picks4 oRepl unified_case3 /\ picks3 0 unified_w3_pfx /\ picks2 sideX unified_w3_side /\
                                picks3 2 unified_w4_pfx /\ picks2 sideY unified_w4_side /\
  (* unified_lines: nothing for an empty chunk list; "--- " then "+++ " only with a FileInfo *)
  (forall n, unified_empty n = (n =? 0)) /\ (forall has, unified_has_fi has = has) /\
  picks2 0 unified_hdr0 /\ picks2 1 unified_hdr1 /\
  (* Context (cedit_old / cedit_new): old section { Drop: "- " e.X | Emit: "  " e.X |
     Replace: "! " e.X }, relevant for Drop; new section { Copy: "+ " e.Y | Emit: "  " e.X |
     Replace: "! " e.Y }, relevant for Copy; markers offered as "- ", "  ", "+ ", "! " *)
  picks4 oDrop context_case0 /\ picks4 0 context_w0_pfx /\ picks2 sideX context_w0_side /\
  picks4 oEmit context_case1 /\ picks4 1 context_w1_pfx /\ picks2 sideX context_w1_side /\
  picks4 oRepl context_case2 /\ picks4 3 context_w2_pfx /\ picks2 sideX context_w2_side /\
  picks4 oCopy context_case3 /\ picks4 2 context_w3_pfx /\ picks2 sideY context_w3_side /\
  picks4 oEmit context_case4 /\ picks4 1 context_w4_pfx /\ picks2 sideX context_w4_side /\
  picks4 oRepl context_case5 /\ picks4 3 context_w5_pfx /\ picks2 sideY context_w5_side /\
  picks4 oDrop context_rel0 /\ picks4 oCopy context_rel1 /\
  (forall n, context_empty n = (n =? 0)) /\ picks2 0 context_hdr0 /\ picks2 1 context_hdr1 /\
  (* Normal (normal_edits): switch e.Op { Drop: "< " e.X | Emit: - | Copy: "> " e.Y |
     Replace: "< " e.X, "---", "> " e.Y }; markers offered as "< ", "> " *)
  picks4 oDrop normal_case0 /\ picks4 oEmit normal_case1 /\ picks4 oCopy normal_case2 /\ picks4 oRepl normal_case3 /\
  picks2 0 normal_w0_pfx /\ picks2 sideX normal_w0_side /\
  picks2 1 normal_w1_pfx /\ picks2 sideY normal_w1_side /\
  picks2 0 normal_w2_pfx /\ picks2 sideX normal_w2_side /\
  picks2 1 normal_w3_pfx /\ picks2 sideY normal_w3_side /\
  (* writeLines (write_lines): one fmt.Fprint(w, pfx, line, "\n") per line *)
  picks3 0 writelines_arg1 /\ picks3 1 writelines_arg2 /\ picks3 2 writelines_arg3 /\ writelines_ncalls = 1 /\
  (* hasRelevantEdits (has_relevant_edits), fmtFileHeader (file_header) *)
  (forall same isrepl, relevant_cond same isrepl = same || isrepl) /\
  (forall zero, header_has_time zero = negb zero).

Definition readers_as_modelled : Prop :=
  (* readUnifiedChunk, closure add (add_text, new_edit, extend_edit): Drop (and Emit) append to
     e.X, Copy to e.Y; a new edit when there is none yet or the last has another operator *)
  picks4 oDrop ru_add_case0 /\ picks4 oCopy ru_add_case1 /\
  (forall n differs, ru_add_new n differs = (n =? 0) || differs) /\
  (* the body-line switch (read_uchunk_body uses these): ' ' -> Emit, '-' -> Drop, '+' -> Copy,
     '@' ends the chunk; the text is line[1:] *)
  ru_case_ctx = 32 /\ ru_case_del = 45 /\ ru_case_ins = 43 /\ ru_case_next = 64 /\
  picks4 oEmit ru_op_ctx /\ picks4 oDrop ru_op_del /\ picks4 oCopy ru_op_ins /\
  ru_text_ctx = 1 /\ ru_text_del = 1 /\ ru_text_ins = 1 /\
  (* the body loop: for { EOF -> break | error -> return | "" -> blank-line error | switch } *)
  ru_loop_isfor = true /\ ru_loop_cond = true /\
  (forall eof, ru_body_eof eof = eof) /\ (forall failed, ru_body_err failed = failed) /\
  (forall blank, ru_body_blank blank = blank) /\
  ru_ncalls_add = 3 /\ ru_ncalls_unread = 2 /\ ru_ncalls_readline = 2 /\ ru_ncalls_parseSpan = 2 /\
  ru_ord_unread_next < ru_ord_unread_other /\
  (* readNormal (read_normal_loop, split_cmd use these): the loop, the three Cut attempts
     "a", "c", "d" with the command each records, switch cmd { "a": Copy | "c": Replace |
     "d": Drop }, the two cross-checks of the line counts *)
  rn_loop_isfor = true /\ rn_loop_cond = true /\
  (forall eof, rn_eof eof = eof) /\ (forall failed, rn_err failed = failed) /\ (forall blank, rn_blank blank = blank) /\
  picks3 0 rn_cut0 /\ picks3 1 rn_cut1 /\ picks3 2 rn_cut2 /\
  picks3 0 rn_cmd0 /\ picks3 1 rn_cmd1 /\ picks3 2 rn_cmd2 /\
  picks3 0 rn_case0 /\ picks3 1 rn_case1 /\ picks3 2 rn_case2 /\
  picks4 oCopy rn_op0 /\ picks4 oRepl rn_op1 /\ picks4 oDrop rn_op2 /\
  (forall got n isa isc isd, rn_add_mismatch got n isa isc isd = negb (got =? n) && (isa || isc)) /\
  (forall got n isa isc isd, rn_del_mismatch got n isa isc isd = negb (got =? n) && (isc || isd)) /\
  rn_ncalls_parseSpan = 2 /\ rn_ncalls_edit = 1 /\ rn_ord_edit < rn_ord_llo_adjust /\
  (* readNormalEdit (read_normal_edit): "< " then "> " then "---"; the three refusals, in the
     model's own terms *)
  picks3 0 rne_pfx0 /\ picks3 1 rne_pfx1 /\ (forall is_sep, rne_is_sep is_sep = is_sep) /\
  (forall below (ys : list line), rne_del_guard below (llen ys) = below || negb (is_nil ys)) /\
  (forall below (xs : list line), rne_ins_guard below (llen xs) = negb (is_nil xs) && negb below) /\
  (forall below, rne_sep_guard below = below) /\
  (* readUnifiedHeader (read_uheader): "--- " then "+++ "; end of input before the first line is
     not an error; two readline calls, one unread *)
  picks3 0 ruh_pfx0 /\ picks3 1 ruh_pfx1 /\ (forall eof, ruh_eof eof = eof) /\
  ruh_ncalls_readline = 2 /\ ruh_ncalls_unread = 1 /\
  (* ReadGitPatch (read_git_loop, read_git_chunks): scan for "diff " then "--- "; "no patches" when
     nothing was read; a patch ends at end of input or at an unexpected prefix *)
  picks3 2 rg_scan0 /\ picks3 0 rg_scan1 /\
  (forall out : list (list line), rg_none_found (llen out) = is_nil out) /\
  (forall eof unexpected, rg_chunk_done eof unexpected = eof || unexpected) /\
  rg_ncalls_chunk = 1 /\ rg_ncalls_header = 1 /\
  (* readline (split_lines): the saved line first; read up to '\n' and remove exactly that; at end
     of input a non-empty rest is still a line *)
  readline_delim = 10 /\ picks2 0 readline_trim_what /\ picks2 1 readline_trim_suffix /\
  (forall b, readline_saved b = b) /\ (forall b, readline_eof b = b) /\ (forall b, readline_empty_rest b = b) /\
  (* readUnified (read_uchunks), scanToPrefix (scan_to_prefix) *)
  (forall eof, rus_eof eof = eof) /\ (forall failed, rus_err failed = failed) /\
  (forall prefix, stp_found prefix = prefix).

(* Operators travel as the codes 0..3 (the order in which they are offered to the selectors),
   string literals of one letter as the byte code of the letter. *)
Definition op_of_code (z : Z) : op :=
  if z =? 0 then Drop else if z =? 1 then Emit else if z =? 2 then Copy else Replace.
Definition gen_op (f : Z -> Z -> Z -> Z -> Z) : op := op_of_code (f 0 1 2 3).
Definition cmd_of_code (z : Z) : ncmd := if z =? 97 then CmdA else if z =? 99 then CmdC else CmdD.
Definition gen_letter (f : Z -> Z -> Z -> Z) : Z := f 97 99 100.
Definition is_cmd (a b : ncmd) : bool :=
  match a, b with CmdA, CmdA | CmdC, CmdC | CmdD, CmdD => true | _, _ => false end.

(* The model's switches, as functions, are the ones the regenerated labels, operators and letters
   build. *)
Definition switches_as_generated : Prop :=
  (* readUnifiedChunk: switch line[0] { label: add(op, line[1:]) ... '@': stop; default: unexpected } *)
  (forall c t rest es,
    read_uchunk_body ((c :: t) :: rest) es =
      if N.eqb c (Z.to_N ru_case_ctx) then read_uchunk_body rest (add_text (gen_op ru_op_ctx) t es)
      else if N.eqb c (Z.to_N ru_case_del) then read_uchunk_body rest (add_text (gen_op ru_op_del) t es)
      else if N.eqb c (Z.to_N ru_case_ins) then read_uchunk_body rest (add_text (gen_op ru_op_ins) t es)
      else if N.eqb c (Z.to_N ru_case_next) then (BodyNext, es, (c :: t) :: rest)
      else (BodyUnexpected, es, (c :: t) :: rest)) /\
  (forall rest es, read_uchunk_body ([] :: rest) es = (BodyBlank, es, rest)) /\
  (forall es, read_uchunk_body [] es = (BodyEof, es, [])) /\
  (* readNormal: the three strings.Cut attempts in source order, each with the command it records *)
  (forall l,
    split_cmd l =
      match cut_byte (Z.to_N (gen_letter rn_cut0)) l with
      | Some (x, y) => Some (x, cmd_of_code (gen_letter rn_cmd0), y)
      | None =>
        match cut_byte (Z.to_N (gen_letter rn_cut1)) l with
        | Some (x, y) => Some (x, cmd_of_code (gen_letter rn_cmd1), y)
        | None =>
          match cut_byte (Z.to_N (gen_letter rn_cut2)) l with
          | Some (x, y) => Some (x, cmd_of_code (gen_letter rn_cmd2), y)
          | None => None
          end
        end
      end) /\
  (* switch cmd: the operator of each case (the model: CmdA -> Copy, CmdC -> Replace, CmdD -> Drop) *)
  cmd_of_code (gen_letter rn_case0) = CmdA /\ gen_op rn_op0 = Copy /\
  cmd_of_code (gen_letter rn_case1) = CmdC /\ gen_op rn_op1 = Replace /\
  cmd_of_code (gen_letter rn_case2) = CmdD /\ gen_op rn_op2 = Drop /\
  (* the cross-checks of the line counts, in the model's own terms *)
  (forall got n cmd,
    rn_add_mismatch got n (is_cmd cmd CmdA) (is_cmd cmd CmdC) (is_cmd cmd CmdD)
    = negb (got =? n) && match cmd with CmdD => false | _ => true end) /\
  (forall got n cmd,
    rn_del_mismatch got n (is_cmd cmd CmdA) (is_cmd cmd CmdC) (is_cmd cmd CmdD)
    = negb (got =? n) && match cmd with CmdA => false | _ => true end).

Ltac conjuncts := repeat match goal with |- _ /\ _ => split end.

Lemma skeleton_pinned :
  skeleton_of_source = skeleton_of_model /\ formatters_as_modelled /\ readers_as_modelled /\ switches_as_generated.
Proof.
  split; [reflexivity|]. split; [|split].
  - unfold formatters_as_modelled, picks2, picks3, picks4. conjuncts; intros; reflexivity.
  - unfold readers_as_modelled, picks2, picks3, picks4. conjuncts; intros; try reflexivity.
    + destruct below, ys; reflexivity.
    + destruct below, xs; reflexivity.
    + destruct out; reflexivity.
  - unfold switches_as_generated. conjuncts; intros; try reflexivity; destruct cmd; reflexivity.
Qed.
