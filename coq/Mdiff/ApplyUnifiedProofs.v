(* The unified rendering of a chunk list that describes how L becomes R, applied to L by the
   reference applier for the unified format, gives R — for every variant that names an empty
   range by the preceding line (F6 repaired), and on the code as it stands (pinned) for chunk
   lists without an empty left range and (strict reading, which also checks where the new lines
   land in the new file) without an empty right range. *)
From Coq Require Import NArith ZArith List Bool Lia.
Import ListNotations.
From Mds Require Import Mdiff.ReaderModel Mdiff.FormatSpec Mdiff.FormatProofs Mdiff.ReaderNormalProofs
  Mdiff.ReaderUnifiedProofs Mdiff.ApplySpec Mdiff.ApplyNormalProofs.
From Mds Require Import Gen.MdiffSpan.
Local Open Scope Z_scope.

Definition nonempty_left (c : chunk line) : Prop := LEnd c - LStart c <> 0.
Definition nonempty_right (c : chunk line) : Prop := REnd c - RStart c <> 0.
Definition nonempty_sides (strict : bool) (c : chunk line) : Prop :=
  nonempty_left c /\ (strict = true -> nonempty_right c).
Definition appliable_gen (strict : bool) (v : variant) (cs : list (chunk line)) : Prop :=
  uspan_empty_names_next_line v = false \/ Forall (nonempty_sides strict) cs.
Definition appliable := appliable_gen true.

(* ---- hunk bodies ---- *)
Definition lefts (ms : list (op * line)) : list line :=
  flat_map (fun m => match fst m with Copy => [] | _ => [snd m] end) ms.
Definition rights (ms : list (op * line)) : list line :=
  flat_map (fun m => match fst m with Drop => [] | _ => [snd m] end) ms.

Definition hunk_stop (rest : list line) : Prop :=
  match rest with [] => True | l :: _ => has_prefix s_atat l = true end.

Lemma apply_ubody_marks ms : forall rest remL old new,
  Forall body_mark ms -> hunk_stop rest ->
  apply_ubody (map render ms ++ rest) (lefts ms ++ remL) old new
  = Some (rights ms, old + llen (lefts ms), new + llen (rights ms), remL, rest).
Proof.
  induction ms as [|[o t] ms IH]; intros rest remL old new H Hrest.
  - cbn [map app lefts rights flat_map]. rewrite llen_nil, !Z.add_0_r.
    destruct rest as [|l rest]; [reflexivity|]. cbn [apply_ubody]. cbn in Hrest. rewrite Hrest. reflexivity.
  - inversion H as [|? ? Hm H']; subst. unfold body_mark in Hm. cbn [fst] in Hm.
    cbn [map app render fst snd].
    unfold lefts, rights in *. cbn [flat_map fst snd].
    destruct o; try congruence; unfold render at 1; cbn [fst snd marker app apply_ubody].
    + (* Drop *)
      change (has_prefix s_atat (45%N :: t)) with false. cbn iota.
      change (N.eqb 45 32) with false. change (N.eqb 45 45) with true. cbn iota.
      rewrite bytes_eqb_refl. rewrite IH by assumption.
      unfold llen. cbn [length]. f_equal. f_equal. f_equal. f_equal. f_equal. lia.
    + (* Emit *)
      change (has_prefix s_atat (32%N :: t)) with false. cbn iota.
      change (N.eqb 32 32) with true. cbn iota.
      rewrite bytes_eqb_refl. rewrite IH by assumption.
      unfold llen. cbn [length]. f_equal. f_equal. f_equal. f_equal; [f_equal|]; lia.
    + (* Copy *)
      change (has_prefix s_atat (43%N :: t)) with false. cbn iota.
      change (N.eqb 43 32) with false. change (N.eqb 43 45) with false. change (N.eqb 43 43) with true.
      cbn iota. rewrite IH by assumption.
      unfold llen. cbn [length]. f_equal. f_equal. f_equal. f_equal. lia.
Qed.

Lemma lefts_app a b : lefts (a ++ b) = lefts a ++ lefts b.
Proof. unfold lefts. apply flat_map_app. Qed.
Lemma rights_app a b : rights (a ++ b) = rights a ++ rights b.
Proof. unfold rights. apply flat_map_app. Qed.

Lemma lefts_map o xs : lefts (map (pair o) xs) = match o with Copy => [] | _ => xs end.
Proof.
  unfold lefts. induction xs as [|x xs IH]; [destruct o; reflexivity|].
  cbn [map flat_map fst snd]. rewrite IH. destruct o; reflexivity.
Qed.
Lemma rights_map o xs : rights (map (pair o) xs) = match o with Drop => [] | _ => xs end.
Proof.
  unfold rights. induction xs as [|x xs IH]; [destruct o; reflexivity|].
  cbn [map flat_map fst snd]. rewrite IH. destruct o; reflexivity.
Qed.

Lemma lefts_umarks es : lefts (umarks es) = consumed es.
Proof.
  induction es as [|e es IH]; [reflexivity|].
  unfold umarks in *. cbn [flat_map]. rewrite lefts_app, IH, consumed_cons. f_equal.
  unfold umarks_edit. destruct (eop e); rewrite ?lefts_app, !lefts_map, ?app_nil_r; reflexivity.
Qed.
Lemma rights_umarks es : rights (umarks es) = produced es.
Proof.
  induction es as [|e es IH]; [reflexivity|].
  unfold umarks in *. cbn [flat_map]. rewrite rights_app, IH, produced_cons. f_equal.
  unfold umarks_edit. destruct (eop e); rewrite ?rights_app, !rights_map; reflexivity.
Qed.

(* ---- range spellings as the applier reads them ---- *)
Lemma u_range_uspan v side s e :
  u_range (trim_prefix side (uspan v side s e)) =
  Some (if e - s =? 1 then s else uspan_first_v v s e, e - s).
Proof.
  unfold uspan, uspan_bare, uspan_single, uspan_count, trim_prefix.
  destruct (e - s =? 1) eqn:E.
  - apply Z.eqb_eq in E. rewrite cut_prefix_app. unfold u_range.
    rewrite cut_byte_none by (apply numeral_notin; reflexivity). rewrite itoa_atoi.
    f_equal. f_equal. lia.
  - rewrite cut_prefix_app. unfold u_range. cbn [app].
    rewrite cut_byte_first by (apply numeral_notin; reflexivity). rewrite !itoa_atoi. reflexivity.
Qed.

Lemma uchunks_hunk_stop v cs : hunk_stop (flat_map (uchunk_lines v) cs).
Proof. destruct cs as [|c cs]; [exact I|]. reflexivity. Qed.

(* ---- all hunks ---- *)
Lemma apply_uhunks_chunks strict v cs : forall lpos rpos l r,
  chunks_from lpos rpos l r cs -> appliable_gen strict v cs ->
  forall fuel, (fuel > length (flat_map (uchunk_lines v) cs))%nat ->
  apply_uhunks strict fuel (flat_map (uchunk_lines v) cs) (lpos - 1) (rpos - 1) l = Some r.
Proof.
  intros lpos rpos l r H.
  induction H as [lpos rpos g0 | lpos rpos g0 c cs l r HL HR HLe HRe Hcf IH]; intros Hv fuel Hfuel.
  - destruct fuel; [cbn in Hfuel; lia|]. reflexivity.
  - destruct fuel as [|f]; [cbn in Hfuel; lia|].
    cbn [flat_map]. unfold uchunk_lines at 1. cbn [app apply_uhunks].
    rewrite fields_uhunk_header.
    rewrite !bytes_eqb_refl. cbn [negb orb].
    rewrite !u_range_uspan.
    pose proof (llen_nonneg g0) as Hg. pose proof (llen_nonneg (consumed (edits c))) as Hc.
    set (lc := LEnd c - LStart c). assert (Elc : lc = llen (consumed (edits c))) by (unfold lc; lia).
    set (ls := if lc =? 1 then LStart c else uspan_first_v v (LStart c) (LEnd c)).
    assert (Efirst : (if lc =? 0 then ls else ls - 1) = LStart c - 1).
    { unfold ls, uspan_first_v, uspan_first, uspan_count. fold lc.
      destruct (lc =? 1) eqn:E1; [apply Z.eqb_eq in E1; rewrite E1; reflexivity|].
      destruct (lc =? 0) eqn:E0.
      - apply Z.eqb_eq in E0. destruct Hv as [Hv|Hv].
        + rewrite Hv. reflexivity.
        + inversion Hv as [|? ? [Hne _] _]; subst. unfold nonempty_left in Hne. fold lc in Hne. lia.
      - destruct (uspan_empty_names_next_line v); reflexivity. }
    set (rc := REnd c - RStart c).
    set (rs := if rc =? 1 then RStart c else uspan_first_v v (RStart c) (REnd c)).
    assert (Enfirst : strict = true -> (if rc =? 0 then rs else rs - 1) = RStart c - 1).
    { intros Hs. unfold rs, uspan_first_v, uspan_first, uspan_count. fold rc.
      destruct (rc =? 1) eqn:E1; [apply Z.eqb_eq in E1; rewrite E1; reflexivity|].
      destruct (rc =? 0) eqn:E0.
      - apply Z.eqb_eq in E0. destruct Hv as [Hv|Hv].
        + rewrite Hv. reflexivity.
        + inversion Hv as [|? ? [_ Hne] _]; subst. specialize (Hne eq_refl). unfold nonempty_right in Hne. fold rc in Hne. lia.
      - destruct (uspan_empty_names_next_line v); reflexivity. }
    rewrite Efirst.
    replace (strict && negb ((if rc =? 0 then rs else rs - 1) =? rpos - 1 + (LStart c - 1 - (lpos - 1)))) with false.
    2:{ destruct strict; [|reflexivity]. rewrite (Enfirst eq_refl). cbn [andb]. symmetry.
        apply negb_false_iff. apply Z.eqb_eq. lia. }
    replace (LStart c - 1 <? lpos - 1) with false by (symmetry; apply Z.ltb_ge; lia).
    replace (llen (g0 ++ consumed (edits c) ++ l) <? LStart c - 1 - (lpos - 1)) with false
      by (symmetry; apply Z.ltb_ge; rewrite llen_app; pose proof (llen_nonneg (consumed (edits c) ++ l)); lia).
    cbn [orb].
    rewrite (drop_z_app g0) by lia. rewrite (take_z_app g0) by lia.
    rewrite ubody_marks.
    rewrite <- (lefts_umarks (edits c)).
    rewrite apply_ubody_marks by (first [apply umarks_body | apply uchunks_hunk_stop]).
    rewrite lefts_umarks, rights_umarks. rewrite !Z.add_0_l.
    replace (llen (consumed (edits c)) =? lc) with true by (symmetry; apply Z.eqb_eq; lia).
    replace (llen (produced (edits c)) =? rc) with true by (symmetry; apply Z.eqb_eq; unfold rc; lia).
    cbn [negb orb].
    replace (LStart c - 1 + llen (consumed (edits c))) with (LEnd c - 1) by lia.
    replace (rpos - 1 + (LStart c - 1 - (lpos - 1)) + llen (produced (edits c))) with (REnd c - 1) by lia.
    rewrite IH.
    + reflexivity.
    + destruct Hv as [Hv|Hv]; [left; exact Hv | right; inversion Hv; assumption].
    + cbn [flat_map] in Hfuel. rewrite app_length in Hfuel. unfold uchunk_lines in Hfuel at 1.
      cbn [length] in Hfuel. lia.
Qed.

Section Header.
  Variable time : Type.
  Variable zero_time : time.
  Variable time_is_zero : time -> bool.
  Variable format_time : time -> bytes.
  Hypothesis format_nf : forall t, newline_free (format_time t).

  Lemma skip_uheader_unified v fi cs :
    skip_uheader (unified_lines time_is_zero format_time v fi cs) = flat_map (uchunk_lines v) cs.
  Proof.
    unfold unified_lines. destruct cs as [|c cs]; [reflexivity|].
    destruct fi as [f|]; [|reflexivity].
    unfold unified_header, file_header. cbn [app skip_uheader].
    unfold has_prefix. rewrite cut_prefix_app. cbn [orb].
    replace (cut_prefix s_mmm (s_ppp ++ _)) with (@None bytes) by reflexivity.
    rewrite cut_prefix_app. cbn [orb]. reflexivity.
  Qed.

  Theorem apply_unified_lines strict v fi L R cs :
    appliable_gen strict v cs -> patch_ok L R cs ->
    apply_unified_gen strict L (unified_lines time_is_zero format_time v fi cs) = Some R.
  Proof.
    intros Hv H. unfold apply_unified_gen. rewrite skip_uheader_unified.
    apply (apply_uhunks_chunks strict v cs 1 1 L R H Hv). lia.
  Qed.

  Theorem apply_unified_text_gen strict v fi L R cs :
    appliable_gen strict v cs -> patch_ok L R cs -> lines_nf cs -> info_ok time fi ->
    apply_unified_gen strict L (split_lines (unified time_is_zero format_time v fi cs)) = Some R.
  Proof.
    intros Hv H Hnf Hfi. unfold unified.
    rewrite split_join_lines by (apply unified_lines_nf; assumption).
    apply apply_unified_lines; assumption.
  Qed.

  Theorem apply_unified_text v fi L R cs :
    appliable v cs -> patch_ok L R cs -> lines_nf cs -> info_ok time fi ->
    apply_unified L (split_lines (unified time_is_zero format_time v fi cs)) = Some R.
  Proof. apply apply_unified_text_gen. Qed.

  (* the reading that ignores where the new lines land (what GNU patch does with these numbers):
     only an empty LEFT range is misplaced by the code as it stands *)
  Theorem apply_unified_text_lenient v fi L R cs :
    uspan_empty_names_next_line v = false \/ Forall nonempty_left cs ->
    patch_ok L R cs -> lines_nf cs -> info_ok time fi ->
    apply_unified_gen false L (split_lines (unified time_is_zero format_time v fi cs)) = Some R.
  Proof.
    intros Hv. apply apply_unified_text_gen. destruct Hv as [Hv|Hv]; [left; exact Hv | right].
    eapply Forall_impl; [|exact Hv]. intros c Hc. split; [exact Hc | discriminate].
  Qed.
End Header.
