(* The behaviour of the tree before repair 82c6b7a (DESIGN.md F4), for the record: with the
   unbounded findContext the pipeline yields a chunk whose edits do not consume its left range. *)
From Coq Require Import ZArith List Bool.
Import ListNotations.
From Mds Require Import Mdiff.MdiffModel Mdiff.MdiffSpec.
Local Open Scope Z_scope.

Definition f4_left : list nat := [1; 1; 2]%nat.
Definition f4_right : list nat := [1; 2; 2]%nat.
(* slice.EditScript [a a b] [a b b] = [=a, -a, =b, +b] *)
Definition f4_script : list (edit nat) :=
  [mkEdit Emit [1%nat] []; mkEdit Drop [1%nat] []; mkEdit Emit [2%nat] []; mkEdit Copy [] [2%nat]].

Lemma f4_script_ok : script_ok f4_left f4_right f4_script.
Proof. left. split; reflexivity. Qed.

Lemma unify_refuted_prefix :
  exists (L R : list nat) (es : list (edit nat)) (n : Z) (cs : list (chunk nat)) (c : chunk nat),
    script_ok L R es /\ 0 <= n /\
    bind (add_context_prefix Nat.eqb L R n (new_chunks es)) unify_chunks = Ok cs /\
    In c cs /\ chunk_okb Nat.eqb L R c = false /\ applies Nat.eqb L R cs = false.
Proof.
  exists f4_left, f4_right, f4_script, 2.
  eexists. eexists.
  split; [exact f4_script_ok|].
  split; [discriminate|].
  split; [vm_compute; reflexivity|].
  split; [left; reflexivity|].
  split; vm_compute; reflexivity.
Qed.

(* the same input through the code of the tree *)
Lemma unify_f4_repaired :
  exists cs, bind (add_context Nat.eqb f4_left f4_right 2 (new_chunks f4_script)) unify_chunks = Ok cs /\
             forallb (chunk_okb Nat.eqb f4_left f4_right) cs = true /\
             applies Nat.eqb f4_left f4_right cs = true.
Proof. eexists. split; [vm_compute; reflexivity|]. split; vm_compute; reflexivity. Qed.
