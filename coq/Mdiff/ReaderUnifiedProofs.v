(* Unified format: ReadUnified (Unified chunks) = unified_normalise chunks with the file header
   intact, and re-formatting gives the same bytes — for every variant that reads an omitted count
   as 1 (F5 repaired), and on the code as it stands (pinned) for chunk lists without a one-line
   side. *)
From Coq Require Import NArith ZArith List Bool Lia.
Import ListNotations.
From Mds Require Import Mdiff.ReaderModel Mdiff.FormatSpec Mdiff.FormatProofs Mdiff.ReaderNormalProofs.
From Mds Require Import Gen.MdiffSpan Gen.MdiffReadSpan.
Local Open Scope Z_scope.

(* ---------------------------------------------------------------- strings.Fields *)
Definition no_space (s : bytes) : Prop := Forall (fun b => is_space b = false) s.

Lemma fields_loop_tok tok : forall cur rest,
  no_space tok -> cur ++ tok <> [] ->
  fields_loop (tok ++ 32%N :: rest) cur = (cur ++ tok) :: fields_loop rest [].
Proof.
  induction tok as [|b tok IH]; intros cur rest Hns Hne.
  - rewrite app_nil_r in *. cbn [app fields_loop]. change (is_space 32) with true. cbn iota.
    destruct cur; [congruence | reflexivity].
  - inversion Hns as [|? ? Hb Hns']; subst. cbn [app fields_loop]. rewrite Hb.
    rewrite IH; [rewrite <- app_assoc; reflexivity | exact Hns' |].
    destruct cur; discriminate.
Qed.

Lemma fields_loop_last tok : forall cur,
  no_space tok -> cur ++ tok <> [] -> fields_loop tok cur = [cur ++ tok].
Proof.
  induction tok as [|b tok IH]; intros cur Hns Hne.
  - rewrite app_nil_r in *. cbn [fields_loop]. destruct cur; [congruence | reflexivity].
  - inversion Hns as [|? ? Hb Hns']; subst. cbn [fields_loop]. rewrite Hb.
    rewrite IH; [rewrite <- app_assoc; reflexivity | exact Hns' |].
    destruct cur; discriminate.
Qed.

Lemma span_bytes_no_space s : span_bytes s -> no_space s.
Proof.
  intros H. eapply Forall_impl; [|exact H]. intros b Hb. unfold span_byte, numeral_byte, is_digit in Hb.
  unfold is_space.
  destruct (N.eqb b 32) eqn:E1; [apply N.eqb_eq in E1; subst b; discriminate Hb|].
  destruct (N.leb 9 b && N.leb b 13) eqn:E2; [|reflexivity].
  apply andb_true_iff in E2. destruct E2 as [E2 E3]. apply N.leb_le in E2, E3.
  exfalso. apply orb_true_iff in Hb. destruct Hb as [Hb|Hb].
  - apply orb_true_iff in Hb. destruct Hb as [Hb|Hb].
    + apply andb_true_iff in Hb. destruct Hb as [Hb _]. apply N.leb_le in Hb. lia.
    + apply N.eqb_eq in Hb. lia.
  - apply N.eqb_eq in Hb. lia.
Qed.

Lemma no_space_app a b : no_space a -> no_space b -> no_space (a ++ b).
Proof. intros. apply Forall_app. split; assumption. Qed.

Lemma uspan_no_space v side s e : no_space side -> no_space (uspan v side s e).
Proof.
  intros Hs. unfold uspan. destruct (uspan_bare s e).
  - apply no_space_app; [exact Hs | apply span_bytes_no_space, itoa_span].
  - apply no_space_app; [exact Hs|]. apply span_bytes_no_space.
    apply span_bytes_app; [apply itoa_span|].
    apply span_bytes_app; [constructor; [reflexivity|constructor] | apply itoa_span].
Qed.

Lemma uspan_nonempty v side s e : side <> [] -> uspan v side s e <> [].
Proof. intros H. unfold uspan. destruct (uspan_bare s e); destruct side; try congruence; discriminate. Qed.

Lemma fields_uhunk_header v c :
  fields (uhunk_header v c) =
  [s_atat; uspan v s_minus (LStart c) (LEnd c); uspan v s_plus (RStart c) (REnd c); s_atat].
Proof.
  unfold fields, uhunk_header, unified_lspan_lo, unified_lspan_hi, unified_rspan_lo, unified_rspan_hi.
  assert (Hm : no_space s_minus) by (repeat constructor).
  assert (Hp : no_space s_plus) by (repeat constructor).
  assert (Ha : no_space s_atat) by (repeat constructor).
  cbn [app]. change (64%N :: 64%N :: 32%N :: ?x) with (s_atat ++ 32%N :: x).
  rewrite fields_loop_tok by (first [exact Ha | discriminate]). cbn [app].
  rewrite fields_loop_tok by (first [apply uspan_no_space; exact Hm | apply uspan_nonempty; discriminate]).
  rewrite fields_loop_tok by (first [apply uspan_no_space; exact Hp | apply uspan_nonempty; discriminate]).
  rewrite fields_loop_last by (first [exact Ha | discriminate]). reflexivity.
Qed.

(* ---------------------------------------------------------------- range spellings read back *)
Lemma read_uspan_uspan v tag s e :
  fits s -> fits e ->
  uspan_omitted_count_zero v = false \/ e - s <> 1 ->
  read_uspan v tag (uspan v tag s e) = Some (s, e - s).
Proof.
  intros Hs He H. unfold read_uspan, uspan, uspan_bare, uspan_single, uspan_first_v, uspan_first, uspan_count, omitted_count.
  destruct (e - s =? 1) eqn:E1.
  - apply Z.eqb_eq in E1. destruct H as [H|H]; [|lia]. rewrite H.
    rewrite parse_span_single by fits64. change (1 =? 0) with false. rewrite andb_false_r.
    f_equal. f_equal. lia.
  - apply Z.eqb_neq in E1.
    destruct (uspan_empty_names_next_line v); cbn [negb andb].
    + rewrite parse_span_pair by fits64. reflexivity.
    + destruct (e - s =? 0) eqn:E0.
      * rewrite parse_span_pair by fits64. rewrite E0.
        apply Z.eqb_eq in E0. rewrite wrap64_id by fits64. f_equal. f_equal; lia.
      * rewrite parse_span_pair by fits64. rewrite E0. reflexivity.
Qed.

(* the chunk built from the parsed (start, count) pairs *)
Lemma uchunk_of_ranges es ls le rs re :
  fits le -> fits re ->
  uchunk_of es ls (le - ls) rs (re - rs) = mkChunk es ls le rs re.
Proof.
  intros Hl Hr.
  unfold uchunk_of, read_uchunk_lstart, read_uchunk_lend, read_uchunk_rstart, read_uchunk_rend.
  replace (ls + (le - ls)) with le by lia. replace (rs + (re - rs)) with re by lia.
  rewrite !wrap64_id by fits64. reflexivity.
Qed.

(* on the code as it stands a one-line range comes back empty (F5) *)
Lemma read_uspan_pinned_one_line tag s :
  in_int64 s = true ->
  read_uspan pinned tag (uspan pinned tag s (s + 1)) = Some (s, 0).
Proof.
  intros Hs. unfold read_uspan, uspan, uspan_bare, uspan_single, omitted_count, pinned, parse_span_omitted_hi.
  cbn [uspan_omitted_count_zero uspan_empty_names_next_line].
  replace (s + 1 - s =? 1) with true by (symmetry; apply Z.eqb_eq; lia).
  rewrite parse_span_single by exact Hs. cbn. reflexivity.
Qed.

(* ---------------------------------------------------------------- hunk bodies *)
(* the lines of a hunk body as (kind, text) *)
Definition umarks_edit (e : edit line) : list (op * line) :=
  match eop e with
  | Drop => map (pair Drop) (X e)
  | Emit => map (pair Emit) (X e)
  | Copy => map (pair Copy) (Y e)
  | Replace => map (pair Drop) (X e) ++ map (pair Copy) (Y e)
  end.
Definition umarks (es : list (edit line)) : list (op * line) := flat_map umarks_edit es.

Definition marker (o : op) : N := match o with Drop => 45 | Emit => 32 | Copy => 43 | Replace => 33 end%N.
Definition render (m : op * line) : line := marker (fst m) :: snd m.
Definition body_mark (m : op * line) : Prop := fst m <> Replace.

Lemma uedit_lines_marks e : uedit_lines e = map render (umarks_edit e).
Proof.
  unfold uedit_lines, umarks_edit, write_lines.
  destruct (eop e); rewrite ?map_app, !map_map; reflexivity.
Qed.

Lemma ubody_marks es : flat_map uedit_lines es = map render (umarks es).
Proof.
  induction es as [|e es IH]; [reflexivity|].
  unfold umarks in *. cbn [flat_map]. rewrite map_app, IH, uedit_lines_marks. reflexivity.
Qed.

Lemma umarks_body es : Forall body_mark (umarks es).
Proof.
  unfold umarks. apply Forall_forall. intros m Hin. apply in_flat_map in Hin.
  destruct Hin as (e & _ & Hin). unfold umarks_edit in Hin. unfold body_mark.
  destruct (eop e); try apply in_app_or in Hin;
    repeat match goal with
           | H : _ \/ _ |- _ => destruct H
           | H : In _ (map _ _) |- _ => apply in_map_iff in H; destruct H as (? & <- & _)
           end; discriminate.
Qed.

Definition add_mark (acc : list (edit line)) (m : op * line) : list (edit line) :=
  add_text (fst m) (snd m) acc.

Lemma read_body_marks ms : forall rest acc,
  Forall body_mark ms ->
  read_uchunk_body (map render ms ++ rest) acc = read_uchunk_body rest (fold_left add_mark ms acc).
Proof.
  induction ms as [|[o t] ms IH]; intros rest acc H; [reflexivity|].
  inversion H as [|? ? Hm H']; subst. cbn [map app fold_left render fst snd read_uchunk_body].
  unfold body_mark in Hm. cbn [fst] in Hm.
  destruct o; cbn [marker]; try congruence; cbn; apply IH; exact H'.
Qed.

(* putting one line in front of a normalised edit list *)
Definition cons_mark (m : op * line) (acc : list (edit line)) : list (edit line) :=
  push_run (fst m) [snd m] acc.

Lemma add_text_cons2 o t (e e' : edit line) r :
  add_text o t (e :: e' :: r) = e :: add_text o t (e' :: r).
Proof. reflexivity. Qed.

Lemma add_cons_comm o t m acc :
  o <> Replace -> fst m <> Replace ->
  add_text o t (cons_mark m acc) = cons_mark m (add_text o t acc).
Proof.
  destruct m as [o' x]. unfold cons_mark. cbn [fst snd]. intros Ho Ho'.
  destruct acc as [|e [|e' r]].
  - cbn [push_run add_text].
    destruct o, o'; try congruence; reflexivity.
  - cbn [push_run add_text].
    destruct e as [oe xe ye]. cbn [eop X Y].
    destruct o, o', oe; try congruence; cbn; rewrite <- ?app_assoc; reflexivity.
  - rewrite add_text_cons2. cbn [push_run].
    destruct (op_eqb (eop e) o').
    + destruct o'; rewrite add_text_cons2; reflexivity.
    + destruct o'; rewrite !add_text_cons2; reflexivity.
Qed.

Lemma fold_add_cons ms : forall m acc,
  fst m <> Replace -> Forall body_mark ms ->
  fold_left add_mark ms (cons_mark m acc) = cons_mark m (fold_left add_mark ms acc).
Proof.
  induction ms as [|[o t] ms IH]; intros m acc Hm H; [reflexivity|].
  inversion H as [|? ? Ho H']; subst. cbn [fold_left]. unfold add_mark at 2 4. cbn [fst snd].
  rewrite add_cons_comm by assumption. apply IH; assumption.
Qed.

Lemma fold_add_right ms :
  Forall body_mark ms -> fold_left add_mark ms [] = fold_right cons_mark [] ms.
Proof.
  induction 1 as [|[o t] ms Ho H IH]; [reflexivity|].
  cbn [fold_left fold_right]. rewrite <- IH.
  replace (add_mark [] (o, t)) with (cons_mark (o, t) []).
  - apply fold_add_cons; assumption.
  - unfold add_mark, cons_mark. cbn. destruct o; reflexivity.
Qed.

(* a run pushed at once = its lines pushed one by one *)
Lemma push_run_marks o xs acc :
  o <> Replace -> push_run o xs acc = fold_right cons_mark acc (map (pair o) xs).
Proof.
  intros Ho. induction xs as [|x xs IH]; [reflexivity|].
  cbn [map fold_right]. rewrite <- IH. unfold cons_mark. cbn [fst snd].
  destruct xs as [|x' xs].
  - reflexivity.
  - cbn [push_run]. destruct acc as [|e acc].
    + destruct o; try congruence; reflexivity.
    + destruct (op_eqb (eop e) o) eqn:E.
      * destruct o; try congruence; cbn [eop op_eqb]; reflexivity.
      * destruct o; try congruence; cbn [eop op_eqb]; reflexivity.
Qed.

Lemma unified_norm_marks es : unified_norm_edits es = fold_right cons_mark [] (umarks es).
Proof.
  induction es as [|e es IH]; [reflexivity|].
  unfold umarks in *. cbn [flat_map unified_norm_edits]. rewrite fold_right_app, <- IH.
  unfold umarks_edit. destruct (eop e).
  - apply push_run_marks. discriminate.
  - apply push_run_marks. discriminate.
  - apply push_run_marks. discriminate.
  - rewrite fold_right_app. rewrite <- !push_run_marks by discriminate. reflexivity.
Qed.

Lemma read_body_edits es rest :
  read_uchunk_body (flat_map uedit_lines es ++ rest) [] = read_uchunk_body rest (unified_norm_edits es).
Proof.
  rewrite ubody_marks, read_body_marks by apply umarks_body.
  rewrite fold_add_right by apply umarks_body. rewrite unified_norm_marks. reflexivity.
Qed.

(* the marks of a normalised list are the same marks: nothing is lost, nothing reordered *)
Lemma umarks_cons_mark m acc : fst m <> Replace -> umarks (cons_mark m acc) = m :: umarks acc.
Proof.
  destruct m as [o x]. unfold cons_mark. cbn [fst snd]. intros Ho.
  destruct acc as [|e acc]; cbn [push_run].
  - destruct o; try congruence; reflexivity.
  - destruct (op_eqb (eop e) o) eqn:E.
    + destruct e as [oe xe ye]. cbn [eop] in E.
      destruct o, oe; try congruence; try discriminate E; reflexivity.
    + destruct o; try congruence; reflexivity.
Qed.

Lemma umarks_norm es : umarks (unified_norm_edits es) = umarks es.
Proof.
  rewrite unified_norm_marks. pose proof (umarks_body es) as H.
  induction H as [|m ms Hm _ IH]; [reflexivity|].
  cbn [fold_right]. rewrite umarks_cons_mark by exact Hm. rewrite IH. reflexivity.
Qed.

Lemma ubody_norm es : flat_map uedit_lines (unified_norm_edits es) = flat_map uedit_lines es.
Proof. rewrite !ubody_marks, umarks_norm. reflexivity. Qed.

(* ---------------------------------------------------------------- one hunk *)
Definition norm_chunk (c : chunk line) : chunk line :=
  mkChunk (unified_norm_edits (edits c)) (LStart c) (LEnd c) (RStart c) (REnd c).

Definition no_one_line_side (c : chunk line) : Prop :=
  LEnd c - LStart c <> 1 /\ REnd c - RStart c <> 1.

(* the line numbers are numbers an int holds with room to spare ([fits]: at most 2^61 in
   magnitude): strconv.Atoi rejects what an int cannot hold, and the reader adds start and count *)
Definition chunk_fits (c : chunk line) : Prop :=
  fits (LStart c) /\ fits (LEnd c) /\ fits (RStart c) /\ fits (REnd c).
Definition ranges_fit (cs : list (chunk line)) : Prop := Forall chunk_fits cs.

(* which chunk lists a variant reads back faithfully: all of them once an omitted count is read
   as 1; on the code as it stands those without a one-line side *)
Definition readable (v : variant) (cs : list (chunk line)) : Prop :=
  uspan_omitted_count_zero v = false \/ Forall no_one_line_side cs.

Definition starts_at (ls : list line) : Prop :=
  match ls with [] => True | l :: _ => exists t, l = 64%N :: t end.

Lemma read_uchunk_chunk v c rest :
  chunk_fits c ->
  uspan_omitted_count_zero v = false \/ no_one_line_side c ->
  starts_at rest ->
  read_uchunk v (uchunk_lines v c ++ rest) = UChunk (norm_chunk c) rest.
Proof.
  intros (Hf1 & Hf2 & Hf3 & Hf4) Hv Hrest. unfold uchunk_lines. cbn [app read_uchunk].
  rewrite fields_uhunk_header. unfold nth_field. cbn [nth].
  replace (read_uchunk_min_fields _ _ _) with false by (unfold read_uchunk_min_fields; reflexivity).
  rewrite read_uspan_uspan by (first [assumption | destruct Hv as [Hv|[Hv _]]; [left; exact Hv | right; exact Hv]]).
  rewrite read_uspan_uspan by (first [assumption | destruct Hv as [Hv|[_ Hv]]; [left; exact Hv | right; exact Hv]]).
  rewrite read_body_edits. unfold norm_chunk. rewrite <- uchunk_of_ranges by assumption.
  destruct rest as [|l rest]; [reflexivity|].
  destruct Hrest as (t & ->). reflexivity.
Qed.

Lemma uchunks_starts_at v cs : starts_at (flat_map (uchunk_lines v) cs).
Proof. destruct cs as [|c cs]; [exact I|]. cbn. eexists. reflexivity. Qed.

Lemma read_uchunks_all v cs : forall acc fuel,
  ranges_fit cs -> readable v cs -> (fuel > length (flat_map (uchunk_lines v) cs))%nat ->
  read_uchunks v fuel (flat_map (uchunk_lines v) cs) acc = ROk (acc ++ unified_normalise cs).
Proof.
  induction cs as [|c cs IH]; intros acc fuel Hfit Hv Hfuel.
  - destruct fuel; [cbn in Hfuel; lia|]. cbn. rewrite app_nil_r. reflexivity.
  - destruct fuel as [|f]; [cbn in Hfuel; lia|].
    cbn [flat_map read_uchunks].
    rewrite read_uchunk_chunk.
    + rewrite IH.
      * unfold unified_normalise. cbn [map]. rewrite <- app_assoc. reflexivity.
      * inversion Hfit; assumption.
      * destruct Hv as [Hv|Hv]; [left; exact Hv | right; inversion Hv; assumption].
      * cbn [flat_map] in Hfuel. rewrite app_length in Hfuel. unfold uchunk_lines in Hfuel at 1.
        cbn [length] in Hfuel. lia.
    + inversion Hfit; assumption.
    + destruct Hv as [Hv|Hv]; [left; exact Hv | right; inversion Hv; assumption].
    + apply uchunks_starts_at.
Qed.

(* ---------------------------------------------------------------- whole text, with file header *)
Section Header.
  Variable time : Type.
  Variable zero_time : time.
  Variable time_is_zero : time -> bool.
  Variable format_time : time -> bytes.
  Variable parse_time : bytes -> option time.
  (* timestamps are opaque: all that is assumed is that a formatted timestamp parses back, that
     its text stays on the line, and that "zero" is one value *)
  Hypothesis parse_format : forall t, time_is_zero t = false -> parse_time (format_time t) = Some t.
  Hypothesis format_nf : forall t, newline_free (format_time t).
  Hypothesis zero_unique : forall t, time_is_zero t = true -> t = zero_time.

  Definition name_ok (n : bytes) : Prop := ~ In 9%N n /\ newline_free n.
  Definition info_ok (fi : option (file_info time)) : Prop :=
    match fi with None => True | Some f => name_ok (fi_left f) /\ name_ok (fi_right f) end.

  (* the header a reader gets back: empty names were written as "a" and "b" *)
  Definition info_back (f : file_info time) : file_info time :=
    mkFileInfo (name_or (fi_left f) [97%N]) (name_or (fi_right f) [98%N]) (fi_ltime f) (fi_rtime f).
  Definition expected_info (fi : option (file_info time)) (cs : list (chunk line)) : option (file_info time) :=
    match cs with [] => None | _ => option_map info_back fi end.

  Lemma name_or_ok n d : name_ok n -> name_ok d -> name_ok (name_or n d).
  Proof. unfold name_or. destruct n; cbn; auto. Qed.

  Lemma parse_file_line_header name ts :
    ~ In 9%N name ->
    parse_file_line time zero_time parse_time
      (name ++ (if time_is_zero ts then [] else 9%N :: format_time ts)) = (name, ts).
  Proof.
    intros Hn. unfold parse_file_line. destruct (time_is_zero ts) eqn:Ez.
    - rewrite app_nil_r. rewrite cut_byte_none by exact Hn. rewrite (zero_unique ts Ez). reflexivity.
    - rewrite cut_byte_first by exact Hn. rewrite parse_format by exact Ez. reflexivity.
  Qed.

  Lemma read_uheader_header f rest :
    name_ok (fi_left f) -> name_ok (fi_right f) ->
    read_uheader time zero_time parse_time (unified_header time_is_zero format_time (Some f) ++ rest)
    = ROk (Some (info_back f), rest).
  Proof.
    intros Hl Hr. unfold unified_header, file_header. cbn [app read_uheader].
    rewrite cut_prefix_app.
    assert (Ha : name_ok [97%N]) by (split; unfold newline_free; cbn; intuition discriminate).
    assert (Hb : name_ok [98%N]) by (split; unfold newline_free; cbn; intuition discriminate).
    rewrite parse_file_line_header by (apply name_or_ok; assumption).
    rewrite cut_prefix_app.
    rewrite parse_file_line_header by (apply name_or_ok; assumption).
    reflexivity.
  Qed.

  Lemma read_uheader_none ls :
    starts_at ls -> read_uheader time zero_time parse_time ls = ROk (None, ls).
  Proof. destruct ls as [|l ls]; [reflexivity|]. intros (t & ->). reflexivity. Qed.

  Lemma read_unified_lines_unified v fi cs :
    ranges_fit cs -> readable v cs -> info_ok fi ->
    read_unified_lines time zero_time parse_time v (unified_lines time_is_zero format_time v fi cs)
    = ROk (mkPatch (expected_info fi cs) (unified_normalise cs)).
  Proof.
    intros Hfit Hv Hfi. unfold read_unified_lines, unified_lines, expected_info.
    destruct cs as [|c cs]; [reflexivity|].
    set (body := flat_map (uchunk_lines v) (c :: cs)).
    destruct fi as [f|].
    - destruct Hfi as [Hl Hr]. rewrite read_uheader_header by assumption.
      unfold body. rewrite read_uchunks_all by (first [exact Hfit | exact Hv | lia]). reflexivity.
    - cbn [unified_header app]. rewrite read_uheader_none by apply uchunks_starts_at.
      unfold body. rewrite read_uchunks_all by (first [exact Hfit | exact Hv | lia]). reflexivity.
  Qed.

  (* ---- newline-freeness of what Unified writes ---- *)
  Lemma uspan_nf v side s e : newline_free side -> newline_free (uspan v side s e).
  Proof.
    intros Hs. unfold uspan. destruct (uspan_bare s e).
    - apply nf_app; [exact Hs | apply span_bytes_nf, itoa_span].
    - apply nf_app; [exact Hs|]. apply nf_app; [apply span_bytes_nf, itoa_span|].
      apply nf_cons; [discriminate | apply span_bytes_nf, itoa_span].
  Qed.

  Lemma uchunk_lines_nf v c : chunk_lines_nf c -> Forall newline_free (uchunk_lines v c).
  Proof.
    intros Hc. unfold uchunk_lines. constructor.
    - unfold uhunk_header.
      assert (H1 : newline_free s_atat) by (unfold newline_free; cbn; intuition discriminate).
      assert (H2 : newline_free s_minus) by (unfold newline_free; cbn; intuition discriminate).
      assert (H3 : newline_free s_plus) by (unfold newline_free; cbn; intuition discriminate).
      apply nf_app; [exact H1|]. apply nf_cons; [discriminate|].
      apply nf_app; [apply uspan_nf; exact H2|]. apply nf_cons; [discriminate|].
      apply nf_app; [apply uspan_nf; exact H3|]. apply nf_cons; [discriminate | exact H1].
    - unfold chunk_lines_nf in Hc. induction Hc as [|e es He _ IH]; [constructor|].
      cbn [flat_map]. apply Forall_app. split; [|exact IH].
      unfold uedit_lines. unfold edit_lines_nf in He.
      assert (Hp : forall b, b <> 10%N -> newline_free [b])
        by (intros b Hb [H|[]]; apply Hb; exact H).
      destruct (eop e); [| | |destruct He as (Hx & Hy)];
        try apply Forall_app; try split; apply write_lines_nf;
        first [apply Hp; discriminate | assumption].
  Qed.

  Lemma unified_lines_nf v fi cs :
    lines_nf cs -> info_ok fi -> Forall newline_free (unified_lines time_is_zero format_time v fi cs).
  Proof.
    intros Hnf Hfi. unfold unified_lines. destruct cs as [|c cs]; [constructor|].
    apply Forall_app. split.
    - destruct fi as [f|]; [|constructor]. destruct Hfi as [[_ Hl] [_ Hr]].
      assert (Hh : forall p n d ts, newline_free p -> newline_free n -> newline_free d ->
                     newline_free (file_header time_is_zero format_time p (name_or n d) ts)).
      { intros p n d ts Hp Hn Hd. unfold file_header. apply nf_app; [exact Hp|].
        apply nf_app; [unfold name_or; destruct n; assumption|].
        destruct (time_is_zero ts); [intros []|]. apply nf_cons; [discriminate | apply format_nf]. }
      unfold unified_header.
      constructor; [|constructor; [|constructor]]; apply Hh; try assumption;
        unfold newline_free; cbn; intuition discriminate.
    - set (all := c :: cs) in *. clearbody all.
      induction Hnf as [|c' cs' Hc _ IH]; [constructor|].
      cbn [flat_map]. apply Forall_app. split; [apply uchunk_lines_nf; exact Hc | exact IH].
  Qed.

  (* ReadUnified(Unified(chunks)) = the same chunks, hunk for hunk, and the same header *)
  Theorem read_unified_unified v fi cs :
    ranges_fit cs -> readable v cs -> lines_nf cs -> info_ok fi ->
    read_unified time zero_time parse_time v (unified time_is_zero format_time v fi cs)
    = ROk (mkPatch (expected_info fi cs) (unified_normalise cs)).
  Proof.
    intros Hfit Hv Hnf Hfi. unfold read_unified, unified.
    rewrite split_join_lines by (apply unified_lines_nf; assumption).
    apply read_unified_lines_unified; assumption.
  Qed.

  (* re-formatting the patch that was read gives the same bytes (every variant, every list) *)
  Lemma name_or_idem n d : name_or (name_or n d) d = name_or n d.
  Proof. unfold name_or. destruct n; [destruct d|]; reflexivity. Qed.

  Theorem unified_reformat v fi cs :
    unified time_is_zero format_time v (expected_info fi cs) (unified_normalise cs)
    = unified time_is_zero format_time v fi cs.
  Proof.
    unfold unified. f_equal. unfold unified_lines, expected_info.
    destruct cs as [|c cs]; [reflexivity|].
    cbn [unified_normalise map]. f_equal.
    - destruct fi as [f|]; [|reflexivity]. cbn [option_map unified_header info_back fi_left fi_right fi_ltime fi_rtime].
      rewrite !name_or_idem. reflexivity.
    - change (flat_map (uchunk_lines v) (map norm_chunk (c :: cs)) = flat_map (uchunk_lines v) (c :: cs)).
      induction (c :: cs) as [|c' cs' IH]; [reflexivity|].
      cbn [map flat_map]. rewrite IH. f_equal.
      unfold uchunk_lines, norm_chunk, uhunk_header. cbn [edits LStart LEnd RStart REnd].
      rewrite ubody_norm. reflexivity.
  Qed.
End Header.
