(* C13 for every history, part 2: UnifyChunks on the chunks of ANY reachable description returns the
   chunks of the description in which the segments around every gap without free lines are merged
   ([un_segs]); no panic.  The gap may carry several layers of context from several AddContext
   calls; the overlap (if any) always lies inside the latest layer, so the trimming block cuts or
   removes exactly that one Emit edit, and the fusion joins what is then the last Emit of the
   chunk before with the first Emit of the chunk after. *)
From Coq Require Import ZArith List Bool Lia ZifyBool.
Import ListNotations.
From Mds Require Import Gen.MdiffIdx Mdiff.MdiffModel Mdiff.MdiffSpec Mdiff.MdiffProofsBase
     Mdiff.MdiffProofsCtx Mdiff.MdiffProofsUnify Mdiff.MdiffHistBase.
Local Open Scope Z_scope.

Section HistUnify.
  Variable T : Type.
  Notation edit := (edit T).
  Notation chunk := (chunk T).
  Notation hseg := (hseg T).
  Notation gapd := (gapd T).

  (* ---- the overlap-trimming block: last ends with the Emit edit u ++ v whose last |v| > 0 lines
     overlap c *)
  Lemma uc_trim_gen : forall (G0 : list edit) (u v : list T) ls le rs re (c : chunk),
      v <> [] -> LStart c = le - len v ->
      uc_trim (mkChunk (G0 ++ [emit_edit (u ++ v)]) ls le rs re) c (len v) =
      Ok (mkChunk (G0 ++ emit_opt u) ls (le - len v) rs (re - len v), c).
  Proof.
    intros G0 u v ls le rs re c Hv Hc.
    pose proof (len_nonneg _ u). pose proof (len_nonneg _ v).
    assert (0 < len v) by (destruct v; [congruence|lens; pose proof (len_nonneg _ v); lia]).
    unfold uc_trim. cbn [edits LStart LEnd RStart REnd].
    unfold uc_end_idx. rewrite ptr_at_last. cbn [deref bind].
    unfold uc_end_emit. cbn [is_emit emit_edit eop op_eqb X Y].
    unfold uc_end_whole, uc_end_drop_hi, uc_end_trim_hi, uc_end_lend, uc_end_rend, uc_bad_merge.
    destruct u as [|a u].
    - replace (len v >=? len ([] ++ v)) with true by (cbn [app]; lia).
      rewrite take_ok by (lens; lia). cbn [bind fst snd LStart LEnd].
      replace (LStart c <? le - len v) with false by lia.
      cbn [emit_opt]. rewrite app_nil_r. reflexivity.
    - replace (len v >=? len ((a :: u) ++ v)) with false by (lens; pose proof (len_nonneg _ u); lia).
      rewrite take_ok by (lens; lia). cbn [bind fst snd LStart LEnd].
      rewrite set_at_last.
      replace (LStart c <? le - len v) with false by lia.
      unfold set_X. cbn [eop Y emit_edit emit_opt]. reflexivity.
  Qed.

  (* ---- fusion + merge when last ends with an Emit and c starts with one *)
  Lemma uc_fusion_both : forall (B : Type) (k : chunk -> res B) (G0 : list edit) (x y : list T) (H : list edit)
                                ls le rs re cs ce crs cre,
      bind (uc_fusion (mkChunk (G0 ++ [emit_edit x]) ls le rs re) (mkChunk (emit_edit y :: H) cs ce crs cre))
           (fun lc => k (uc_merge (fst lc) (snd lc))) =
      k (mkChunk (G0 ++ emit_edit (x ++ y) :: H) ls ce rs cre).
  Proof.
    intros. unfold uc_fusion. cbn [edits LStart LEnd RStart REnd]. unfold uc_end_idx, uc_start_idx.
    rewrite ptr_at_last. cbn [deref bind]. cbn [is_emit emit_edit eop op_eqb].
    rewrite ptr_at_first. cbn [deref bind]. cbn [is_emit emit_edit eop op_eqb]. unfold uc_fuse. cbn [andb].
    unfold uc_fuse_drop_lo. rewrite drop_one. cbn [bind fst snd].
    rewrite set_at_last.
    unfold uc_merge, uc_merge_lend, uc_merge_rend. cbn [edits LStart LEnd RStart REnd].
    unfold set_X. cbn [eop X Y emit_edit].
    f_equal. f_equal. lapp.
  Qed.

  (* ---- ... and when last ends with an edit that is not an Emit: nothing to fuse *)
  Lemma uc_fusion_noend : forall (B : Type) (k : chunk -> res B) (G0 : list edit) e (Hc : list edit)
                                 ls le rs re cs ce crs cre,
      is_emit e = false ->
      bind (uc_fusion (mkChunk (G0 ++ [e]) ls le rs re) (mkChunk Hc cs ce crs cre))
           (fun lc => k (uc_merge (fst lc) (snd lc))) =
      k (mkChunk ((G0 ++ [e]) ++ Hc) ls ce rs cre).
  Proof.
    intros B k G0 e Hc ls le rs re cs ce crs cre He. unfold uc_fusion. cbn [edits LStart LEnd RStart REnd].
    unfold uc_end_idx. rewrite ptr_at_last. cbn [deref bind]. rewrite He. cbn [bind fst snd].
    unfold uc_merge, uc_merge_lend, uc_merge_rend. cbn [edits LStart LEnd RStart REnd]. reflexivity.
  Qed.

  (* ---- one iteration that merges across a gap without free lines *)
  Lemma hunify_step_merge : forall done (F : list edit) e (G' : gapd) e' (E1 : list edit) ls rs p q ce cre,
      is_emit e = false -> ok_inner G' -> touching G' = true ->
      unify_step (done, mkChunk (F ++ e :: map (@emit_edit T) (posts G')) ls (p + len (concat (posts G')))
                                rs (q + len (concat (posts G'))))
                 (mkChunk (map (@emit_edit T) (pres G') ++ e' :: E1)
                          (p + len (flat G') - len (concat (pres G'))) ce
                          (q + len (flat G') - len (concat (pres G'))) cre) =
      Ok (done, mkChunk (F ++ e :: map (@emit_edit T) (fuse_pieces G') ++ e' :: E1) ls ce rs cre).
  Proof.
    intros done F e G' e' E1 ls rs p q ce cre He Hok Ht.
    unfold touching in Ht. pose proof (slack_val T G') as Hsv. unfold slack in Hsv, Ht.
    unfold unify_step. cbn [fst snd LStart LEnd RStart REnd].
    set (P := len (concat (posts G'))) in *. set (Q := len (concat (pres G'))) in *.
    set (Fl := len (flat G')) in *.
    replace (uc_apart (p + Fl - Q) (p + P)) with false by (unfold uc_apart; lia).
    replace (uc_lap (p + Fl - Q) (p + P)) with (- (Fl - Q - P)) by (unfold uc_lap; lia).
    rewrite Hsv.
    destruct G' as [ly [m|u v w]]; destruct Hok as [Hly Hin]; cbn [fst snd] in *.
    - (* the contexts meet exactly: no overlap *)
      assert (m = []) by (apply len_zero; pose proof (len_nonneg _ m); lia). subst m.
      destruct ly as [|[a b] ly0]; [exfalso; apply Hin; reflexivity|].
      cbn [len length Z.of_nat Z.opp]. replace (uc_overlap 0) with false by reflexivity.
      cbn [bind fst snd].
      unfold posts, pres, fuse_pieces. cbn [fst snd inner_post inner_pre map rev].
      rewrite app_nil_r, !map_app. cbn [map app].
      replace (F ++ e :: map (@emit_edit T) (rev (map fst ly0)) ++ [emit_edit a])
        with ((F ++ e :: map (@emit_edit T) (rev (map fst ly0))) ++ [emit_edit a]) by lapp.
      rewrite (uc_fusion_both _ (fun c => Ok (done, c))). f_equal. f_equal. f_equal. lapp.
    - (* the latest layer overlaps in v *)
      assert (Hv0 : 0 < len v) by (destruct v; [congruence|lens; pose proof (len_nonneg _ v); lia]).
      rewrite Z.opp_involutive.
      replace (uc_overlap (len v)) with true by (unfold uc_overlap; lia).
      unfold posts, pres. cbn [fst snd inner_post inner_pre]. rewrite map_app. cbn [map app].
      replace (F ++ e :: map (@emit_edit T) (rev (map fst ly)) ++ [emit_edit (u ++ v)])
        with ((F ++ e :: map (@emit_edit T) (rev (map fst ly))) ++ [emit_edit (u ++ v)]) by lapp.
      rewrite uc_trim_gen; [|assumption|cbn [LStart]; lia].
      cbn [bind fst snd].
      destruct u as [|x u].
      + cbn [emit_opt]. rewrite app_nil_r.
        destruct ly as [|[a b] ly0].
        * (* the whole (only) post-context is removed: last now ends with e *)
          cbn [map rev app]. unfold fuse_pieces. cbn [fst snd map rev app].
          replace (F ++ [e]) with (F ++ [e]) by reflexivity.
          rewrite (uc_fusion_noend _ (fun c => Ok (done, c))) by assumption.
          f_equal. f_equal. f_equal. lapp.
        * (* the whole latest post-context is removed: last now ends with the layer before *)
          cbn [map rev fst snd]. rewrite map_app. cbn [map].
          replace (F ++ e :: map (@emit_edit T) (rev (map fst ly0)) ++ [emit_edit a])
            with ((F ++ e :: map (@emit_edit T) (rev (map fst ly0))) ++ [emit_edit a]) by lapp.
          rewrite (uc_fusion_both _ (fun c => Ok (done, c))).
          unfold fuse_pieces. cbn [fst snd map]. rewrite !map_app. cbn [map app].
          f_equal. f_equal. f_equal. lapp.
      + cbn [emit_opt].
        rewrite (uc_fusion_both _ (fun c => Ok (done, c))).
        unfold fuse_pieces. cbn [fst snd]. rewrite !map_app. cbn [map app].
        f_equal. f_equal. f_equal. lapp.
  Qed.

  Lemma ends_ok_join_list : forall (E M E' : list edit), ends_ok T E -> ends_ok T E' -> ends_ok T (E ++ M ++ E').
  Proof.
    intros E M E' [(e0 & E1 & -> & H0) _] [_ (E0' & e & -> & He)]. split.
    - exists e0, (E1 ++ M ++ E0' ++ [e]). split; [reflexivity|assumption].
    - exists ((e0 :: E1) ++ M ++ E0'), e. split; [lapp|assumption].
  Qed.

  Lemma un_aux_head_gap : forall (r : list hseg) G E, exists E' r', un_aux G E r = (G, E') :: r'.
  Proof.
    induction r as [|[G' E'] r IH]; intros; cbn [un_aux].
    - eauto.
    - destruct (touching G'); [apply IH|eauto].
  Qed.

  Lemma hchunks_ext : forall (s : list hseg) Gt l r l' r', l = l' -> r = r' -> hchunks l r s Gt = hchunks l' r' s Gt.
  Proof. intros; subst; reflexivity. Qed.

  Section Loop.
    Variable Gt : gapd.

    Lemma hunify_loop_ok : forall (r : list hseg) (G : gapd) E done lpos rpos,
        ends_ok T E ->
        Forall (fun x => ends_ok T (snd x) /\ ok_inner (fst x)) r ->
        exists st,
          unify_loop (done, hchunk_at lpos rpos G E (next_gapd r Gt))
                     (hchunks (lpos + len (flat G) + len (edits_consume E)) (rpos + len (flat G) + len (edits_produce E)) r Gt)
          = Ok st /\
          fst st ++ [snd st] = done ++ hchunks lpos rpos (un_aux G E r) Gt.
    Proof.
      induction r as [|[G' E'] r IH]; intros G E done lpos rpos HE Hr.
      - cbn [hchunks unify_loop un_aux next_gapd]. eexists. split; [reflexivity|]. reflexivity.
      - inversion Hr as [|? ? [HE' HG'] Hr']; subst. cbn [fst snd] in *.
        cbn [hchunks unify_loop un_aux next_gapd].
        set (le := lpos + len (flat G) + len (edits_consume E)).
        set (re := rpos + len (flat G) + len (edits_produce E)).
        destruct (touching G') eqn:Ht.
        + (* merged *)
          destruct HE as [HE0 (E0 & e & -> & He)].
          destruct HE' as [(e' & E1' & -> & He') HE'l].
          set (gn := next_gapd r Gt).
          set (F := ctx_edits (pres G) ++ E0).
          set (E1 := E1' ++ ctx_edits (posts gn)).
          set (ce := le + len (flat G') + len (edits_consume (e' :: E1')) + len (concat (posts gn))).
          set (cre := re + len (flat G') + len (edits_produce (e' :: E1')) + len (concat (posts gn))).
          assert (Hlast : hchunk_at lpos rpos G (E0 ++ [e]) G' =
                          mkChunk (F ++ e :: map (@emit_edit T) (posts G')) (lpos + len (flat G) - len (concat (pres G)))
                                  (le + len (concat (posts G')))
                                  (rpos + len (flat G) - len (concat (pres G))) (re + len (concat (posts G')))).
          { unfold hchunk_at, F, le, re. rewrite (ctx_edits_map T _ (ok_inner_posts_ne T G' HG')).
            f_equal; try reflexivity. lapp. }
          assert (Hc : hchunk_at le re G' (e' :: E1') gn =
                       mkChunk (map (@emit_edit T) (pres G') ++ e' :: E1) (le + len (flat G') - len (concat (pres G'))) ce
                               (re + len (flat G') - len (concat (pres G'))) cre).
          { unfold hchunk_at, E1, ce, cre. rewrite (ctx_edits_map T _ (ok_inner_pres_ne T G' HG')).
            f_equal; try reflexivity. }
          rewrite Hlast, Hc.
          rewrite hunify_step_merge; try assumption.
          cbn [bind].
          assert (Hnew : mkChunk (F ++ e :: map (@emit_edit T) (fuse_pieces G') ++ e' :: E1)
                                 (lpos + len (flat G) - len (concat (pres G))) ce
                                 (rpos + len (flat G) - len (concat (pres G))) cre =
                         hchunk_at lpos rpos G ((E0 ++ [e]) ++ map (@emit_edit T) (fuse_pieces G') ++ e' :: E1') gn).
          { unfold hchunk_at, F, E1, ce, cre, le, re.
            rewrite !consume_app, !produce_app, consume_map_emit, produce_map_emit, (fuse_concat T G' HG' Ht).
            f_equal; try lapp; lens; lia. }
          rewrite Hnew.
          destruct (IH G ((E0 ++ [e]) ++ map (@emit_edit T) (fuse_pieces G') ++ e' :: E1') done lpos rpos) as (st & Hst & Hres).
          { apply ends_ok_join_list; [split; [assumption|eauto]|split; [eauto|assumption]]. }
          { assumption. }
          exists st. split; [|assumption].
          rewrite <- Hst. f_equal. apply hchunks_ext; unfold le, re;
            rewrite ?consume_app, ?produce_app, ?consume_map_emit, ?produce_map_emit, ?(fuse_concat T G' HG' Ht); lens; lia.
        + (* kept apart *)
          unfold unify_step. cbn [fst snd].
          unfold touching, slack in Ht.
          replace (uc_apart (LStart (hchunk_at le re G' E' (next_gapd r Gt)))
                            (LEnd (hchunk_at lpos rpos G E G'))) with true
            by (unfold uc_apart, hchunk_at; cbn [LStart LEnd]; fold le; lia).
          cbn [bind].
          destruct (IH G' E' (done ++ [hchunk_at lpos rpos G E G']) le re HE' Hr') as (st & Hst & Hres).
          exists st. split; [exact Hst|].
          rewrite Hres. cbn [hchunks].
          destruct (un_aux_head_gap r G' E') as (E'' & r'' & Hhd). rewrite Hhd. cbn [next_gapd].
          rewrite <- Hhd. fold le. fold re. lapp.
    Qed.
  End Loop.

  Theorem hunify_ok : forall (s : list hseg) (Gt : gapd),
      hvalid s Gt ->
      unify_chunks (hchunks 1 1 s Gt) = Ok (hchunks 1 1 (un_segs s) Gt).
  Proof.
    intros [|[G E] r] Gt Hv; [reflexivity|]. destruct Hv as (_ & Hin & _ & Hends).
    inversion Hends as [|? ? HE Hr]; subst. cbn [snd] in HE.
    unfold unify_chunks. cbn [hchunks un_segs].
    replace (uc_empty _) with false.
    2:{ unfold uc_empty. lens. match goal with |- context [len ?l] => pose proof (len_nonneg _ l) end. lia. }
    cbn [zth Z.ltb Z.compare Z.to_nat nth_error]. unfold uc_rest_lo. rewrite drop_one. cbn [bind].
    destruct (hunify_loop_ok Gt r G E [] 1 1) as (st & Hst & Hres).
    - assumption.
    - pose proof (Forall_and Hr Hin) as H. eapply Forall_impl; [|exact H]. intros [G' E'] H12. exact H12.
    - rewrite Hst. cbn [bind]. rewrite Hres. reflexivity.
  Qed.

  (* ---- the merged description: same lines, still valid, every remaining gap has free lines *)
  Lemma un_aux_left : forall (r : list hseg) G E,
      Forall (fun x => ok_inner (fst x)) r ->
      hleft (un_aux G E r) = flat G ++ edits_consume E ++ hleft r.
  Proof.
    induction r as [|[G' E'] r IH]; intros G E Hr; cbn [un_aux].
    - unfold hleft. cbn. reflexivity.
    - inversion Hr as [|? ? HG' Hr']; subst. cbn [fst] in HG'.
      destruct (touching G') eqn:Ht.
      + rewrite IH by assumption. rewrite !consume_app, consume_map_emit, (fuse_concat T G' HG' Ht).
        unfold hleft. cbn [to_segs map segs_left fst snd]. lapp.
      + unfold hleft in *. cbn [to_segs map segs_left fst snd]. fold (to_segs (un_aux G' E' r)).
        rewrite IH by assumption. reflexivity.
  Qed.
  Lemma un_aux_right : forall (r : list hseg) G E,
      Forall (fun x => ok_inner (fst x)) r ->
      hright (un_aux G E r) = flat G ++ edits_produce E ++ hright r.
  Proof.
    induction r as [|[G' E'] r IH]; intros G E Hr; cbn [un_aux].
    - unfold hright. cbn. reflexivity.
    - inversion Hr as [|? ? HG' Hr']; subst. cbn [fst] in HG'.
      destruct (touching G') eqn:Ht.
      + rewrite IH by assumption. rewrite !produce_app, produce_map_emit, (fuse_concat T G' HG' Ht).
        unfold hright. cbn [to_segs map segs_right fst snd]. lapp.
      + unfold hright in *. cbn [to_segs map segs_right fst snd]. fold (to_segs (un_aux G' E' r)).
        rewrite IH by assumption. reflexivity.
  Qed.

  Lemma un_segs_left : forall (s : list hseg) Gt, hvalid s Gt -> hleft (un_segs s) = hleft s.
  Proof.
    intros [|[G E] r] Gt Hv; [reflexivity|]. destruct Hv as (_ & Hin & _). cbn [un_segs].
    rewrite un_aux_left by assumption. unfold hleft. cbn [to_segs map segs_left fst snd]. reflexivity.
  Qed.
  Lemma un_segs_right : forall (s : list hseg) Gt, hvalid s Gt -> hright (un_segs s) = hright s.
  Proof.
    intros [|[G E] r] Gt Hv; [reflexivity|]. destruct Hv as (_ & Hin & _). cbn [un_segs].
    rewrite un_aux_right by assumption. unfold hright. cbn [to_segs map segs_right fst snd]. reflexivity.
  Qed.

  (* apart: an inner gap with free lines *)
  Definition apart (G : gapd) : Prop := touching G = false.

  Lemma un_aux_inv : forall (r : list hseg) G E,
      ends_ok T E -> Forall (fun x => ends_ok T (snd x) /\ ok_inner (fst x)) r ->
      Forall (fun x => ends_ok T (snd x)) (un_aux G E r) /\
      Forall (fun x => ok_inner (fst x) /\ apart (fst x)) (tl (un_aux G E r)).
  Proof.
    induction r as [|[G' E'] r IH]; intros G E HE Hr; cbn [un_aux].
    - split; [constructor; [assumption|constructor]|constructor].
    - inversion Hr as [|? ? [HE' HG'] Hr']; subst. cbn [fst snd] in *.
      destruct (touching G') eqn:Ht.
      + apply IH; [|assumption]. apply ends_ok_join_list; assumption.
      + destruct (IH G' E' HE' Hr') as [H1 H2]. split; [constructor; assumption|].
        cbn [tl]. destruct (un_aux_head_gap r G' E') as (E'' & r'' & Hhd). rewrite Hhd in *. cbn [tl] in H2.
        constructor; [|assumption]. cbn [fst]. split; assumption.
  Qed.

  Lemma hvalid_un : forall (s : list hseg) Gt,
      hvalid s Gt ->
      hvalid (un_segs s) Gt /\ Forall (fun x => apart (fst x)) (tl (un_segs s)).
  Proof.
    intros [|[G E] r] Gt Hv; [split; [exact I|constructor]|].
    destruct Hv as (Hf & Hin & Hl & Hends). inversion Hends as [|? ? HE Hr]; subst. cbn [snd] in HE.
    cbn [un_segs].
    destruct (un_aux_inv r G E HE) as [H1 H2].
    { pose proof (Forall_and Hr Hin) as H. eapply Forall_impl; [|exact H]. intros [G' E'] H12. exact H12. }
    destruct (un_aux_head_gap r G E) as (E'' & r'' & Hhd). rewrite Hhd in *. cbn [tl] in H2.
    split.
    - cbn [hvalid]. split; [assumption|]. split; [|split; assumption].
      eapply Forall_impl; [|exact H2]. intros x [Hx _]. exact Hx.
    - cbn [tl]. eapply Forall_impl; [|exact H2]. intros x [_ Hx]. exact Hx.
  Qed.
End HistUnify.

Arguments apart {T} G.
