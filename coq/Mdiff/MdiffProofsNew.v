(* C13 proofs, part 1: New.  For every script that transforms Left into Right, the chunks New
   builds are the chunks [seg_chunks 1 1 segs] of a well-formed segment decomposition of
   (Left, Right), whose cores are the non-Emit edits of the script in order. *)
From Coq Require Import ZArith List Bool Lia ZifyBool.
Import ListNotations.
From Mds Require Import Gen.MdiffIdx Mdiff.MdiffModel Mdiff.MdiffSpec Mdiff.MdiffProofsBase.
Local Open Scope Z_scope.

Section New.
  Variable T : Type.
  Notation edit := (edit T).
  Notation chunk := (chunk T).

  (* a non-Emit edit that consumes or produces something *)
  Definition edit_ne (e : edit) : Prop :=
    is_emit e = false -> edit_consume e <> [] \/ edit_produce e <> [].

  (* [P] stands for "every non-Emit edit of the script is non-empty" (true of canonical scripts);
     only the clause that relates the chunks' edits to the script depends on it. *)
  Variable P : Prop.

  (* the loop invariant after the edits with left lines lp, right lines rp and changes ch:
     segs = the finished chunks, (g0, E) = the current chunk, gp = the lines emitted after it *)
  Definition new_inv (st : new_state T) (lp rp : list T) (ch : list edit) : Prop :=
    exists (segs : list (seg T)) (g0 : list T) (E : list edit) (gp : list T),
      ns_done st = seg_chunks 1 1 segs /\
      ns_cur st = chunk_at (1 + len (segs_left segs)) (1 + len (segs_right segs)) g0 E /\
      lp = segs_left segs ++ g0 ++ edits_consume E ++ gp /\
      rp = segs_right segs ++ g0 ++ edits_produce E ++ gp /\
      ns_lcur st = 1 + len lp /\ ns_rcur st = 1 + len rp /\
      segs_wf segs /\ no_emit E /\ (segs <> [] -> g0 <> []) /\
      flat_map snd segs ++ E = ch /\
      (P -> E = [] \/ nonempty_range E).

  Lemma new_init_inv : new_inv new_init [] [] [].
  Proof.
    exists [], [], [], []. cbn. unfold chunk_at, segs_wf, no_emit. cbn.
    repeat split; auto; intros; left; reflexivity.
  Qed.

  Lemma segs_wf_snoc : forall (segs : list (seg T)) g E,
      segs_wf segs -> core_wf E -> (segs <> [] -> g <> []) -> segs_wf (segs ++ [(g, E)]).
  Proof.
    intros segs g E [H1 H2] HE Hg. split.
    - apply Forall_app. split; [assumption|]. constructor; [assumption|constructor].
    - destruct segs as [|s segs]; cbn; [constructor|].
      apply Forall_app. split; [assumption|]. constructor; [|constructor]. cbn. apply Hg. discriminate.
  Qed.

  (* the head of the loop body: afterwards no emitted lines are pending *)
  Lemma new_open_inv : forall st lp rp ch,
      new_inv st lp rp ch ->
      exists (segs : list (seg T)) (g0 : list T) (E : list edit),
        new_open st = (seg_chunks 1 1 segs,
                       chunk_at (1 + len (segs_left segs)) (1 + len (segs_right segs)) g0 E) /\
        lp = segs_left segs ++ g0 ++ edits_consume E /\
        rp = segs_right segs ++ g0 ++ edits_produce E /\
        segs_wf segs /\ no_emit E /\ (segs <> [] -> g0 <> []) /\
        flat_map snd segs ++ E = ch /\
        (P -> E = [] \/ nonempty_range E).
  Proof.
    intros [done cur lcur rcur] lp rp ch
           (segs & g0 & E & gp & Hd & Hc & Hl & Hr & Hlc & Hrc & Hwf & HE & Hg & Hch & HP).
    cbn [ns_done ns_cur ns_lcur ns_rcur] in *. subst done cur lcur rcur.
    unfold new_open. cbn [ns_done ns_cur ns_lcur ns_rcur].
    assert (Hll : len lp = len (segs_left segs) + len g0 + len (edits_consume E) + len gp)
      by (rewrite Hl; lens; lia).
    assert (Hrl : len rp = len (segs_right segs) + len g0 + len (edits_produce E) + len gp)
      by (rewrite Hr; lens; lia).
    unfold chunk_at at 1 2. cbn [LStart LEnd RStart REnd edits].
    pose proof (len_nonneg _ gp) as Hgp0.
    destruct (new_gap _ _ _ _) eqn:Hgap.
    - (* a gap: gp is not empty *)
      assert (Hgpne : gp <> []).
      { intros ->. lens. unfold new_gap in Hgap. lia. }
      destruct (new_cur_nonempty _ _ _ _) eqn:Hne;
        unfold new_cur_nonempty, chunk_at in Hne; cbn [LStart LEnd RStart REnd] in Hne.
      + (* current chunk is not empty: it is finished, a new one starts *)
        exists (segs ++ [(g0, E)]), gp, [].
        rewrite seg_chunks_app, segs_left_app, segs_right_app. cbn [seg_chunks segs_left segs_right].
        rewrite ?app_nil_r. cbn [edits_consume edits_produce flat_map]. rewrite ?app_nil_r.
        split; [|split; [|split; [|split; [|split; [|split; [|split]]]]]].
        * f_equal. unfold chunk_at, new_set_lstart, new_set_lend, new_set_rstart, new_set_rend.
          cbn [zero_chunk edits edits_consume edits_produce flat_map]. f_equal; lens; lia.
        * rewrite Hl. lapp.
        * rewrite Hr. lapp.
        * apply segs_wf_snoc; try assumption. split; [assumption|].
          unfold new_cur_nonempty in Hne. unfold nonempty_range.
          destruct (edits_consume E); [|left; discriminate].
          destruct (edits_produce E); [|right; discriminate].
          lens. lia.
        * constructor.
        * intros _. assumption.
        * rewrite flat_map_app. cbn. rewrite ?app_nil_r. assumption.
        * intros _. left. reflexivity.
      + (* current chunk is empty: it is taken over *)
        assert (Hc0 : edits_consume E = []) by (apply len_zero; unfold new_cur_nonempty in Hne; lia).
        assert (Hp0 : edits_produce E = []) by (apply len_zero; unfold new_cur_nonempty in Hne; lia).
        exists segs, (g0 ++ gp), E.
        split; [|split; [|split; [|split; [|split; [|split; [|split]]]]]]; try assumption.
        * unfold chunk_at. f_equal. unfold new_set_lstart, new_set_lend, new_set_rstart, new_set_rend.
          rewrite Hc0, Hp0. f_equal; lens; lia.
        * rewrite Hl, Hc0. lapp.
        * rewrite Hr, Hp0. lapp.
        * intros Hs. specialize (Hg Hs). destruct g0; [congruence|discriminate].
    - (* no gap *)
      assert (gp = []) by (apply len_zero; unfold new_gap in Hgap; lia). subst gp.
      exists segs, g0, E. rewrite ?app_nil_r in *.
      repeat (split; try assumption).
  Qed.

  Lemma no_emit_snoc : forall (E : list edit) e, no_emit E -> is_emit e = false -> no_emit (E ++ [e]).
  Proof. intros. apply Forall_app. split; [assumption|]. constructor; [assumption|constructor]. Qed.

  Lemma new_step_inv : forall st e lp rp ch,
      (P -> edit_ne e) -> new_inv st lp rp ch ->
      new_inv (new_step st e) (lp ++ edit_consume e) (rp ++ edit_produce e) (ch ++ changes [e]).
  Proof.
    intros st e lp rp ch Hne Hinv.
    pose proof Hinv as (_ & _ & _ & _ & _ & _ & _ & _ & Hlc & Hrc & _).
    destruct (new_open_inv _ _ _ _ Hinv) as (segs & g0 & E & Hopen & Hl & Hr & Hwf & HE & Hg & Hch & HP).
    unfold new_step. rewrite Hopen. rewrite Hlc, Hrc. clear Hopen Hinv Hlc Hrc.
    unfold edit_ne, edit_consume, edit_produce, changes, non_emit, is_emit in *. cbn [filter].
    destruct (eop e) eqn:Hop; cbn [op_eqb negb] in *.
    - (* Drop *)
      exists segs, g0, (E ++ [e]), []. cbn [ns_done ns_cur ns_lcur ns_rcur].
      rewrite consume_app, produce_app, consume_one, produce_one.
      unfold edit_consume, edit_produce. rewrite Hop. rewrite ?app_nil_r.
      split; [reflexivity|]. split.
      { unfold chunk_at. cbn [edits LStart LEnd RStart REnd]. unfold new_addl_lend, new_drop_l.
        rewrite consume_app, produce_app, consume_one, produce_one. unfold edit_consume, edit_produce. rewrite Hop.
        f_equal; lens; lia. }
      split; [rewrite Hl; lapp|].
      split; [rewrite Hr; lapp|].
      split; [unfold new_addl_lcur, new_drop_l; lens; lia|].
      split; [reflexivity|].
      split; [assumption|]. split; [apply no_emit_snoc; [assumption|unfold is_emit; rewrite Hop; reflexivity]|].
      split; [assumption|]. split; [rewrite app_assoc, Hch; reflexivity|].
      intros HPP. right. unfold nonempty_range. rewrite consume_app, produce_app, consume_one, produce_one.
      unfold edit_consume, edit_produce. rewrite Hop.
      destruct (Hne HPP eq_refl) as [H|H]; [left|right]; intros Habs; apply app_eq_nil in Habs; tauto.
    - (* Emit *)
      exists segs, g0, E, (X e). cbn [ns_done ns_cur ns_lcur ns_rcur].
      split; [reflexivity|]. split; [reflexivity|].
      split; [rewrite Hl; lapp|].
      split; [rewrite Hr; lapp|].
      split; [unfold new_emit_lcur; lens; lia|].
      split; [unfold new_emit_rcur; lens; lia|].
      rewrite app_nil_r. repeat (split; try assumption).
    - (* Copy *)
      exists segs, g0, (E ++ [e]), []. cbn [ns_done ns_cur ns_lcur ns_rcur].
      rewrite consume_app, produce_app, consume_one, produce_one.
      unfold edit_consume, edit_produce. rewrite Hop. rewrite ?app_nil_r.
      split; [reflexivity|]. split.
      { unfold chunk_at. cbn [edits LStart LEnd RStart REnd]. unfold new_addr_rend, new_copy_r.
        rewrite consume_app, produce_app, consume_one, produce_one. unfold edit_consume, edit_produce. rewrite Hop.
        f_equal; lens; lia. }
      split; [rewrite Hl; lapp|].
      split; [rewrite Hr; lapp|].
      split; [reflexivity|].
      split; [unfold new_addr_rcur, new_copy_r; lens; lia|].
      split; [assumption|]. split; [apply no_emit_snoc; [assumption|unfold is_emit; rewrite Hop; reflexivity]|].
      split; [assumption|]. split; [rewrite app_assoc, Hch; reflexivity|].
      intros HPP. right. unfold nonempty_range. rewrite consume_app, produce_app, consume_one, produce_one.
      unfold edit_consume, edit_produce. rewrite Hop.
      destruct (Hne HPP eq_refl) as [H|H]; [left|right]; intros Habs; apply app_eq_nil in Habs; tauto.
    - (* Replace *)
      exists segs, g0, (E ++ [e]), []. cbn [ns_done ns_cur ns_lcur ns_rcur].
      rewrite consume_app, produce_app, consume_one, produce_one.
      unfold edit_consume, edit_produce. rewrite Hop. rewrite ?app_nil_r.
      split; [reflexivity|]. split.
      { unfold chunk_at. cbn [edits LStart LEnd RStart REnd].
        unfold new_addl_lend, new_addr_rend, new_repl_l, new_repl_r.
        rewrite consume_app, produce_app, consume_one, produce_one. unfold edit_consume, edit_produce. rewrite Hop.
        f_equal; lens; lia. }
      split; [rewrite Hl; lapp|].
      split; [rewrite Hr; lapp|].
      split; [unfold new_addl_lcur, new_repl_l; lens; lia|].
      split; [unfold new_addr_rcur, new_repl_r; lens; lia|].
      split; [assumption|]. split; [apply no_emit_snoc; [assumption|unfold is_emit; rewrite Hop; reflexivity]|].
      split; [assumption|]. split; [rewrite app_assoc, Hch; reflexivity|].
      intros HPP. right. unfold nonempty_range. rewrite consume_app, produce_app, consume_one, produce_one.
      unfold edit_consume, edit_produce. rewrite Hop.
      destruct (Hne HPP eq_refl) as [H|H]; [left|right]; intros Habs; apply app_eq_nil in Habs; tauto.
  Qed.

  Lemma new_fold_inv : forall es st lp rp ch,
      (P -> Forall edit_ne es) -> new_inv st lp rp ch ->
      new_inv (fold_left new_step es st) (lp ++ edits_consume es) (rp ++ edits_produce es) (ch ++ changes es).
  Proof.
    induction es as [|e es IH]; intros st lp rp ch Hne Hinv.
    - cbn. rewrite ?app_nil_r. assumption.
    - cbn [fold_left]. change (e :: es) with ([e] ++ es).
      rewrite consume_app, produce_app, changes_app, consume_one, produce_one, !app_assoc.
      apply IH.
      + intros HP. specialize (Hne HP). inversion Hne; assumption.
      + apply new_step_inv; [|assumption]. intros HP. specialize (Hne HP). inversion Hne; assumption.
  Qed.
End New.

Section NewMain.
  Variable T : Type.
  Notation edit := (edit T).

  (* New's chunks are the chunks of a well-formed segment decomposition of (L, R) *)
  Theorem new_chunks_segs : forall (L R : list T) (es : list edit),
      script_ok L R es ->
      exists (segs : list (seg T)) (gt : list T),
        new_chunks es = seg_chunks 1 1 segs /\
        L = segs_left segs ++ gt /\ R = segs_right segs ++ gt /\
        segs_wf segs /\
        (Forall (edit_ne T) es -> flat_map snd segs = changes es).
  Proof.
    intros L R es [[HL HR]|[-> ->]].
    2:{ exists [], R. cbn. unfold segs_wf. cbn. repeat split; auto. }
    pose proof (new_fold_inv T (Forall (edit_ne T) es) es new_init [] [] [] (fun H => H)
                             (new_init_inv T _)) as Hinv.
    cbn [app] in Hinv. rewrite HL, HR in Hinv.
    destruct Hinv as (segs & g0 & E & gp & Hd & Hc & Hl & Hr & _ & _ & Hwf & HE & Hg & Hch & HP).
    unfold new_chunks. rewrite Hd, Hc.
    unfold chunk_at at 1 2 3 4. cbn [LStart LEnd RStart REnd].
    destruct (new_last_empty _ _ _ _) eqn:Hlast.
    - (* the last chunk is empty and removed *)
      assert (Hc0 : edits_consume E = []) by (apply len_zero; unfold new_last_empty in Hlast; lia).
      assert (Hp0 : edits_produce E = []) by (apply len_zero; unfold new_last_empty in Hlast; lia).
      exists segs, (g0 ++ gp).
      split.
      { unfold new_trim_hi. lens. cbn [len length].
        replace (Z.to_nat (len (seg_chunks 1 1 segs) + (1 + 0) - 1)) with (length (seg_chunks 1 1 segs))
          by (unfold len; lia).
        apply firstn_app_exact. reflexivity. }
      split; [rewrite Hl, Hc0; lapp|].
      split; [rewrite Hr, Hp0; lapp|].
      split; [assumption|].
      intros HPP. destruct (HP HPP) as [->|[H|H]]; [rewrite app_nil_r in Hch; assumption|congruence|congruence].
    - exists (segs ++ [(g0, E)]), gp.
      rewrite seg_chunks_app, segs_left_app, segs_right_app. cbn [seg_chunks segs_left segs_right].
      rewrite ?app_nil_r.
      split; [f_equal; f_equal; unfold chunk_at; f_equal; lia|].
      split; [rewrite Hl; lapp|].
      split; [rewrite Hr; lapp|].
      split.
      { apply segs_wf_snoc; try assumption. split; [assumption|].
        unfold new_last_empty in Hlast. unfold nonempty_range.
        destruct (edits_consume E); [|left; discriminate].
        destruct (edits_produce E); [|right; discriminate].
        lens. lia. }
      intros _. rewrite flat_map_app. cbn. rewrite app_nil_r. assumption.
  Qed.
End NewMain.
