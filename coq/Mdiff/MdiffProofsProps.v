(* C13 proofs, part 4: what the chunks [ctx_chunks n] of a segment decomposition satisfy:
   every chunk consumes / produces its ranges (for every n, overlapping or not); when contexts of
   neighbouring chunks do not meet (always after New, and after Unify) the chunks are ascending,
   disjoint, not adjacent, and substituting them turns Left into Right; each is the New chunk plus
   at most n context lines; the non-context edits are those of the segments. *)
From Coq Require Import ZArith List Bool Lia ZifyBool.
Import ListNotations.
From Mds Require Import Gen.MdiffIdx Mdiff.MdiffModel Mdiff.MdiffSpec Mdiff.MdiffProofsBase
     Mdiff.MdiffProofsCtx Mdiff.MdiffProofsUnify.
Local Open Scope Z_scope.

Section Props.
  Variable T : Type.
  Notation edit := (edit T).
  Notation chunk := (chunk T).

  Lemma split3 : forall (g : list T) k j, (k + j <= length g)%nat ->
      exists mid, g = firstn k g ++ mid ++ skipn (length g - j) g.
  Proof.
    intros g k j H. exists (skipn k (firstn (length g - j) g)).
    rewrite app_assoc.
    replace (firstn k g) with (firstn k (firstn (length g - j) g))
      by (rewrite firstn_firstn; f_equal; lia).
    rewrite firstn_skipn. symmetry. apply firstn_skipn.
  Qed.

  Lemma next_gap_split_l : forall (r : list (seg T)) gt, exists rest, segs_left r ++ gt = next_gap r gt ++ rest.
  Proof. intros [|[g E] r] gt; cbn; [exists []; lapp|]. eexists. rewrite <- app_assoc. reflexivity. Qed.
  Lemma next_gap_split_r : forall (r : list (seg T)) gt, exists rest, segs_right r ++ gt = next_gap r gt ++ rest.
  Proof. intros [|[g E] r] gt; cbn; [exists []; lapp|]. eexists. rewrite <- app_assoc. reflexivity. Qed.

  Lemma consume_ctx : forall (a b : list T) (E : list edit),
      edits_consume (emit_opt a ++ E ++ emit_opt b) = a ++ edits_consume E ++ b.
  Proof. intros. rewrite !consume_app, !consume_emit_opt. reflexivity. Qed.
  Lemma produce_ctx : forall (a b : list T) (E : list edit),
      edits_produce (emit_opt a ++ E ++ emit_opt b) = a ++ edits_produce E ++ b.
  Proof. intros. rewrite !produce_app, !produce_emit_opt. reflexivity. Qed.

  (* ---- (A) every chunk is right, for every n *)
  Lemma ctx_chunk_ok : forall (L R : list T) n (lpre rpre g : list T) (E : list edit) (gn restl restr : list T) lpos rpos,
      L = lpre ++ g ++ edits_consume E ++ gn ++ restl ->
      R = rpre ++ g ++ edits_produce E ++ gn ++ restr ->
      lpos = 1 + len lpre -> rpos = 1 + len rpre ->
      chunk_ok L R (ctx_chunk_at n lpos rpos g E gn).
  Proof.
    intros L R n lpre rpre g E gn restl restr lpos rpos HL HR Hl Hr.
    pose proof (ctx_pre_split n g) as Hg. pose proof (ctx_post_split n gn) as Hgn.
    pose proof (len_ctx_pre n g) as Hlp. pose proof (len_ctx_post n gn) as Hlq.
    set (g1 := firstn (length g - ctx_k n g) g) in *. set (g2 := skipn (ctx_k n gn) gn) in *.
    set (pre := ctx_pre n g) in *. set (post := ctx_post n gn) in *.
    assert (Hgl : len g = len g1 + len pre) by (rewrite Hg at 1; lens; lia).
    assert (Hgnl : len gn = len post + len g2) by (rewrite Hgn at 1; lens; lia).
    pose proof (len_nonneg _ lpre). pose proof (len_nonneg _ rpre). pose proof (len_nonneg _ g1).
    pose proof (len_nonneg _ g2). pose proof (len_nonneg _ pre). pose proof (len_nonneg _ post).
    pose proof (len_nonneg _ restl). pose proof (len_nonneg _ restr).
    pose proof (len_nonneg _ (edits_consume E)). pose proof (len_nonneg _ (edits_produce E)).
    assert (HL' : L = (lpre ++ g1) ++ (pre ++ edits_consume E ++ post) ++ (g2 ++ restl)).
    { rewrite HL. rewrite Hg at 1. rewrite Hgn at 1. lapp. }
    assert (HR' : R = (rpre ++ g1) ++ (pre ++ edits_produce E ++ post) ++ (g2 ++ restr)).
    { rewrite HR. rewrite Hg at 1. rewrite Hgn at 1. lapp. }
    assert (HLl : len L = len lpre + len g1 + len pre + len (edits_consume E) + len post + len g2 + len restl)
      by (rewrite HL'; lens; lia).
    assert (HRl : len R = len rpre + len g1 + len pre + len (edits_produce E) + len post + len g2 + len restr)
      by (rewrite HR'; lens; lia).
    unfold chunk_ok, ctx_chunk_at. cbn [edits LStart LEnd RStart REnd]. fold pre. fold post.
    rewrite consume_ctx, produce_ctx.
    split; [lia|]. split; [lia|]. split; [lia|]. split; [lia|]. split.
    - rewrite HL'. symmetry. apply slice1_app; lens; lia.
    - rewrite HR'. symmetry. apply slice1_app; lens; lia.
  Qed.

  Lemma ctx_chunks_ok : forall (L R : list T) n gt (segs : list (seg T)) lpre rpre lpos rpos,
      L = lpre ++ segs_left segs ++ gt -> R = rpre ++ segs_right segs ++ gt ->
      lpos = 1 + len lpre -> rpos = 1 + len rpre ->
      Forall (chunk_ok L R) (ctx_chunks n lpos rpos segs gt).
  Proof.
    intros L R n gt. induction segs as [|[g E] r IH]; intros lpre rpre lpos rpos HL HR Hl Hr; cbn [ctx_chunks].
    - constructor.
    - cbn [segs_left segs_right] in HL, HR.
      destruct (next_gap_split_l r gt) as (restl & Hrl). destruct (next_gap_split_r r gt) as (restr & Hrr).
      constructor.
      + apply (ctx_chunk_ok L R n lpre rpre g E (next_gap r gt) restl restr); try assumption.
        * rewrite HL, <- Hrl. lapp.
        * rewrite HR, <- Hrr. lapp.
      + apply (IH (lpre ++ g ++ edits_consume E) (rpre ++ g ++ edits_produce E)).
        * rewrite HL. lapp.
        * rewrite HR. lapp.
        * lens. lia.
        * lens. lia.
  Qed.

  (* ---- contexts of neighbouring chunks do not meet *)
  Definition gap_free (n : Z) (s : seg T) : Prop := 2 * Z.max 0 (Z.min n (len (fst s))) < len (fst s).

  Lemma ctx_chunks_separated : forall n gt (segs : list (seg T)) lpos rpos,
      Forall (gap_free n) (tl segs) -> separated 1 (ctx_chunks n lpos rpos segs gt).
  Proof.
    intros n gt. induction segs as [|[g E] r IH]; intros lpos rpos Hgf; cbn [ctx_chunks]; [exact I|].
    destruct r as [|[g' E'] r']; [exact I|].
    cbn [tl] in Hgf. inversion Hgf as [|? ? Hg' Hr']; subst.
    specialize (IH (lpos + len g + len (edits_consume E)) (rpos + len g + len (edits_produce E))).
    cbn [ctx_chunks] in IH |- *. cbn [separated].
    unfold gap_free in Hg'. cbn [fst] in Hg'.
    pose proof (len_ctx_pre n g'). pose proof (len_ctx_post n g').
    split; [|split].
    - unfold ctx_chunk_at at 1 2. cbn [LStart LEnd next_gap]. lia.
    - unfold ctx_chunk_at at 1 2. cbn [RStart REnd next_gap]. lia.
    - apply IH. destruct r' as [|s r'']; [constructor|]. cbn [tl]. assumption.
  Qed.

  (* ---- (B) substituting the chunks *)
  Definition apply_from (L : list T) (cs : list chunk) (acc : list T) (pos : Z) : list T :=
    let st := fold_left (apply_step L) cs (acc, pos) in fst st ++ slice1 L (snd st) (len L + 1).
  Lemma apply_from_cons : forall L c cs acc pos,
      apply_from L (c :: cs) acc pos =
      apply_from L cs (acc ++ slice1 L pos (LStart c) ++ edits_produce (edits c)) (LEnd c).
  Proof. reflexivity. Qed.
  Lemma apply_from_nil : forall L acc pos, apply_from L [] acc pos = acc ++ slice1 L pos (len L + 1).
  Proof. reflexivity. Qed.

  Lemma apply_ctx_fold : forall (L : list T) n gt (r : list (seg T)) (g : list T) (E : list edit) lpre k acc lpos rpos,
      L = lpre ++ g ++ edits_consume E ++ segs_left r ++ gt ->
      lpos = 1 + len lpre ->
      (k + ctx_k n g <= length g)%nat ->
      Forall (gap_free n) r ->
      apply_from L (ctx_chunks n lpos rpos ((g, E) :: r) gt) acc (lpos + Z.of_nat k) =
      acc ++ skipn k g ++ edits_produce E ++ segs_right r ++ gt.
  Proof.
    intros L n gt. induction r as [|[g' E'] r' IH]; intros g E lpre k acc lpos rpos HL Hl Hk Hgf.
    - (* last chunk *)
      cbn [ctx_chunks next_gap segs_left segs_right app] in *.
      rewrite apply_from_cons, apply_from_nil.
      destruct (split3 g k (ctx_k n g) Hk) as (mid & Hg). fold (ctx_pre n g) in Hg.
      pose proof (ctx_post_split n gt) as Hgt.
      cbn [ctx_chunk_at edits LStart LEnd].
      set (pre := ctx_pre n g) in *. set (post := ctx_post n gt) in *.
      set (gk := firstn k g) in *. set (g2 := skipn (ctx_k n gt) gt) in *.
      assert (Hgk : len gk = Z.of_nat k) by (unfold gk; apply len_firstn; lia).
      assert (Hsk : skipn k g = mid ++ pre).
      { rewrite Hg at 1. apply skipn_app_exact. unfold gk. rewrite firstn_length. lia. }
      assert (Hgl : len g = len gk + len mid + len pre) by (rewrite Hg at 1; lens; lia).
      assert (HL' : L = (lpre ++ gk) ++ mid ++ (pre ++ edits_consume E ++ post ++ g2)).
      { rewrite HL. rewrite Hg at 1. rewrite Hgt at 1. lapp. }
      rewrite produce_ctx.
      replace (slice1 L (lpos + Z.of_nat k) (lpos + len g - len pre)) with mid
        by (rewrite HL'; symmetry; apply slice1_app; lens; lia).
      assert (HL'' : L = (lpre ++ g ++ edits_consume E ++ post) ++ g2 ++ []).
      { rewrite HL. rewrite Hgt at 1. lapp. }
      replace (slice1 L (lpos + len g + len (edits_consume E) + len post) (len L + 1)) with g2.
      2:{ rewrite HL'' at 1. symmetry. apply slice1_app; [lens; lia|]. rewrite HL''. lens. lia. }
      rewrite Hsk. rewrite Hgt at 1. lapp.
    - (* a chunk followed by another *)
      pose proof (Forall_inv Hgf) as Hg'. pose proof (Forall_inv_tail Hgf) as Hr'.
      unfold gap_free in Hg'. cbn [fst] in Hg'.
      cbn [segs_left segs_right] in *.
      set (le := lpos + len g + len (edits_consume E)).
      set (re := rpos + len g + len (edits_produce E)).
      change (ctx_chunks n lpos rpos ((g, E) :: (g', E') :: r') gt)
        with (ctx_chunk_at n lpos rpos g E g' :: ctx_chunks n le re ((g', E') :: r') gt).
      rewrite apply_from_cons.
      destruct (split3 g k (ctx_k n g) Hk) as (mid & Hg). fold (ctx_pre n g) in Hg.
      pose proof (ctx_post_split n g') as Hgn.
      pose proof (ctx_k_val n g') as Hkv. pose proof (ctx_k_le n g') as Hkle.
      pose proof (len_ctx_post n g') as Hpl.
      cbn [ctx_chunk_at edits LStart LEnd].
      set (pre := ctx_pre n g) in *. set (post := ctx_post n g') in *.
      set (gk := firstn k g) in *.
      assert (Hgk : len gk = Z.of_nat k) by (unfold gk; apply len_firstn; lia).
      assert (Hsk : skipn k g = mid ++ pre).
      { rewrite Hg at 1. apply skipn_app_exact. unfold gk. rewrite firstn_length. lia. }
      assert (Hgl : len g = len gk + len mid + len pre) by (rewrite Hg at 1; lens; lia).
      assert (HL' : L = (lpre ++ gk) ++ mid ++ (pre ++ edits_consume E ++ g' ++ edits_consume E' ++ segs_left r' ++ gt)).
      { rewrite HL. rewrite Hg at 1. lapp. }
      rewrite produce_ctx.
      replace (slice1 L (lpos + Z.of_nat k) (lpos + len g - len pre)) with mid
        by (rewrite HL'; symmetry; apply slice1_app; lens; lia).
      replace (lpos + len g + len (edits_consume E) + len post) with (le + Z.of_nat (ctx_k n g')) by (unfold le; lia).
      rewrite (IH g' E' (lpre ++ g ++ edits_consume E) (ctx_k n g')).
      + set (g2 := skipn (ctx_k n g') g') in *. rewrite Hsk. rewrite Hgn at 1. lapp.
      + rewrite HL. lapp.
      + unfold le. lens. lia.
      + unfold len in *. lia.
      + assumption.
  Qed.

  Lemma apply_ctx : forall (L R : list T) n gt (segs : list (seg T)),
      L = segs_left segs ++ gt -> R = segs_right segs ++ gt ->
      Forall (gap_free n) (tl segs) ->
      apply_chunks L (ctx_chunks n 1 1 segs gt) = R.
  Proof.
    intros L R n gt [|[g E] r] HL HR Hgf.
    - cbn in HL, HR. change (apply_chunks L (ctx_chunks n 1 1 [] gt)) with (apply_from L [] [] 1).
      rewrite apply_from_nil. subst. cbn [app].
      pose proof (slice1_app T [] gt [] 1 (len gt + 1)) as H. cbn [app] in H. rewrite app_nil_r in H.
      rewrite H; [reflexivity|reflexivity|lens; lia].
    - change (apply_chunks L (ctx_chunks n 1 1 ((g, E) :: r) gt))
        with (apply_from L (ctx_chunks n 1 1 ((g, E) :: r) gt) [] (1 + Z.of_nat 0)).
      rewrite (apply_ctx_fold L n gt r g E [] 0 [] 1 1); [rewrite HR; cbn [segs_right skipn]; lapp|rewrite HL; cbn [segs_left]; lapp|reflexivity| |exact Hgf].
      pose proof (ctx_k_le n g). lia.
  Qed.

  (* ---- (C) at most n context lines each side *)
  Lemma ctx_chunks_ctx_of : forall n gt (segs : list (seg T)) lpos rpos,
      0 <= n -> Forall2 (ctx_of n) (seg_chunks lpos rpos segs) (ctx_chunks n lpos rpos segs gt).
  Proof.
    intros n gt. induction segs as [|[g E] r IH]; intros lpos rpos Hn; cbn [seg_chunks ctx_chunks]; constructor.
    - exists (ctx_pre n g), (ctx_post n (next_gap r gt)).
      rewrite len_ctx_pre, len_ctx_post. pose proof (len_nonneg _ g). pose proof (len_nonneg _ (next_gap r gt)).
      unfold ctx_chunk_at, chunk_at. cbn [edits LStart LEnd RStart REnd].
      repeat split; try lia.
      + rewrite len_ctx_pre. lia.
      + rewrite len_ctx_pre. lia.
      + rewrite len_ctx_post. lia.
      + rewrite len_ctx_post. lia.
    - apply IH. assumption.
  Qed.

  (* ---- (D) the non-context edits *)
  Lemma ctx_chunks_changes : forall n gt (segs : list (seg T)) lpos rpos,
      changes (flat_map edits (ctx_chunks n lpos rpos segs gt)) = changes (flat_map snd segs).
  Proof.
    intros n gt. induction segs as [|[g E] r IH]; intros; cbn [ctx_chunks flat_map]; [reflexivity|].
    rewrite !changes_app, IH. unfold ctx_chunk_at. cbn [edits snd].
    rewrite !changes_app, !changes_emit_opt. cbn [app]. rewrite app_nil_r. reflexivity.
  Qed.

  Lemma merge_aux_changes : forall n (r : list (seg T)) g E,
      changes (flat_map snd (merge_aux T n g E r)) = changes (E ++ flat_map snd r).
  Proof.
    intros n. induction r as [|[g' E'] r IH]; intros; cbn [merge_aux].
    - reflexivity.
    - destruct (len g' <=? 2 * n).
      + rewrite IH. cbn [flat_map snd]. rewrite !changes_app.
        change (emit_edit g' :: E') with ([emit_edit g'] ++ E'). rewrite changes_app.
        cbn. lapp.
      + cbn [flat_map snd]. rewrite !changes_app, IH, changes_app. reflexivity.
  Qed.

  Lemma merge_segs_changes : forall n (segs : list (seg T)),
      changes (flat_map snd (merge_segs T n segs)) = changes (flat_map snd segs).
  Proof. intros n [|[g E] r]; [reflexivity|]. apply merge_aux_changes. Qed.

  Lemma segs_wf_changes : forall segs : list (seg T), segs_wf segs -> changes (flat_map snd segs) = flat_map snd segs.
  Proof.
    intros segs [H _]. induction H as [|[g E] r [Hne _] _ IH]; [reflexivity|].
    cbn [flat_map snd]. rewrite changes_app, IH. f_equal. apply no_emit_changes. assumption.
  Qed.

  (* ---- the decomposition after merging *)
  Definition wide (n : Z) (s : seg T) : Prop := 2 * n < len (fst s) /\ 0 < len (fst s).

  Lemma wide_gap_free : forall n s, wide n s -> gap_free n s.
  Proof. intros n s [H1 H2]. unfold gap_free. lia. Qed.

  Lemma merge_aux_wide : forall n (r : list (seg T)) g E,
      Forall (fun x => fst x <> []) r -> Forall (wide n) (tl (merge_aux T n g E r)).
  Proof.
    intros n. induction r as [|[g' E'] r IH]; intros g E Hr; cbn [merge_aux].
    - constructor.
    - inversion Hr as [|? ? Hg' Hr']; subst. cbn [fst] in Hg'.
      destruct (Z.leb_spec (len g') (2 * n)).
      + apply IH. assumption.
      + cbn [tl]. destruct (merge_aux_head_gap T n r g' E') as (E'' & r'' & Hhd).
        specialize (IH g' E' Hr'). rewrite Hhd in *. cbn [tl] in IH. constructor; [|assumption].
        split; cbn [fst]; [lia|]. destruct g'; [congruence|]. lens. pose proof (len_nonneg _ g'). lia.
  Qed.

  Lemma merge_segs_wide : forall n (segs : list (seg T)),
      segs_wf segs -> Forall (wide n) (tl (merge_segs T n segs)).
  Proof.
    intros n [|[g E] r] [_ H]; [constructor|]. cbn [merge_segs]. apply merge_aux_wide. exact H.
  Qed.

  Lemma merge_aux_left : forall n (r : list (seg T)) g E,
      segs_left (merge_aux T n g E r) = g ++ edits_consume E ++ segs_left r.
  Proof.
    intros n. induction r as [|[g' E'] r IH]; intros; cbn [merge_aux]; [reflexivity|].
    destruct (len g' <=? 2 * n).
    - rewrite IH. rewrite consume_app, consume_emit_cons. cbn [segs_left]. lapp.
    - cbn [segs_left]. rewrite IH. reflexivity.
  Qed.
  Lemma merge_aux_right : forall n (r : list (seg T)) g E,
      segs_right (merge_aux T n g E r) = g ++ edits_produce E ++ segs_right r.
  Proof.
    intros n. induction r as [|[g' E'] r IH]; intros; cbn [merge_aux]; [reflexivity|].
    destruct (len g' <=? 2 * n).
    - rewrite IH. rewrite produce_app, produce_emit_cons. cbn [segs_right]. lapp.
    - cbn [segs_right]. rewrite IH. reflexivity.
  Qed.
  Lemma merge_segs_left : forall n (segs : list (seg T)), segs_left (merge_segs T n segs) = segs_left segs.
  Proof. intros n [|[g E] r]; [reflexivity|]. apply merge_aux_left. Qed.
  Lemma merge_segs_right : forall n (segs : list (seg T)), segs_right (merge_segs T n segs) = segs_right segs.
  Proof. intros n [|[g E] r]; [reflexivity|]. apply merge_aux_right. Qed.

  Lemma wf_gap_free_0 : forall n (segs : list (seg T)), n <= 0 -> segs_wf segs -> Forall (gap_free n) (tl segs).
  Proof.
    intros n segs Hn [_ H]. eapply Forall_impl; [|exact H]. intros [g E] Hg. cbn [fst] in Hg.
    unfold gap_free. cbn [fst]. destruct g; [congruence|]. lens. pose proof (len_nonneg _ g). lia.
  Qed.
End Props.
