(* What "the chunks describe a correct patch from Left to Right" means (property C13), stated
   without reference to how mdiff computes anything.  Definitions only (Props and boolean
   checkers; the checkers are extracted and evaluated by the driver on the implementation's own
   chunks).  Line numbers are 1-based and ranges half-open, as in mdiff.Chunk. *)
From Coq Require Import ZArith List Bool.
Import ListNotations.
From Mds Require Import Mdiff.MdiffModel.
Local Open Scope Z_scope.

Section MdiffSpec.
  Variable T : Type.

  (* ---- what an edit consumes from the left input and produces on the right (slice.Edit doc) *)
  Definition edit_consume (e : edit T) : list T :=
    match eop e with Drop | Emit | Replace => X e | Copy => [] end.
  Definition edit_produce (e : edit T) : list T :=
    match eop e with Drop => [] | Emit => X e | Copy | Replace => Y e end.
  Definition edits_consume (es : list (edit T)) : list T := flat_map edit_consume es.
  Definition edits_produce (es : list (edit T)) : list T := flat_map edit_produce es.

  (* lines [s, e) of l, 1-based *)
  Definition slice1 {A : Type} (l : list A) (s e : Z) : list A :=
    firstn (Z.to_nat (e - s)) (skipn (Z.to_nat (s - 1)) l).

  (* an edit script for (L, R): executing it consumes L and produces R.  slice.EditScript returns
     the empty script for equal inputs. *)
  Definition script_ok (L R : list T) (es : list (edit T)) : Prop :=
    (edits_consume es = L /\ edits_produce es = R) \/ (es = [] /\ L = R).

  (* the chunk's edits consume exactly Left[LStart,LEnd) and produce exactly Right[RStart,REnd) *)
  Definition chunk_ok (L R : list T) (c : chunk T) : Prop :=
    1 <= LStart c <= LEnd c /\ LEnd c <= len L + 1 /\
    1 <= RStart c <= REnd c /\ REnd c <= len R + 1 /\
    edits_consume (edits c) = slice1 L (LStart c) (LEnd c) /\
    edits_produce (edits c) = slice1 R (RStart c) (REnd c).

  (* consecutive chunks are at least g lines apart on both sides: g = 0 ascending and disjoint,
     g = 1 also not adjacent *)
  Fixpoint separated (g : Z) (cs : list (chunk T)) : Prop :=
    match cs with
    | c :: (c' :: _) as r => LEnd c + g <= LStart c' /\ REnd c + g <= RStart c' /\ separated g r
    | _ => True
    end.

  (* replacing each chunk's left range by its output *)
  Definition apply_step (L : list T) (st : list T * Z) (c : chunk T) : list T * Z :=
    (fst st ++ slice1 L (snd st) (LStart c) ++ edits_produce (edits c), LEnd c).
  Definition apply_chunks (L : list T) (cs : list (chunk T)) : list T :=
    let st := fold_left (apply_step L) cs ([], 1) in
    fst st ++ slice1 L (snd st) (len L + 1).

  (* ---- context: c1 is c0 with at most n lines of context added before and after *)
  Definition emit_opt (x : list T) : list (edit T) :=
    match x with [] => [] | _ => [emit_edit x] end.
  Definition ctx_of (n : Z) (c0 c1 : chunk T) : Prop :=
    exists pre post : list T,
      len pre <= n /\ len post <= n /\
      edits c1 = emit_opt pre ++ edits c0 ++ emit_opt post /\
      LStart c1 = LStart c0 - len pre /\ RStart c1 = RStart c0 - len pre /\
      LEnd c1 = LEnd c0 + len post /\ REnd c1 = REnd c0 + len post.

  (* ---- what Unify does to the ranges: every maximal run of chunks each of which starts at or
     before the end of the one before it becomes one chunk, from the start of the run's first chunk
     to the end of its last (on both sides); chunks that are at least one line apart stay apart *)
  Definition span : Type := (Z * Z * Z * Z)%type.    (* LStart, LEnd, RStart, REnd *)
  Definition span_of (c : chunk T) : span := (LStart c, LEnd c, RStart c, REnd c).
  Fixpoint merge_spans (ls le rs re : Z) (cs : list (chunk T)) : list span :=
    match cs with
    | [] => [(ls, le, rs, re)]
    | c :: r =>
      if le <? LStart c then (ls, le, rs, re) :: merge_spans (LStart c) (LEnd c) (RStart c) (REnd c) r
      else merge_spans ls (LEnd c) rs (REnd c) r
    end.
  Definition unified_spans (cs : list (chunk T)) : list span :=
    match cs with
    | [] => []
    | c :: r => merge_spans (LStart c) (LEnd c) (RStart c) (REnd c) r
    end.

  Definition non_emit (e : edit T) : bool := negb (is_emit e).
  (* the edits of the script that change something, in order *)
  Definition changes (es : list (edit T)) : list (edit T) := filter non_emit es.

  (* ---- boolean checkers (for the driver) *)
  Variable eqb : T -> T -> bool.

  Fixpoint list_eqb (a b : list T) : bool :=
    match a, b with
    | [], [] => true
    | x :: a', y :: b' => eqb x y && list_eqb a' b'
    | _, _ => false
    end.

  Definition script_okb (L R : list T) (es : list (edit T)) : bool :=
    (list_eqb (edits_consume es) L && list_eqb (edits_produce es) R)
    || (match es with [] => true | _ => false end && list_eqb L R).

  Definition chunk_okb (L R : list T) (c : chunk T) : bool :=
    (1 <=? LStart c) && (LStart c <=? LEnd c) && (LEnd c <=? len L + 1) &&
    (1 <=? RStart c) && (RStart c <=? REnd c) && (REnd c <=? len R + 1) &&
    list_eqb (edits_consume (edits c)) (slice1 L (LStart c) (LEnd c)) &&
    list_eqb (edits_produce (edits c)) (slice1 R (RStart c) (REnd c)).

  Fixpoint separatedb (g : Z) (cs : list (chunk T)) : bool :=
    match cs with
    | c :: (c' :: _) as r => (LEnd c + g <=? LStart c') && (REnd c + g <=? RStart c') && separatedb g r
    | _ => true
    end.

  Definition applies (L R : list T) (cs : list (chunk T)) : bool := list_eqb (apply_chunks L cs) R.

  (* number of leading / trailing context lines of a chunk's edits *)
  Definition lead_ctx (es : list (edit T)) : Z :=
    match es with e :: _ => if is_emit e then len (X e) else 0 | [] => 0 end.
  Definition trail_ctx (es : list (edit T)) : Z := lead_ctx (rev es).
End MdiffSpec.

Arguments edit_consume {T} e.
Arguments edit_produce {T} e.
Arguments edits_consume {T} es.
Arguments edits_produce {T} es.
Arguments script_ok {T} L R es.
Arguments chunk_ok {T} L R c.
Arguments separated {T} g cs.
Arguments apply_step {T} L st c.
Arguments apply_chunks {T} L cs.
Arguments emit_opt {T} x.
Arguments ctx_of {T} n c0 c1.
Arguments span_of {T} c.
Arguments merge_spans {T} ls le rs re cs.
Arguments unified_spans {T} cs.
Arguments non_emit {T} e.
Arguments changes {T} es.
Arguments list_eqb {T} eqb a b.
Arguments script_okb {T} eqb L R es.
Arguments chunk_okb {T} eqb L R c.
Arguments separatedb {T} g cs.
Arguments applies {T} eqb L R cs.
Arguments lead_ctx {T} es.
Arguments trail_ctx {T} es.
