(* SPEC side of the round trip: what "the same changes at the same line ranges" means.
   - normal format: one chunk per change command, i.e. per non-Emit edit, at the positions the
     edit occupies inside its chunk ([normal_normalise]);
   - unified format: chunk for chunk, with the edits regrouped the way a hunk body can express
     them: a Replace is its Drop and Copy halves, neighbouring edits of the same kind are one
     edit, edits without lines vanish ([unified_normalise]).
   And the well-formedness of a chunk list with respect to the two files ([chunks_from]).
   Definitions only. *)
From Coq Require Import NArith ZArith List Bool.
Import ListNotations.
From Mds Require Export Mdiff.FormatBase Mdiff.FormatLines.
Local Open Scope Z_scope.

Section Spec.
  Variable T : Type.

  (* the lines an edit list takes from the left file and gives to the right file *)
  Definition consumed (es : list (edit T)) : list T :=
    flat_map (fun e => match eop e with Copy => [] | _ => X e end) es.
  Definition produced (es : list (edit T)) : list T :=
    flat_map (fun e => match eop e with Drop => [] | Emit => X e | _ => Y e end) es.

  (* ---- normal ---- *)
  Fixpoint normal_norm_edits (es : list (edit T)) (lpos rpos : Z) : list (chunk T) :=
    match es with
    | [] => []
    | e :: es' =>
      let n := llen (X e) in
      let m := llen (Y e) in
      match eop e with
      | Drop => mkChunk [mkEdit Drop (X e) []] lpos (lpos + n) rpos rpos
                :: normal_norm_edits es' (lpos + n) rpos
      | Emit => normal_norm_edits es' (lpos + n) (rpos + n)
      | Copy => mkChunk [mkEdit Copy [] (Y e)] lpos lpos rpos (rpos + m)
                :: normal_norm_edits es' lpos (rpos + m)
      | Replace => mkChunk [mkEdit Replace (X e) (Y e)] lpos (lpos + n) rpos (rpos + m)
                   :: normal_norm_edits es' (lpos + n) (rpos + m)
      end
    end.

  Definition normal_normalise (cs : list (chunk T)) : list (chunk T) :=
    flat_map (fun c => normal_norm_edits (edits c) (LStart c) (RStart c)) cs.

  (* ---- unified ---- *)
  (* put a run of lines of kind [o] in front of an already normalised edit list *)
  Definition push_run (o : op) (xs : list T) (acc : list (edit T)) : list (edit T) :=
    match xs with
    | [] => acc
    | _ =>
      match acc with
      | e :: acc' =>
        if op_eqb (eop e) o then
          match o with
          | Copy => mkEdit o (X e) (xs ++ Y e) :: acc'
          | _ => mkEdit o (xs ++ X e) (Y e) :: acc'
          end
        else (match o with Copy => mkEdit o [] xs | _ => mkEdit o xs [] end) :: acc
      | [] => [match o with Copy => mkEdit o [] xs | _ => mkEdit o xs [] end]
      end
    end.

  Fixpoint unified_norm_edits (es : list (edit T)) : list (edit T) :=
    match es with
    | [] => []
    | e :: es' =>
      match eop e with
      | Drop => push_run Drop (X e) (unified_norm_edits es')
      | Emit => push_run Emit (X e) (unified_norm_edits es')
      | Copy => push_run Copy (Y e) (unified_norm_edits es')
      | Replace => push_run Drop (X e) (push_run Copy (Y e) (unified_norm_edits es'))
      end
    end.

  Definition unified_normalise (cs : list (chunk T)) : list (chunk T) :=
    map (fun c => mkChunk (unified_norm_edits (edits c)) (LStart c) (LEnd c) (RStart c) (REnd c)) cs.

  (* ---- a chunk list that describes how [L] becomes [R] ----
     from line lpos of the left file and rpos of the right file on, the remaining files are
     [l] and [r]: an unchanged gap, then the lines the chunk consumes/produces, and so on;
     the recorded ranges are where those lines sit. *)
  Inductive chunks_from : Z -> Z -> list T -> list T -> list (chunk T) -> Prop :=
  | cf_nil : forall lpos rpos g, chunks_from lpos rpos g g []
  | cf_cons : forall lpos rpos g c cs l r,
      LStart c = lpos + llen g -> RStart c = rpos + llen g ->
      LEnd c = LStart c + llen (consumed (edits c)) ->
      REnd c = RStart c + llen (produced (edits c)) ->
      chunks_from (LEnd c) (REnd c) l r cs ->
      chunks_from lpos rpos (g ++ consumed (edits c) ++ l) (g ++ produced (edits c) ++ r) (c :: cs).

  Definition patch_ok (L R : list T) (cs : list (chunk T)) : Prop := chunks_from 1 1 L R cs.
End Spec.

Arguments consumed {T}. Arguments produced {T}. Arguments normal_norm_edits {T}.
Arguments normal_normalise {T}. Arguments push_run {T}. Arguments unified_norm_edits {T}.
Arguments unified_normalise {T}. Arguments chunks_from {T}. Arguments patch_ok {T}.
