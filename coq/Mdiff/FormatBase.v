(* Shared basics of the C14 slice: the edit/chunk types (the chunk model of C13), lines as byte
   lists, text <-> lines, small string functions (models of strings.Cut / CutPrefix / Fields).
   Definitions only. *)
From Coq Require Import NArith ZArith List Bool.
Import ListNotations.
From Mds Require Export Mdiff.Decimal.
Local Open Scope Z_scope.

(* ---- LOCAL copy of the C13 types (same names); replaced by the shared model when it is ready *)
Inductive op := Drop | Emit | Copy | Replace.
Record edit (T : Type) := mkEdit { eop : op; X : list T; Y : list T }.
Arguments mkEdit {T}. Arguments eop {T}. Arguments X {T}. Arguments Y {T}.
Record chunk (T : Type) := mkChunk { edits : list (edit T); LStart : Z; LEnd : Z; RStart : Z; REnd : Z }.
Arguments mkChunk {T}. Arguments edits {T}. Arguments LStart {T}. Arguments LEnd {T}.
Arguments RStart {T}. Arguments REnd {T}.
(* ---- end of local copy *)
