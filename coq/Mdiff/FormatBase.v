(* The C14 slice works on the shared chunk model of C13 (coq/Mdiff/MdiffModel.v: [chunk T] with
   [edits], [LStart], [LEnd], [RStart], [REnd]; the edit type [edit T] with [eop], [X], [Y] and
   [op] = Drop | Emit | Copy | Replace comes from Slice/EditLoop.v), instantiated at T := line. *)
From Mds Require Export Mdiff.MdiffModel Mdiff.Decimal.
