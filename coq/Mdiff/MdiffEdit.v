(* slice.Edit[T] as the mdiff model sees it.  This is a local copy of the type declared by the
   C11 slice (coq/Slice/EditLoop.v: same constructor, field and argument conventions), so that
   the mdiff model does not depend on the state of that development; MdiffCompose.v relates the
   two types when it plugs the model of slice.EditScript into [mdiff_new].  Definitions only. *)
From Coq Require Import List.
Import ListNotations.

(* EditOp: OpDrop '-', OpEmit '=', OpCopy '+', OpReplace '!' *)
Inductive op := Drop | Emit | Copy | Replace.

Definition op_eqb (a b : op) : bool :=
  match a, b with
  | Drop, Drop | Emit, Emit | Copy, Copy | Replace, Replace => true
  | _, _ => false
  end.

(* Edit[T]; a nil slice and an empty slice are both [] *)
Record edit (T : Type) := mkEdit { eop : op; X : list T; Y : list T }.
Arguments mkEdit {T} eop X Y.
Arguments eop {T} e.
Arguments X {T} e.
Arguments Y {T} e.
