(* The instance of the opaque timestamp tokens used by the extracted model: a timestamp is its
   own text in the default layout "2006-01-02 15:04:05.999999 -0700" ([] = the zero time);
   parsing accepts exactly the canonical spellings of that layout (what Time.Format writes).
   Definitions only. *)
From Coq Require Import NArith ZArith List Bool.
Import ListNotations.
From Mds Require Export Mdiff.ReaderModel Mdiff.ApplySpec Mdiff.FormatSpec.
From Mds Require Import Gen.MdiffSpan Gen.MdiffReadSpan.
Local Open Scope Z_scope.

Definition two (a b : N) : Z := 10 * digit_val a + digit_val b.

Fixpoint all_digitsb (s : bytes) : bool :=
  match s with [] => true | b :: s' => is_digit b && all_digitsb s' end.

(* " -0700" at the end *)
Definition valid_zone (s : bytes) : bool :=
  match s with
  | [sp; sg; a; b; c; d] =>
    N.eqb sp 32 && (N.eqb sg 43 || N.eqb sg 45) && all_digitsb [a; b; c; d]
    && (two a b <? 24) && (two c d <? 60)
  | _ => false
  end.

(* optional ".d{1,6}" not ending in 0, then the zone *)
Fixpoint valid_frac (n : nat) (s : bytes) (last : N) : bool :=
  match s with
  | b :: s' =>
    if is_digit b then
      match n with O => false | S n' => valid_frac n' s' b end
    else negb (N.eqb last 48) && valid_zone s
  | [] => false
  end.

Definition valid_timestamp (s : bytes) : bool :=
  match s with
  | y1 :: y2 :: y3 :: y4 :: d1 :: m1 :: m2 :: d2 :: a1 :: a2 :: sp :: h1 :: h2 :: c1 :: i1 :: i2 :: c2 :: s1 :: s2 :: rest =>
    all_digitsb [y1; y2; y3; y4; m1; m2; a1; a2; h1; h2; i1; i2; s1; s2]
    && N.eqb d1 45 && N.eqb d2 45 && N.eqb sp 32 && N.eqb c1 58 && N.eqb c2 58
    && (1 <=? two m1 m2) && (two m1 m2 <=? 12) && (1 <=? two a1 a2) && (two a1 a2 <=? 28)
    && (two h1 h2 <? 24) && (two i1 i2 <? 60) && (two s1 s2 <? 60)
    && match rest with
       | 46%N :: f :: rest' => is_digit f && valid_frac 5 rest' f
       | _ => valid_zone rest
       end
  | _ => false
  end.

Definition xtime := bytes.
Definition x_is_zero (t : xtime) : bool := is_nil t.
Definition x_format (t : xtime) : bytes := t.
Definition x_parse (s : bytes) : option xtime := if valid_timestamp s then Some s else None.

Definition x_normal (cs : list (chunk line)) : bytes := normal cs.
Definition x_unified v fi cs : bytes := unified x_is_zero x_format v fi cs.
Definition x_context fi cs : bytes := context x_is_zero x_format fi cs.
Definition x_read_normal (t : bytes) := read_normal t.
Definition x_read_unified v (t : bytes) := read_unified xtime [] x_parse v t.
Definition x_read_git v (t : bytes) := read_git_patch xtime [] x_parse v t.

(* the switches as facts of the code: sampled from the generated definitions *)
Definition gen_facts_pinned : bool :=
  (parse_span_omitted_hi =? 0)
  && forallb (fun s => forallb (fun e =>
        Bool.eqb (uspan_bare s e) (e - s =? 1) && (uspan_single s e =? s)
        && (uspan_first s e =? s) && (uspan_count s e =? e - s))
      [s - 1; s; s + 1; s + 2; s + 7]) [0; 1; 2; 3; 10].

Definition x_normal_normalise (cs : list (chunk line)) := normal_normalise cs.
Definition x_unified_normalise (cs : list (chunk line)) := unified_normalise cs.
(* [strict = true]: the appliers of the theorems; [false]: the right-hand numbers are not checked *)
Definition x_apply_normal (strict : bool) (l : list line) (t : bytes) := apply_normal_gen strict l (split_lines t).
Definition x_apply_unified (strict : bool) (l : list line) (t : bytes) := apply_unified_gen strict l (split_lines t).
Definition x_apply_context (strict : bool) (l : list line) (t : bytes) := apply_context_gen strict l (split_lines t).
