(* The normal rendering of a chunk list that describes how L becomes R, applied to L by the
   reference applier for the normal format, gives R.  Holds on the code as it stands. *)
From Coq Require Import NArith ZArith List Bool Lia.
Import ListNotations.
From Mds Require Import Mdiff.ReaderModel Mdiff.FormatSpec Mdiff.FormatProofs Mdiff.ReaderNormalProofs
  Mdiff.ApplySpec.
From Mds Require Import Gen.MdiffSpan.
Local Open Scope Z_scope.

(* ---- list helpers ---- *)
Lemma take_z_app {A} (a b : list A) k : k = llen a -> take_z k (a ++ b) = a.
Proof.
  intros ->. unfold take_z, llen. rewrite Nat2Z.id.
  rewrite firstn_app, Nat.sub_diag, firstn_all. cbn. apply app_nil_r.
Qed.

Lemma drop_z_app {A} (a b : list A) k : k = llen a -> drop_z k (a ++ b) = b.
Proof.
  intros ->. unfold drop_z, llen. rewrite Nat2Z.id.
  rewrite skipn_app, Nat.sub_diag, skipn_all. reflexivity.
Qed.

Lemma lines_eqb_refl a : lines_eqb a a = true.
Proof. induction a as [|x a IH]; cbn; [reflexivity|]. rewrite bytes_eqb_refl, IH. reflexivity. Qed.

Lemma take_prefixed_write p xs rest :
  match rest with [] => True | l :: _ => cut_prefix p l = None end ->
  take_prefixed p (write_lines p xs ++ rest) = (xs, rest).
Proof.
  intros Hr. induction xs as [|x xs IH]; cbn [write_lines map app].
  - destruct rest as [|l rest]; [reflexivity|]. cbn [take_prefixed]. rewrite Hr. reflexivity.
  - cbn [take_prefixed]. rewrite cut_prefix_app. unfold write_lines in IH. rewrite IH. reflexivity.
Qed.

Lemma take_prefixed_stop p rest :
  match rest with [] => True | l :: _ => cut_prefix p l = None end ->
  take_prefixed p rest = ([], rest).
Proof. apply (take_prefixed_write p [] rest). Qed.

Lemma head_stops_lt rest : head_stops rest ->
  match rest with [] => True | l :: _ => cut_prefix s_lt l = None end.
Proof. destruct rest; [auto|]. intros (H & _ & _). exact H. Qed.
Lemma head_stops_gt rest : head_stops rest ->
  match rest with [] => True | l :: _ => cut_prefix s_gt l = None end.
Proof. destruct rest; [auto|]. intros (_ & H & _). exact H. Qed.
Lemma head_stops_sep rest : head_stops rest ->
  match rest with l :: p' => if bytes_eqb l s_sep then p' else rest | [] => rest end = rest.
Proof. destruct rest; [auto|]. intros (_ & _ & H). rewrite H. reflexivity. Qed.

Lemma index_cmd_found a c b : span_bytes a -> cmd_byte c -> index_cmd (a ++ c :: b) = Some (a, c, b).
Proof.
  intros Ha Hc. induction a as [|x a IH]; cbn [app index_cmd].
  - destruct Hc as [->|[->| ->]]; reflexivity.
  - inversion Ha as [|? ? Hx Ha']; subst.
    replace (N.eqb x 97 || N.eqb x 99 || N.eqb x 100) with false.
    + rewrite IH by exact Ha'. reflexivity.
    + symmetry. apply orb_false_iff. split; [apply orb_false_iff; split|];
        apply N.eqb_neq; intros ->; discriminate Hx.
Qed.

Lemma parse_range_itoa t : parse_range (itoa t) = Some (t, t).
Proof.
  unfold parse_range. rewrite cut_byte_none by (apply numeral_notin; reflexivity).
  rewrite itoa_atoi. reflexivity.
Qed.

Lemma parse_range_dspan s e : parse_range (dspan s e) = Some (s, e - 1).
Proof.
  unfold dspan, dspan_bare, dspan_single, dspan_lo, dspan_hi.
  destruct (e - s =? 1) eqn:E.
  - apply Z.eqb_eq in E. rewrite parse_range_itoa. f_equal. f_equal. lia.
  - unfold parse_range. cbn [app]. rewrite cut_byte_first by (apply numeral_notin; reflexivity).
    rewrite !itoa_atoi. reflexivity.
Qed.

(* ---- the edits of one chunk; [g] = unchanged lines the applier has not copied yet ---- *)
(* the strictness clause of the applier vanishes when its comparisons hold *)
Ltac strict_ok :=
  match goal with
  | |- context [?s && ?b] =>
    match b with
    | context [negb] =>
      replace (s && b) with false;
      [| symmetry;
         repeat match goal with
                | |- context [?x =? ?y] =>
                  replace (x =? y) with true by (symmetry; apply Z.eqb_eq; rewrite ?llen_nil; lia)
                end;
         cbn [is_nil negb orb]; apply andb_false_r ]
    end
  end.

Lemma apply_normal_edits strict es : forall g lpos rpos pos opos rest_p remL fuel K,
  lpos - 1 = pos + llen g -> rpos - 1 = opos + llen g -> Forall normal_edit_ok es -> head_stops rest_p ->
  (fuel > length (normal_edits es lpos rpos ++ rest_p))%nat ->
  (forall g' pos' opos' fuel', lpos + llen (consumed es) - 1 = pos' + llen g' ->
     rpos + llen (produced es) - 1 = opos' + llen g' ->
     (fuel' > length rest_p)%nat ->
     apply_normal_loop strict fuel' rest_p pos' opos' (g' ++ remL) = Some (g' ++ K)) ->
  apply_normal_loop strict fuel (normal_edits es lpos rpos ++ rest_p) pos opos (g ++ consumed es ++ remL)
  = Some (g ++ produced es ++ K).
Proof.
  induction es as [|e es IH]; intros g lpos rpos pos opos rest_p remL fuel K Hpos Hopos Hok Hrest Hfuel HK.
  - cbn [normal_edits app consumed produced flat_map] in *.
    apply HK; [rewrite llen_nil; lia | rewrite llen_nil; lia | exact Hfuel].
  - inversion Hok as [|? ? He Hok']; subst.
    rewrite consumed_cons, produced_cons. rewrite consumed_cons, produced_cons in HK.
    revert Hfuel. cbn [normal_edits]. unfold normal_edit_ok in He.
    pose proof (llen_nonneg g) as Hg.
    destruct (eop e) eqn:Eop; intros Hfuel.
    + (* Drop *)
      unfold normal_drop_lo, normal_drop_hi, normal_drop_target, normal_drop_lpos in *.
      set (n := llen (X e)) in *. assert (Hn : 1 <= n) by (apply llen_pos; exact He).
      set (tail := normal_edits es (lpos + n) rpos ++ rest_p).
      assert (Htail : head_stops tail) by (apply normal_edits_head; exact Hrest).
      destruct fuel as [|f]; [cbn in Hfuel; lia|].
      rewrite <- app_comm_cons, <- app_assoc. fold tail.
      cbn [apply_normal_loop app].
      rewrite index_cmd_found by (first [apply dspan_span | right; right; reflexivity]).
      rewrite parse_range_dspan, parse_range_itoa.
      rewrite take_prefixed_write by (apply head_stops_lt; exact Htail).
      rewrite head_stops_sep by exact Htail.
      rewrite take_prefixed_stop by (apply head_stops_gt; exact Htail).
      change (N.eqb 100 97) with false. change (N.eqb 100 100) with true. cbn iota. cbn zeta.
      strict_ok.
      assert (Hrem : g ++ (X e ++ consumed es) ++ remL = (g ++ X e) ++ consumed es ++ remL)
        by (rewrite <- !app_assoc; reflexivity).
      assert (Hlen : llen (g ++ (X e ++ consumed es) ++ remL) = llen g + n + llen (consumed es ++ remL))
        by (rewrite Hrem, !llen_app; fold n; lia).
      pose proof (llen_nonneg (consumed es ++ remL)) as Hc.
      replace (lpos - 1 <? pos) with false by (symmetry; apply Z.ltb_ge; lia).
      replace (lpos + n - 1 <? lpos - 1) with false by (symmetry; apply Z.ltb_ge; lia).
      replace (llen (g ++ (X e ++ consumed es) ++ remL) <? lpos + n - 1 - pos) with false
        by (symmetry; apply Z.ltb_ge; lia).
      rewrite (drop_z_app g) by lia.
      rewrite <- app_assoc. rewrite (take_z_app (X e)) by (fold n; lia).
      rewrite lines_eqb_refl. cbn [orb negb].
      replace (drop_z (lpos + n - 1 - pos) (g ++ X e ++ consumed es ++ remL)) with (consumed es ++ remL)
        by (rewrite (app_assoc g (X e)); symmetry; apply drop_z_app; rewrite llen_app; fold n; lia).
      rewrite (take_z_app g) by lia.
      assert (Hf : (f > length tail)%nat).
      { unfold tail. cbn [app length] in Hfuel. rewrite !app_length in Hfuel.
        rewrite app_length. lia. }
      assert (E : apply_normal_loop strict f tail (lpos + n - 1) (opos + (lpos - 1 - pos) + llen (@nil line))
                    (consumed es ++ remL) = Some (produced es ++ K)).
      { apply (IH [] (lpos + n) rpos (lpos + n - 1) _ rest_p remL f K); try assumption.
        - rewrite llen_nil. lia.
        - rewrite !llen_nil. lia.
        - intros g' pos' opos' fuel' H1 H2 H3. apply HK; [| |exact H3].
          + rewrite llen_app. fold n. lia.
          + rewrite llen_app, llen_nil. lia. }
      rewrite E. reflexivity.
    + (* Emit *)
      unfold normal_emit_lpos, normal_emit_rpos in *.
      rewrite <- (app_assoc (X e)). rewrite (app_assoc g (X e)).
      rewrite <- (app_assoc (X e) (produced es)). rewrite (app_assoc g (X e) (produced es ++ K)).
      apply IH; try assumption.
      * rewrite llen_app. lia.
      * rewrite llen_app. lia.
      * intros g' pos' opos' fuel' H1 H2 H3. apply HK; [| |exact H3]; rewrite llen_app; lia.
    + (* Copy *)
      unfold normal_copy_target, normal_copy_lo, normal_copy_hi, normal_copy_rpos in *.
      set (m := llen (Y e)) in *.
      set (tail := normal_edits es lpos (rpos + m) ++ rest_p).
      assert (Htail : head_stops tail) by (apply normal_edits_head; exact Hrest).
      destruct fuel as [|f]; [cbn in Hfuel; lia|].
      rewrite <- app_comm_cons, <- app_assoc. fold tail.
      cbn [apply_normal_loop app].
      rewrite index_cmd_found by (first [apply itoa_span | left; reflexivity]).
      rewrite parse_range_itoa, parse_range_dspan.
      assert (Hgt : forall ys, take_prefixed s_lt (write_lines s_gt ys ++ tail) = ([], write_lines s_gt ys ++ tail)).
      { intros ys. apply take_prefixed_stop. destruct ys; [apply head_stops_lt; exact Htail | reflexivity]. }
      rewrite Hgt.
      assert (Hsep : forall ys, match write_lines s_gt ys ++ tail with
                                | l :: p' => if bytes_eqb l s_sep then p' else write_lines s_gt ys ++ tail
                                | [] => write_lines s_gt ys ++ tail end = write_lines s_gt ys ++ tail).
      { intros ys. destruct ys; [apply head_stops_sep; exact Htail | reflexivity]. }
      rewrite Hsep.
      rewrite take_prefixed_write by (apply head_stops_gt; exact Htail).
      change (N.eqb 97 97) with true. cbn iota. cbn zeta.
      cbn [app]. fold m.
      strict_ok.
      pose proof (llen_nonneg (consumed es ++ remL)) as Hc.
      replace (lpos - 1 <? pos) with false by (symmetry; apply Z.ltb_ge; lia).
      replace (llen (g ++ consumed es ++ remL) <? lpos - 1 - pos) with false
        by (symmetry; apply Z.ltb_ge; rewrite llen_app; lia).
      cbn [orb].
      rewrite (drop_z_app g) by lia. rewrite (take_z_app g) by lia.
      assert (Hf : (f > length tail)%nat).
      { unfold tail. cbn [app length] in Hfuel. rewrite !app_length in Hfuel.
        rewrite app_length. lia. }
      assert (E : apply_normal_loop strict f tail (lpos - 1) (opos + (lpos - 1 - pos) + m) (consumed es ++ remL)
                  = Some (produced es ++ K)).
      { apply (IH [] lpos (rpos + m) (lpos - 1) _ rest_p remL f K); try assumption.
        - rewrite llen_nil. lia.
        - rewrite llen_nil. lia.
        - intros g' pos' opos' fuel' H1 H2 H3. apply HK; [| |exact H3].
          + cbn [app]. lia.
          + rewrite llen_app. fold m. lia. }
      rewrite E. rewrite <- app_assoc. reflexivity.
    + (* Replace *)
      unfold normal_repl_llo, normal_repl_lhi, normal_repl_rlo, normal_repl_rhi,
        normal_repl_lpos, normal_repl_rpos in *.
      destruct He as [Hx Hy].
      set (n := llen (X e)) in *. assert (Hn : 1 <= n) by (apply llen_pos; exact Hx).
      set (m := llen (Y e)) in *.
      set (tail := normal_edits es (lpos + n) (rpos + m) ++ rest_p).
      assert (Htail : head_stops tail) by (apply normal_edits_head; exact Hrest).
      destruct fuel as [|f]; [cbn in Hfuel; lia|].
      rewrite <- app_comm_cons, <- !app_assoc. fold tail.
      cbn [apply_normal_loop app].
      rewrite index_cmd_found by (first [apply dspan_span | right; left; reflexivity]).
      rewrite !parse_range_dspan.
      rewrite take_prefixed_write by reflexivity.
      change (bytes_eqb s_sep s_sep) with true. cbn iota.
      rewrite take_prefixed_write by (apply head_stops_gt; exact Htail).
      change (N.eqb 99 97) with false. change (N.eqb 99 100) with false. cbn iota. cbn zeta. fold m.
      strict_ok.
      assert (Hlen : llen (g ++ X e ++ consumed es ++ remL) = llen g + n + llen (consumed es ++ remL))
        by (rewrite !llen_app; fold n; lia).
      pose proof (llen_nonneg (consumed es ++ remL)) as Hc.
      replace (lpos - 1 <? pos) with false by (symmetry; apply Z.ltb_ge; lia).
      replace (lpos + n - 1 <? lpos - 1) with false by (symmetry; apply Z.ltb_ge; lia).
      replace (llen (g ++ X e ++ consumed es ++ remL) <? lpos + n - 1 - pos) with false
        by (symmetry; apply Z.ltb_ge; lia).
      rewrite (drop_z_app g) by lia.
      rewrite (take_z_app (X e)) by (fold n; lia).
      rewrite lines_eqb_refl. cbn [orb negb].
      replace (drop_z (lpos + n - 1 - pos) (g ++ X e ++ consumed es ++ remL)) with (consumed es ++ remL)
        by (rewrite (app_assoc g (X e)); symmetry; apply drop_z_app; rewrite llen_app; fold n; lia).
      rewrite (take_z_app g) by lia.
      assert (Hf : (f > length tail)%nat).
      { unfold tail. cbn [app length] in Hfuel. rewrite !app_length in Hfuel. cbn [length] in Hfuel.
        rewrite !app_length in Hfuel. rewrite app_length. lia. }
      assert (E : apply_normal_loop strict f tail (lpos + n - 1) (opos + (lpos - 1 - pos) + m) (consumed es ++ remL)
                  = Some (produced es ++ K)).
      { apply (IH [] (lpos + n) (rpos + m) (lpos + n - 1) _ rest_p remL f K); try assumption.
        - rewrite llen_nil. lia.
        - rewrite llen_nil. lia.
        - intros g' pos' opos' fuel' H1 H2 H3. apply HK; [| |exact H3].
          + rewrite llen_app. fold n. lia.
          + rewrite llen_app. fold m. lia. }
      rewrite E. reflexivity.
Qed.

(* ---- all chunks ---- *)
Lemma apply_normal_chunks strict cs : forall lpos rpos l r,
  chunks_from lpos rpos l r cs -> normal_ok cs ->
  forall g pos opos fuel, lpos - 1 = pos + llen g -> rpos - 1 = opos + llen g ->
  (fuel > length (normal_lines cs))%nat ->
  apply_normal_loop strict fuel (normal_lines cs) pos opos (g ++ l) = Some (g ++ r).
Proof.
  intros lpos rpos l r H. induction H as [lpos rpos g0 | lpos rpos g0 c cs l r HL HR HLe HRe Hcf IH];
    intros Hok g pos opos fuel Hpos Hopos Hfuel.
  - destruct fuel; [cbn in Hfuel; lia|]. reflexivity.
  - inversion Hok as [|? ? (Hl1 & Hr1 & He & _ & _) Hok']; subst.
    unfold normal_lines, normal_chunk_lines, normal_lpos_init, normal_rpos_init in *. cbn [flat_map] in *.
    rewrite (app_assoc g g0). rewrite (app_assoc g g0 (produced (edits c) ++ r)).
    assert (Hh : head_stops (flat_map (fun c => normal_edits (edits c) (LStart c) (RStart c)) cs)).
    { pose proof (normal_lines_head cs [] I) as H. rewrite app_nil_r in H. exact H. }
    apply apply_normal_edits; try assumption.
    + rewrite llen_app. lia.
    + rewrite llen_app. lia.
    + intros g' pos' opos' fuel' H1 H2 H3. apply IH; [exact Hok' | lia | lia | exact H3].
Qed.

Theorem apply_normal_lines strict L R cs :
  patch_ok L R cs -> normal_ok cs -> apply_normal_gen strict L (normal_lines cs) = Some R.
Proof.
  intros H Hok. unfold apply_normal_gen.
  apply (apply_normal_chunks strict cs 1 1 L R H Hok [] 0 0); [reflexivity | reflexivity | lia].
Qed.

(* byte level: the text Normal writes, split into lines the way a reader of the file would *)
Theorem apply_normal_text_gen strict L R cs :
  patch_ok L R cs -> normal_ok cs -> lines_nf cs ->
  apply_normal_gen strict L (split_lines (normal cs)) = Some R.
Proof.
  intros H Hok Hnf. unfold normal.
  rewrite split_join_lines by (apply normal_lines_nf; exact Hnf).
  apply apply_normal_lines; assumption.
Qed.

Theorem apply_normal_text L R cs :
  patch_ok L R cs -> normal_ok cs -> lines_nf cs ->
  apply_normal L (split_lines (normal cs)) = Some R.
Proof. apply apply_normal_text_gen. Qed.
