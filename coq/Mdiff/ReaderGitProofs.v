(* ReadGitPatch: git-style wrappers around unified renderings are skipped.  The text is a
   preamble (commit metadata: no line starts with "diff "), then per file a "diff ..." line,
   further header lines (none starts with "--- "), and the Unified rendering with its file
   header.  Reading returns one patch per file with the header and the normalised chunks. *)
From Coq Require Import NArith ZArith List Bool Lia.
Import ListNotations.
From Mds Require Import Mdiff.ReaderModel Mdiff.FormatSpec Mdiff.FormatProofs Mdiff.ReaderNormalProofs
  Mdiff.ReaderUnifiedProofs.
From Mds Require Import Gen.MdiffReadSpan.
Local Open Scope Z_scope.

Definition git_stop (rest : list line) : Prop :=
  match rest with [] => True | l :: _ => has_prefix s_diff l = true end.

Lemma diff_line_head d : has_prefix s_diff d = true -> exists t, d = 100%N :: t.
Proof.
  destruct d as [|c t]; [discriminate|]. unfold has_prefix, s_diff. cbn [cut_prefix].
  destruct (N.eqb 100 c) eqn:E; [|discriminate]. apply N.eqb_eq in E. subst c. intros _. eexists. reflexivity.
Qed.

Lemma read_uchunk_last v c d rest :
  chunk_fits c ->
  uspan_omitted_count_zero v = false \/ no_one_line_side c ->
  has_prefix s_diff d = true ->
  read_uchunk v (uchunk_lines v c ++ d :: rest) = UUnexpected (norm_chunk c) (d :: rest).
Proof.
  intros (Hf1 & Hf2 & Hf3 & Hf4) Hv Hd. destruct (diff_line_head d Hd) as (t & ->).
  unfold uchunk_lines. cbn [app read_uchunk].
  rewrite fields_uhunk_header. unfold nth_field. cbn [nth].
  replace (read_uchunk_min_fields _ _ _) with false by (unfold read_uchunk_min_fields; reflexivity).
  rewrite read_uspan_uspan by (first [assumption | destruct Hv as [Hv|[Hv _]]; [left; exact Hv | right; exact Hv]]).
  rewrite read_uspan_uspan by (first [assumption | destruct Hv as [Hv|[_ Hv]]; [left; exact Hv | right; exact Hv]]).
  rewrite read_body_edits. unfold norm_chunk. rewrite <- uchunk_of_ranges by assumption. reflexivity.
Qed.

Lemma read_git_chunks_all v cs : forall c acc fuel rest,
  ranges_fit (c :: cs) -> readable v (c :: cs) -> git_stop rest ->
  (fuel > length (flat_map (uchunk_lines v) (c :: cs)))%nat ->
  read_git_chunks v fuel (flat_map (uchunk_lines v) (c :: cs) ++ rest) acc
  = ROk (acc ++ unified_normalise (c :: cs), rest).
Proof.
  induction cs as [|c' cs IH]; intros c acc fuel rest Hfit Hv Hrest Hfuel;
    (assert (Hfc : chunk_fits c) by (inversion Hfit; assumption)).
  - destruct fuel as [|f]; [lia|].
    assert (Hlen : (length (uchunk_lines v c) >= 1)%nat) by (unfold uchunk_lines; cbn [length]; lia).
    cbn [flat_map] in Hfuel. rewrite app_nil_r in Hfuel.
    cbn [flat_map read_git_chunks]. rewrite app_nil_r.
    assert (Hc : uspan_omitted_count_zero v = false \/ no_one_line_side c)
      by (destruct Hv as [Hv|Hv]; [left; exact Hv | right; inversion Hv; assumption]).
    destruct rest as [|d rest].
    + rewrite app_nil_r. rewrite <- (app_nil_r (uchunk_lines v c)).
      rewrite read_uchunk_chunk by (first [exact Hfc | exact Hc | exact I]).
      destruct f as [|f]; [lia|]. reflexivity.
    + rewrite read_uchunk_last by assumption. reflexivity.
  - destruct fuel as [|f]; [lia|].
    change (flat_map (uchunk_lines v) (c :: c' :: cs)) with (uchunk_lines v c ++ flat_map (uchunk_lines v) (c' :: cs)).
    rewrite <- app_assoc. cbn [read_git_chunks].
    rewrite read_uchunk_chunk.
    + rewrite IH.
      * unfold unified_normalise. cbn [map]. rewrite <- app_assoc. reflexivity.
      * inversion Hfit; assumption.
      * destruct Hv as [Hv|Hv]; [left; exact Hv | right; inversion Hv; assumption].
      * exact Hrest.
      * change (flat_map (uchunk_lines v) (c :: c' :: cs)) with (uchunk_lines v c ++ flat_map (uchunk_lines v) (c' :: cs)) in Hfuel.
        rewrite app_length in Hfuel. unfold uchunk_lines in Hfuel at 1. cbn [length] in Hfuel. lia.
    + exact Hfc.
    + destruct Hv as [Hv|Hv]; [left; exact Hv | right; inversion Hv; assumption].
    + cbn. eexists. reflexivity.
Qed.

Lemma scan_skip p a rest :
  Forall (fun l => has_prefix p l = false) a -> scan_to_prefix p (a ++ rest) = scan_to_prefix p rest.
Proof. induction 1 as [|l a Hl _ IH]; [reflexivity|]. cbn [app scan_to_prefix]. rewrite Hl. exact IH. Qed.

Lemma scan_hit p l rest : has_prefix p l = true -> scan_to_prefix p (l :: rest) = Some (l :: rest).
Proof. intros H. cbn [scan_to_prefix]. rewrite H. reflexivity. Qed.

Section Header.
  Variable time : Type.
  Variable zero_time : time.
  Variable time_is_zero : time -> bool.
  Variable format_time : time -> bytes.
  Variable parse_time : bytes -> option time.
  Hypothesis parse_format : forall t, time_is_zero t = false -> parse_time (format_time t) = Some t.
  Hypothesis zero_unique : forall t, time_is_zero t = true -> t = zero_time.

  (* one file of a git patch: the "diff ..." line, further header lines, header, chunks *)
  Record git_item := mkItem { gi_diff : line; gi_more : list line; gi_info : file_info time; gi_chunks : list (chunk line) }.

  Definition item_lines (v : variant) (it : git_item) : list line :=
    gi_diff it :: gi_more it ++ unified_lines time_is_zero format_time v (Some (gi_info it)) (gi_chunks it).

  Definition item_ok (v : variant) (it : git_item) : Prop :=
    has_prefix s_diff (gi_diff it) = true /\
    Forall (fun l => has_prefix s_mmm l = false) (gi_more it) /\
    info_ok time (Some (gi_info it)) /\ gi_chunks it <> [] /\ readable v (gi_chunks it) /\
    ranges_fit (gi_chunks it).

  Definition item_patch (it : git_item) : patch time :=
    mkPatch (Some (info_back time (gi_info it))) (unified_normalise (gi_chunks it)).

  Lemma read_git_items v its : forall out fuel,
    Forall (item_ok v) its -> (out <> [] \/ its <> []) ->
    (fuel > length (flat_map (item_lines v) its))%nat ->
    read_git_loop time zero_time parse_time v fuel (flat_map (item_lines v) its) out
    = ROk (out ++ map item_patch its).
  Proof.
    induction its as [|it its IH]; intros out fuel Hok Hne Hfuel.
    - destruct fuel; [cbn in Hfuel; lia|]. cbn [flat_map read_git_loop scan_to_prefix map].
      rewrite app_nil_r. destruct out; [destruct Hne; congruence | reflexivity].
    - inversion Hok as [|? ? (Hd & Hm & Hfi & Hcs & Hv & Hfit) Hok']; subst.
      destruct fuel as [|f]; [cbn in Hfuel; lia|].
      assert (Hf : (f > length (flat_map (item_lines v) its))%nat).
      { cbn [flat_map] in Hfuel. rewrite app_length in Hfuel.
        unfold item_lines in Hfuel at 1. cbn [length] in Hfuel. lia. }
      cbn [flat_map read_git_loop]. unfold item_lines at 1.
      rewrite <- app_comm_cons. rewrite scan_hit by exact Hd.
      assert (Hdm : has_prefix s_mmm (gi_diff it) = false).
      { destruct (diff_line_head _ Hd) as (t & ->). reflexivity. }
      change (gi_diff it :: ?x) with ([gi_diff it] ++ x).
      rewrite scan_skip by (constructor; [exact Hdm | constructor]).
      rewrite <- app_assoc. rewrite scan_skip by exact Hm.
      unfold unified_lines. destruct (gi_chunks it) as [|c cs] eqn:Ecs; [congruence|]. clear Hcs.
      rewrite <- app_assoc.
      assert (Hh : exists h2 tl, unified_header time_is_zero format_time (Some (gi_info it)) = (s_mmm ++ h2) :: tl).
      { unfold unified_header, file_header. eexists. eexists. reflexivity. }
      destruct Hh as (h2 & tl & Eh). rewrite Eh. cbn [app].
      rewrite scan_hit by (unfold has_prefix; rewrite cut_prefix_app; reflexivity).
      change ((s_mmm ++ h2) :: tl ++ ?x) with (((s_mmm ++ h2) :: tl) ++ x). rewrite <- Eh.
      destruct Hfi as [Hl Hr].
      rewrite (read_uheader_header time zero_time time_is_zero format_time parse_time parse_format zero_unique)
        by assumption.
      set (rest := flat_map (item_lines v) its).
      assert (Hstop : git_stop rest).
      { unfold rest. destruct its as [|it' its']; [exact I|].
        inversion Hok' as [|? ? (Hd' & _) _]; subst. exact Hd'. }
      rewrite read_git_chunks_all by (first [exact Hfit | exact Hv | exact Hstop | rewrite app_length; lia]).
      cbn [app].
      rewrite IH.
      + rewrite <- app_assoc. cbn [map app]. unfold item_patch at 2. rewrite Ecs. reflexivity.
      + exact Hok'.
      + left. destruct out; discriminate.
      + exact Hf.
  Qed.

  Theorem read_git_lines_wrapped v pre its :
    Forall (fun l => has_prefix s_diff l = false) pre -> Forall (item_ok v) its -> its <> [] ->
    read_git_lines time zero_time parse_time v (pre ++ flat_map (item_lines v) its)
    = ROk (map item_patch its).
  Proof.
    intros Hpre Hok Hne. unfold read_git_lines.
    set (body := flat_map (item_lines v) its).
    assert (E : forall fuel, (fuel > length body)%nat ->
                read_git_loop time zero_time parse_time v fuel (pre ++ body) []
                = read_git_loop time zero_time parse_time v fuel body []).
    { intros fuel Hf. destruct fuel; [lia|]. cbn [read_git_loop]. rewrite scan_skip by exact Hpre. reflexivity. }
    rewrite E; [|rewrite app_length; unfold line, bytes; lia].
    unfold body in *. rewrite read_git_items; [reflexivity | exact Hok | right; exact Hne |].
    rewrite app_length; unfold line, bytes; lia.
  Qed.
End Header.
