(* A boolean test for [patch_ok] and its soundness: used by the driver to check, on every diff
   the harness generates, that the chunks the implementation computed satisfy the hypothesis of
   the application theorems. *)
From Coq Require Import NArith ZArith List Bool Lia.
Import ListNotations.
From Mds Require Import Mdiff.FormatSpec Mdiff.ApplySpec Mdiff.FormatProofs.
Local Open Scope Z_scope.

Fixpoint chunks_fromb (cs : list (chunk line)) (lpos rpos : Z) (l r : list line) : bool :=
  match cs with
  | [] => lines_eqb l r
  | c :: cs' =>
    let g := LStart c - lpos in
    let n := llen (consumed (edits c)) in
    let m := llen (produced (edits c)) in
    (0 <=? g) && (RStart c - rpos =? g) && (g + n <=? llen l) && (g + m <=? llen r)
    && lines_eqb (take_z g l) (take_z g r)
    && (LEnd c =? LStart c + n) && (REnd c =? RStart c + m)
    && lines_eqb (take_z n (drop_z g l)) (consumed (edits c))
    && lines_eqb (take_z m (drop_z g r)) (produced (edits c))
    && chunks_fromb cs' (LEnd c) (REnd c) (drop_z (g + n) l) (drop_z (g + m) r)
  end.

Definition patch_okb (L R : list line) (cs : list (chunk line)) : bool := chunks_fromb cs 1 1 L R.

Lemma lines_eqb_eq a : forall b, lines_eqb a b = true -> a = b.
Proof.
  induction a as [|x a IH]; intros [|y b] H; cbn in H; try discriminate; [reflexivity|].
  apply andb_true_iff in H. destruct H as [H1 H2]. apply bytes_eqb_eq in H1. subst y.
  f_equal. apply IH. exact H2.
Qed.

Lemma skipn_add {A} (l : list A) : forall b a, skipn a (skipn b l) = skipn (b + a) l.
Proof.
  induction l as [|x l IH]; intros b a.
  - rewrite !skipn_nil. reflexivity.
  - destruct b; [reflexivity|]. cbn [skipn Nat.add]. apply IH.
Qed.

Lemma split3 {A} (l : list A) g n : 0 <= g -> 0 <= n -> g + n <= llen l ->
  l = take_z g l ++ take_z n (drop_z g l) ++ drop_z (g + n) l /\ llen (take_z g l) = g.
Proof.
  intros Hg Hn Hl. unfold take_z, drop_z, llen in *.
  split.
  - rewrite Z2Nat.inj_add by lia. rewrite <- skipn_add.
    rewrite firstn_skipn. rewrite firstn_skipn. reflexivity.
  - rewrite firstn_length. lia.
Qed.

Lemma chunks_fromb_sound cs : forall lpos rpos l r,
  chunks_fromb cs lpos rpos l r = true -> chunks_from lpos rpos l r cs.
Proof.
  induction cs as [|c cs IH]; intros lpos rpos l r H; cbn [chunks_fromb] in H.
  - apply lines_eqb_eq in H. subst r. constructor.
  - repeat (apply andb_true_iff in H; destruct H as [H ?]).
    repeat match goal with
           | H : (_ <=? _) = true |- _ => apply Z.leb_le in H
           | H : (_ =? _) = true |- _ => apply Z.eqb_eq in H
           | H : lines_eqb _ _ = true |- _ => apply lines_eqb_eq in H
           end.
    set (g := LStart c - lpos) in *.
    set (n := llen (consumed (edits c))) in *. set (m := llen (produced (edits c))) in *.
    assert (Hn : 0 <= n) by apply llen_nonneg. assert (Hm : 0 <= m) by apply llen_nonneg.
    destruct (split3 l g n) as [El Egl]; try lia.
    destruct (split3 r g m) as [Er Egr]; try lia.
    rewrite El, Er.
    match goal with H : take_z g l = take_z g r |- _ => rewrite <- H end.
    match goal with H : take_z n (drop_z g l) = _ |- _ => rewrite H end.
    match goal with H : take_z m (drop_z g r) = _ |- _ => rewrite H end.
    apply cf_cons; try lia.
    apply IH. assumption.
Qed.

Theorem patch_okb_sound L R cs : patch_okb L R cs = true -> patch_ok L R cs.
Proof. apply chunks_fromb_sound. Qed.
