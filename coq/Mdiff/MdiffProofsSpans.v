(* UnifyChunks on ARBITRARY chunk lists (the function is exported and also used on chunks that do
   not come from a Diff): whenever it does not panic, the ranges of the result are
   [unified_spans cs] -- every maximal run of touching chunks becomes one chunk spanning the run,
   nothing else moves.  No assumption on the chunks.  (That it does not panic, and what happens to
   the edits, needs the chunks to come from a Diff: MdiffHistory.v.) *)
From Coq Require Import ZArith List Bool Lia ZifyBool.
Import ListNotations.
From Mds Require Import Gen.MdiffIdx Mdiff.MdiffModel Mdiff.MdiffSpec Mdiff.MdiffProofsBase.
Local Open Scope Z_scope.

Section Spans.
  Variable T : Type.
  Notation edit := (edit T).
  Notation chunk := (chunk T).

  (* what the trimming block and the fusion block leave alone *)
  Definition keeps (last c : chunk) (lc : chunk * chunk) : Prop :=
    LStart (fst lc) = LStart last /\ RStart (fst lc) = RStart last /\
    LEnd (snd lc) = LEnd c /\ REnd (snd lc) = REnd c.

  Lemma bind_ok : forall (A B : Type) (r : res A) (f : A -> res B) b,
      bind r f = Ok b -> exists a, r = Ok a /\ f a = Ok b.
  Proof. intros A B [a|k] f b H; cbn [bind] in H; [eauto|discriminate]. Qed.

  Lemma uc_trim_keeps : forall (last c : chunk) lap lc, uc_trim last c lap = Ok lc -> keeps last c lc.
  Proof.
    intros last c lap lc H. unfold uc_trim in H.
    apply bind_ok in H as (en & _ & H). apply bind_ok in H as (lc0 & H0 & H).
    destruct (uc_bad_merge _ _); [discriminate|]. injection H as <-.
    destruct (uc_end_emit (is_emit en)).
    - apply bind_ok in H0 as (es' & _ & H0). injection H0 as <-. repeat split.
    - apply bind_ok in H0 as (st & _ & H0). destruct (uc_start_emit (is_emit st)).
      + apply bind_ok in H0 as (es' & _ & H0). injection H0 as <-. repeat split.
      + injection H0 as <-. repeat split.
  Qed.

  Lemma uc_fusion_keeps : forall (last c : chunk) lc, uc_fusion last c = Ok lc -> keeps last c lc.
  Proof.
    intros last c lc H. unfold uc_fusion in H.
    apply bind_ok in H as (en & _ & H).
    destruct (is_emit en); [|injection H as <-; repeat split].
    apply bind_ok in H as (st & _ & H).
    destruct (uc_fuse _ _); [|injection H as <-; repeat split].
    apply bind_ok in H as (es' & _ & H). injection H as <-. repeat split.
  Qed.

  Lemma unify_step_spans : forall done (last c : chunk) st,
      unify_step (done, last) c = Ok st ->
      if LEnd last <? LStart c then st = (done ++ [last], c)
      else fst st = done /\ span_of (snd st) = (LStart last, LEnd c, RStart last, REnd c).
  Proof.
    intros done last c st. unfold unify_step. cbn [fst snd].
    unfold uc_apart. destruct (Z.gtb_spec (LStart c) (LEnd last)) as [Hgt|Hle].
    - replace (LEnd last <? LStart c) with true by lia. intros H. injection H as <-. reflexivity.
    - replace (LEnd last <? LStart c) with false by lia.
      destruct (if uc_overlap (uc_lap (LStart c) (LEnd last)) then uc_trim last c (uc_lap (LStart c) (LEnd last)) else Ok (last, c))
        as [lc|k] eqn:Ht; cbn [bind]; [|discriminate].
      assert (K1 : keeps last c lc).
      { destruct (uc_overlap _); [apply (uc_trim_keeps _ _ _ _ Ht)|]. injection Ht as <-. repeat split. }
      destruct (uc_fusion (fst lc) (snd lc)) as [lc'|k] eqn:Hf; cbn [bind]; [|discriminate].
      pose proof (uc_fusion_keeps _ _ _ Hf) as K2.
      intros H. injection H as <-. cbn [fst snd]. split; [reflexivity|].
      destruct K1 as (a1 & a2 & a3 & a4). destruct K2 as (b1 & b2 & b3 & b4).
      unfold span_of, uc_merge, uc_merge_lend, uc_merge_rend. cbn [LStart LEnd RStart REnd]. congruence.
  Qed.

  Lemma unify_loop_spans : forall (cs : list chunk) done last st,
      unify_loop (done, last) cs = Ok st ->
      map span_of (fst st ++ [snd st]) =
      map span_of done ++ merge_spans (LStart last) (LEnd last) (RStart last) (REnd last) cs.
  Proof.
    induction cs as [|c cs IH]; intros done last st H; cbn [unify_loop] in H.
    - injection H as <-. cbn [fst snd merge_spans]. rewrite map_app. reflexivity.
    - destruct (unify_step (done, last) c) as [st1|k] eqn:Hs; cbn [bind] in H; [|discriminate].
      pose proof (unify_step_spans _ _ _ _ Hs) as Hsp. cbn [merge_spans].
      destruct st1 as [done1 last1]. specialize (IH done1 last1 st H). rewrite IH.
      destruct (LEnd last <? LStart c).
      + injection Hsp as -> ->. rewrite map_app. cbn [map]. rewrite <- app_assoc. reflexivity.
      + cbn [fst snd] in Hsp. destruct Hsp as [-> Hsp]. unfold span_of in Hsp. injection Hsp as -> -> -> ->. reflexivity.
  Qed.

  Theorem unify_chunks_spans : forall (cs cu : list chunk),
      unify_chunks cs = Ok cu -> map span_of cu = unified_spans cs.
  Proof.
    intros cs cu. unfold unify_chunks.
    destruct cs as [|c0 rest]; [intros H; cbn in H; injection H as <-; reflexivity|].
    replace (uc_empty (len (c0 :: rest))) with false.
    2:{ unfold uc_empty. lens. pose proof (len_nonneg _ rest). lia. }
    cbn [zth Z.ltb Z.compare Z.to_nat nth_error]. unfold uc_rest_lo.
    replace (drop (c0 :: rest) 1) with (Ok rest).
    2:{ unfold drop, zslice. lens. pose proof (len_nonneg _ rest).
        replace ((0 <=? 1) && (1 <=? 1 + len rest) && (1 + len rest <=? 1 + len rest)) with true by lia.
        f_equal. replace (Z.to_nat (1 + len rest - 1)) with (length rest) by (unfold len; lia).
        cbn [Z.to_nat Pos.to_nat Pos.iter_op Nat.add skipn]. symmetry. apply firstn_all. }
    cbn [bind].
    destruct (unify_loop ([], c0) rest) as [st|k] eqn:Hl; cbn [bind]; [|discriminate].
    intros H. injection H as <-. rewrite (unify_loop_spans _ _ _ _ Hl). reflexivity.
  Qed.
End Spans.
