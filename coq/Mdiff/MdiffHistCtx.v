(* C13 for every history, part 1: AddContext n on the chunks of ANY reachable description returns
   the chunks of the description with one more layer on every gap that still has free lines
   ([ac_segs], [ac_last]); no panic.  Chunks that already overlap, meet, or carry earlier context
   are all covered; only reflexivity of the line comparison is used. *)
From Coq Require Import ZArith List Bool Lia ZifyBool.
Import ListNotations.
From Mds Require Import Gen.MdiffIdx Mdiff.MdiffModel Mdiff.MdiffSpec Mdiff.MdiffProofsBase
     Mdiff.MdiffProofsCtx Mdiff.MdiffProofsUnify Mdiff.MdiffHistBase.
Local Open Scope Z_scope.

Section HistCtx.
  Variable T : Type.
  Variable eqb : T -> T -> bool.
  Hypothesis eqb_refl : forall a, eqb a a = true.
  Notation edit := (edit T).
  Notation chunk := (chunk T).
  Notation hseg := (hseg T).
  Notation gapd := (gapd T).

  Variables L R : list T.

  Lemma next_gapd_split_l : forall (r : list hseg) (Gt : gapd),
      exists rest, hleft r ++ flat Gt = flat (next_gapd r Gt) ++ rest.
  Proof.
    intros [|[G E] r] Gt; cbn [next_gapd]; [exists []; lapp|].
    unfold hleft. cbn [to_segs map segs_left fst snd]. eexists. rewrite <- !app_assoc. reflexivity.
  Qed.
  Lemma next_gapd_split_r : forall (r : list hseg) (Gt : gapd),
      exists rest, hright r ++ flat Gt = flat (next_gapd r Gt) ++ rest.
  Proof.
    intros [|[G E] r] Gt; cbn [next_gapd]; [exists []; lapp|].
    unfold hright. cbn [to_segs map segs_right fst snd]. eexists. rewrite <- !app_assoc. reflexivity.
  Qed.

  Lemma hchunks_len : forall (s : list hseg) Gt l r, len (hchunks l r s Gt) = len s.
  Proof. induction s as [|[G E] s IH]; intros; cbn [hchunks]; lens; [reflexivity|]. rewrite IH. reflexivity. Qed.

  Lemma next_gapd_ac_rest : forall n (r : list hseg) (Gt : gapd),
      exists sd, sd <> PreOnly /\
                 next_gapd (ac_rest n r) (ac_gap PostOnly n Gt) = ac_gap sd n (next_gapd r Gt).
  Proof.
    intros n [|[G E] r] Gt; cbn [ac_rest map next_gapd fst snd].
    - exists PostOnly. split; [discriminate|reflexivity].
    - exists Both. split; [discriminate|reflexivity].
  Qed.

  Theorem hac_loop_ok : forall n (Gt : gapd) (r : list hseg) sd (G : gapd) (E : list edit)
                               (lpre rpre : list T) (all allpre : list chunk) lpos rpos i,
      0 < n -> sd <> PostOnly ->
      L = lpre ++ flat G ++ edits_consume E ++ hleft r ++ flat Gt ->
      R = rpre ++ flat G ++ edits_produce E ++ hright r ++ flat Gt ->
      lpos = 1 + len lpre -> rpos = 1 + len rpre ->
      all = allpre ++ hchunks lpos rpos ((G, E) :: r) Gt -> i = len allpre ->
      concat (pres Gt) = [] ->
      ac_loop eqb true L R n all (hchunks lpos rpos ((G, E) :: r) Gt) i (lpos + len (concat (posts G)))
      = Ok (hchunks lpos rpos ((ac_gap sd n G, E) :: ac_rest n r) (ac_gap PostOnly n Gt)).
  Proof.
    intros n Gt. induction r as [|[G' E'] r' IH];
      intros sd G E lpre rpre all allpre lpos rpos i Hn Hsd HL HR Hlp Hrp Hall Hi Hpt.
    - (* the last chunk *)
      cbn [hchunks ac_loop next_gapd ac_rest map]. cbn [hchunks next_gapd] in Hall.
      unfold hleft, hright in HL, HR. cbn [to_segs map segs_left segs_right app] in HL, HR.
      set (c := hchunk_at lpos rpos G E Gt) in *.
      set (le := lpos + len (flat G) + len (edits_consume E)) in *.
      pose proof (len_nonneg _ allpre).
      replace (ac_has_next i (len all)) with false by (rewrite Hall; unfold ac_has_next; lens; lia).
      cbn [bind].
      pose proof (flat_pre_split T G) as HG. pose proof (flat_post_split T Gt) as HGt.
      pose proof (slack_pre T G) as HsG. pose proof (slack_post T Gt) as HsGt.
      assert (Hfc : find_context eqb L R c (ac_npre n (LStart c) (lpos + len (concat (posts G))))
                                 (ac_npost n (ac_next_default (len L)) (LEnd c))
                    = Ok (ctx_pre n (free G), ctx_post n (free Gt))).
      { apply (find_context_gen T eqb eqb_refl L R n c (lpre ++ pre_rest G) (rpre ++ pre_rest G) (free G)
                 (concat (pres G) ++ edits_consume E ++ concat (posts Gt))
                 (concat (pres G) ++ edits_produce E ++ concat (posts Gt)) (free Gt) (post_rest Gt) (post_rest Gt)).
        - rewrite HL. rewrite HG at 1. rewrite HGt at 1. lapp.
        - rewrite HR. rewrite HG at 1. rewrite HGt at 1. lapp.
        - unfold c, hchunk_at. cbn [LStart]. lens. lia.
        - unfold c, hchunk_at. cbn [RStart]. lens. lia.
        - unfold c, hchunk_at. cbn [LStart LEnd]. lens. lia.
        - unfold c, hchunk_at. cbn [RStart REnd]. lens. lia.
        - rewrite <- slack_k. f_equal. unfold ac_npre, c, hchunk_at, slack. cbn [LStart]. lia.
        - rewrite <- slack_k. f_equal. unfold ac_npost, ac_next_default, c, hchunk_at, slack. cbn [LEnd].
          rewrite Hpt. rewrite HL. lens. lia. }
      rewrite (ac_chunk_ok T eqb L R _ _ _ _ _ _ Hfc). cbn [bind]. f_equal. f_equal.
      unfold c, hchunk_at. cbn [edits LStart LEnd RStart REnd].
      rewrite ac_gap_flat, (ac_gap_pres T sd n G Hsd), (ac_gap_posts T PostOnly n Gt) by discriminate.
      rewrite !ctx_edits_app, !ctx_edits_opt, !concat_app, !concat_opt.
      f_equal; try lapp; lens; lia.
    - (* a chunk followed by another *)
      cbn [ac_rest map fst snd]. fold (ac_rest n r').
      change (hchunks lpos rpos ((G, E) :: (G', E') :: r') Gt)
        with (hchunk_at lpos rpos G E G' ::
              hchunks (lpos + len (flat G) + len (edits_consume E)) (rpos + len (flat G) + len (edits_produce E))
                      ((G', E') :: r') Gt) in *.
      cbn [ac_loop].
      unfold hleft, hright in HL, HR. cbn [to_segs map segs_left segs_right fst snd] in HL, HR.
      fold (to_segs r') in HL, HR. fold (hleft r') in HL. fold (hright r') in HR.
      set (c := hchunk_at lpos rpos G E G') in *.
      set (le := lpos + len (flat G) + len (edits_consume E)) in *.
      set (re := rpos + len (flat G) + len (edits_produce E)) in *.
      pose proof (len_nonneg _ allpre).
      replace (ac_has_next i (len all)) with true.
      2:{ rewrite Hall. unfold ac_has_next. cbn [hchunks]. lens.
          match goal with |- context [len (hchunks ?a ?b ?c ?d)] => pose proof (len_nonneg _ (hchunks a b c d)) end. lia. }
      assert (Hz : zth all (ac_next_idx i) = Some (hchunk_at le re G' E' (next_gapd r' Gt))).
      { rewrite Hall. cbn [hchunks].
        match goal with |- zth (allpre ++ c :: ?x :: ?rest) _ = _ =>
          replace (allpre ++ c :: x :: rest) with ((allpre ++ [c]) ++ x :: rest) by lapp end.
        apply zth_app_mid. unfold ac_next_idx. lens. lia. }
      rewrite Hz. cbn [bind].
      pose proof (flat_pre_split T G) as HG. pose proof (flat_post_split T G') as HG'.
      pose proof (slack_pre T G) as HsG. pose proof (slack_post T G') as HsG'.
      assert (Hfc : find_context eqb L R c (ac_npre n (LStart c) (lpos + len (concat (posts G))))
                                 (ac_npost n (LStart (hchunk_at le re G' E' (next_gapd r' Gt))) (LEnd c))
                    = Ok (ctx_pre n (free G), ctx_post n (free G'))).
      { apply (find_context_gen T eqb eqb_refl L R n c (lpre ++ pre_rest G) (rpre ++ pre_rest G) (free G)
                 (concat (pres G) ++ edits_consume E ++ concat (posts G'))
                 (concat (pres G) ++ edits_produce E ++ concat (posts G')) (free G')
                 (post_rest G' ++ edits_consume E' ++ hleft r' ++ flat Gt)
                 (post_rest G' ++ edits_produce E' ++ hright r' ++ flat Gt)).
        - rewrite HL. rewrite HG at 1. rewrite HG' at 1. lapp.
        - rewrite HR. rewrite HG at 1. rewrite HG' at 1. lapp.
        - unfold c, hchunk_at. cbn [LStart]. lens. lia.
        - unfold c, hchunk_at. cbn [RStart]. lens. lia.
        - unfold c, hchunk_at. cbn [LStart LEnd]. lens. lia.
        - unfold c, hchunk_at. cbn [RStart REnd]. lens. lia.
        - rewrite <- slack_k. f_equal. unfold ac_npre, c, hchunk_at, slack. cbn [LStart]. lia.
        - rewrite <- slack_k. f_equal. unfold ac_npost, c, hchunk_at, slack. cbn [LStart LEnd]. fold le. lia. }
      rewrite (ac_chunk_ok T eqb L R _ _ _ _ _ _ Hfc). cbn [bind].
      unfold ac_prev_next.
      replace (LEnd c) with (le + len (concat (posts G'))) by (unfold c, hchunk_at, le; cbn [LEnd]; lia).
      rewrite (IH Both G' E' (lpre ++ flat G ++ edits_consume E) (rpre ++ flat G ++ edits_produce E)
                  all (allpre ++ [c]) le re (i + 1)); try assumption; try discriminate.
      + cbn [bind]. f_equal.
        change (hchunks lpos rpos ((ac_gap sd n G, E) :: (ac_gap Both n G', E') :: ac_rest n r') (ac_gap PostOnly n Gt))
          with (hchunk_at lpos rpos (ac_gap sd n G) E (ac_gap Both n G') ::
                hchunks (lpos + len (flat (ac_gap sd n G)) + len (edits_consume E))
                        (rpos + len (flat (ac_gap sd n G)) + len (edits_produce E))
                        ((ac_gap Both n G', E') :: ac_rest n r') (ac_gap PostOnly n Gt)).
        rewrite ac_gap_flat. fold le. fold re. f_equal.
        unfold c, hchunk_at. cbn [edits LStart LEnd RStart REnd].
        rewrite ac_gap_flat, (ac_gap_pres T sd n G Hsd), (ac_gap_posts T Both n G') by discriminate.
        rewrite !ctx_edits_app, !ctx_edits_opt, !concat_app, !concat_opt.
        f_equal; try lapp; lens; lia.
      + rewrite HL. unfold hleft. cbn [to_segs map segs_left fst snd]. lapp.
      + rewrite HR. unfold hright. cbn [to_segs map segs_right fst snd]. lapp.
      + unfold le. lens. lia.
      + unfold re. lens. lia.
      + rewrite Hall. lapp.
      + lens. lia.
  Qed.

  Lemma ac_rest_nonpos : forall n (r : list hseg), n <= 0 -> ac_rest n r = r.
  Proof.
    intros n r Hn. unfold ac_rest. induction r as [|[G' E'] r IH]; [reflexivity|]. cbn [map fst snd].
    rewrite ac_gap_nonpos by assumption. f_equal. apply IH.
  Qed.

  (* AddContext on the chunks of a description *)
  Theorem hadd_context_ok : forall n (s : list hseg) (Gt : gapd),
      L = hleft s ++ flat Gt -> R = hright s ++ flat Gt ->
      hvalid s Gt ->
      add_context eqb L R n (hchunks 1 1 s Gt) = Ok (hchunks 1 1 (ac_segs n s) (ac_last n s Gt)).
  Proof.
    intros n s Gt HL HR Hv. unfold add_context, add_context_v.
    destruct (ac_skip n (len (hchunks 1 1 s Gt))) eqn:Hskip.
    - rewrite hchunks_len in Hskip. unfold ac_skip in Hskip.
      destruct (Z.leb_spec n 0) as [Hn|Hn].
      + destruct s as [|[G E] r]; [reflexivity|]. cbn [ac_segs ac_last].
        rewrite !ac_gap_nonpos by assumption.
        rewrite ac_rest_nonpos by assumption. reflexivity.
      + assert (len s = 0) by lia. assert (s = []) by (apply len_zero; assumption). subst. reflexivity.
    - unfold ac_skip in Hskip. unfold ac_prev_init.
      destruct s as [|[G E] r]; [cbn in Hskip; lia|].
      destruct Hv as ([Hp0 _] & _ & [Hpt _] & _).
      cbn [ac_segs ac_last].
      pose proof (hac_loop_ok n Gt r PreOnly G E [] [] (hchunks 1 1 ((G, E) :: r) Gt) [] 1 1 0) as H.
      rewrite Hp0 in H. cbn [len length Z.of_nat] in H. rewrite Z.add_0_r in H.
      apply H; try reflexivity; try discriminate; try assumption; try lia.
      + rewrite HL. unfold hleft. cbn [to_segs map segs_left fst snd]. lapp.
      + rewrite HR. unfold hright. cbn [to_segs map segs_right fst snd]. lapp.
  Qed.
End HistCtx.
