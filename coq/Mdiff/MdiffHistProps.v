(* C13 for every history, part 3: what the chunks of a reachable description satisfy.
   Always: every chunk consumes / produces exactly its ranges; the non-context edits are those of
   the cores; every chunk has a non-context edit.  When no gap carries overlapping contexts: the
   chunks are a patch in the sense of C14 (patch_ok), hence apply.  When every gap has free lines
   (after New, after Unify): ascending, disjoint, not adjacent.  One AddContext n call adds at most
   n lines before and after each chunk and changes nothing else. *)
From Coq Require Import ZArith List Bool Lia ZifyBool.
Import ListNotations.
From Mds Require Import Gen.MdiffIdx Mdiff.MdiffModel Mdiff.MdiffSpec Mdiff.MdiffProofsBase
     Mdiff.MdiffProofsCtx Mdiff.MdiffProofsUnify Mdiff.MdiffProofsProps Mdiff.MdiffHistBase
     Mdiff.MdiffHistCtx Mdiff.MdiffHistUnify.
From Mds Require Import Mdiff.FormatSpec Mdiff.MdiffPatchOk.
Local Open Scope Z_scope.

Section HistProps.
  Variable T : Type.
  Notation edit := (edit T).
  Notation chunk := (chunk T).
  Notation hseg := (hseg T).
  Notation gapd := (gapd T).

  (* ---- (A) every chunk is right, in every description *)
  Lemma chunk_ok_at : forall (L R : list T) (c : chunk) l1 X l2 r1 Y r2,
      L = l1 ++ X ++ l2 -> R = r1 ++ Y ++ r2 ->
      LStart c = 1 + len l1 -> LEnd c = LStart c + len X ->
      RStart c = 1 + len r1 -> REnd c = RStart c + len Y ->
      edits_consume (edits c) = X -> edits_produce (edits c) = Y ->
      chunk_ok L R c.
  Proof.
    intros L R c l1 X l2 r1 Y r2 HL HR H1 H2 H3 H4 H5 H6.
    pose proof (len_nonneg _ l1). pose proof (len_nonneg _ l2). pose proof (len_nonneg _ r1).
    pose proof (len_nonneg _ r2). pose proof (len_nonneg _ X). pose proof (len_nonneg _ Y).
    assert (len L = len l1 + len X + len l2) by (rewrite HL; lens; lia).
    assert (len R = len r1 + len Y + len r2) by (rewrite HR; lens; lia).
    unfold chunk_ok. rewrite H5, H6. repeat split; try lia.
    - rewrite HL. symmetry. apply slice1_app; lia.
    - rewrite HR. symmetry. apply slice1_app; lia.
  Qed.

  Lemma hchunk_consume : forall lpos rpos (G : gapd) E Gn,
      edits_consume (edits (hchunk_at lpos rpos G E Gn)) = concat (pres G) ++ edits_consume E ++ concat (posts Gn).
  Proof. intros. unfold hchunk_at. cbn [edits]. rewrite !consume_app, !consume_ctx_edits. reflexivity. Qed.
  Lemma hchunk_produce : forall lpos rpos (G : gapd) E Gn,
      edits_produce (edits (hchunk_at lpos rpos G E Gn)) = concat (pres G) ++ edits_produce E ++ concat (posts Gn).
  Proof. intros. unfold hchunk_at. cbn [edits]. rewrite !produce_app, !produce_ctx_edits. reflexivity. Qed.

  Lemma hchunks_ok : forall (L R : list T) (Gt : gapd) (s : list hseg) lpre rpre lpos rpos,
      L = lpre ++ hleft s ++ flat Gt -> R = rpre ++ hright s ++ flat Gt ->
      lpos = 1 + len lpre -> rpos = 1 + len rpre ->
      Forall (chunk_ok L R) (hchunks lpos rpos s Gt).
  Proof.
    intros L R Gt. induction s as [|[G E] r IH]; intros lpre rpre lpos rpos HL HR Hl Hr; cbn [hchunks].
    - constructor.
    - unfold hleft, hright in HL, HR. cbn [to_segs map segs_left segs_right fst snd] in HL, HR.
      fold (to_segs r) in HL, HR. fold (hleft r) in HL. fold (hright r) in HR.
      destruct (next_gapd_split_l T r Gt) as (restl & Hrl). destruct (next_gapd_split_r T r Gt) as (restr & Hrr).
      set (Gn := next_gapd r Gt) in *.
      pose proof (flat_pre_split T G) as HG. pose proof (flat_post_split T Gn) as HGn.
      pose proof (slack_pre T G) as HsG.
      constructor.
      + apply (chunk_ok_at L R _ (lpre ++ pre_rest G ++ free G) (concat (pres G) ++ edits_consume E ++ concat (posts Gn))
                           (free Gn ++ post_rest Gn ++ restl)
                           (rpre ++ pre_rest G ++ free G) (concat (pres G) ++ edits_produce E ++ concat (posts Gn))
                           (free Gn ++ post_rest Gn ++ restr)).
        * assert (HL2 : L = lpre ++ flat G ++ edits_consume E ++ flat Gn ++ restl) by (rewrite HL, <- Hrl; lapp).
          rewrite HL2. rewrite HG at 1. rewrite HGn at 1. lapp.
        * assert (HR2 : R = rpre ++ flat G ++ edits_produce E ++ flat Gn ++ restr) by (rewrite HR, <- Hrr; lapp).
          rewrite HR2. rewrite HG at 1. rewrite HGn at 1. lapp.
        * unfold hchunk_at. cbn [LStart]. lens. lia.
        * unfold hchunk_at. cbn [LStart LEnd]. lens. lia.
        * unfold hchunk_at. cbn [RStart]. lens. lia.
        * unfold hchunk_at. cbn [RStart REnd]. lens. lia.
        * apply hchunk_consume.
        * apply hchunk_produce.
      + apply (IH (lpre ++ flat G ++ edits_consume E) (rpre ++ flat G ++ edits_produce E)).
        * rewrite HL. lapp.
        * rewrite HR. lapp.
        * lens. lia.
        * lens. lia.
  Qed.

  (* ---- (B) no overlapping contexts: a patch *)
  Definition nonover (G : gapd) : Prop := exists m, snd G = IFree m.

  Lemma nonover_pre_rest : forall G, nonover G -> pre_rest G = concat (posts G).
  Proof. intros [ly i] (m & H). cbn [snd] in H. subst i. unfold pre_rest, posts. cbn [fst snd inner_post]. rewrite !app_nil_r. reflexivity. Qed.
  Lemma nonover_post_rest : forall G, nonover G -> post_rest G = concat (pres G).
  Proof. intros [ly i] (m & H). cbn [snd] in H. subst i. unfold post_rest, pres. cbn [fst snd inner_pre]. reflexivity. Qed.

  Lemma hchunks_from : forall (Gt : gapd) (r : list hseg) (G : gapd) E lpos rpos,
      nonover G -> Forall (fun x => nonover (fst x)) r ->
      chunks_from (lpos + len (concat (posts G))) (rpos + len (concat (posts G)))
        (free G ++ concat (pres G) ++ edits_consume E ++ hleft r ++ flat Gt)
        (free G ++ concat (pres G) ++ edits_produce E ++ hright r ++ flat Gt)
        (hchunks lpos rpos ((G, E) :: r) Gt).
  Proof.
    intros Gt. induction r as [|[G' E'] r' IH]; intros G E lpos rpos HG Hr.
    - cbn [hchunks next_gapd]. unfold hleft, hright. cbn [to_segs map segs_left segs_right app].
      pose proof (flat_post_split T Gt) as HGt.
      pose proof (slack_pre T G) as HsG. rewrite (nonover_pre_rest G HG) in HsG.
      apply (cf_cons' T _ _ (free G) _ _ (free Gt ++ post_rest Gt) (free Gt ++ post_rest Gt));
        rewrite ?hchunk_consume, ?hchunk_produce; unfold hchunk_at; cbn [LStart LEnd RStart REnd]; lens; try lia.
      + apply cf_nil.
      + rewrite HGt at 1. lapp.
      + rewrite HGt at 1. lapp.
    - inversion Hr as [|? ? HG' Hr']; subst. cbn [fst] in HG'.
      change (hchunks lpos rpos ((G, E) :: (G', E') :: r') Gt)
        with (hchunk_at lpos rpos G E G' ::
              hchunks (lpos + len (flat G) + len (edits_consume E)) (rpos + len (flat G) + len (edits_produce E))
                      ((G', E') :: r') Gt).
      unfold hleft, hright. cbn [to_segs map segs_left segs_right fst snd].
      fold (to_segs r'). fold (hleft r'). fold (hright r').
      set (le := lpos + len (flat G) + len (edits_consume E)).
      set (re := rpos + len (flat G) + len (edits_produce E)).
      pose proof (flat_post_split T G') as HGn. rewrite (nonover_post_rest G' HG') in HGn.
      pose proof (slack_pre T G) as HsG. rewrite (nonover_pre_rest G HG) in HsG.
      specialize (IH G' E' le re HG' Hr').
      apply (cf_cons' T _ _ (free G) _ _
                      (free G' ++ concat (pres G') ++ edits_consume E' ++ hleft r' ++ flat Gt)
                      (free G' ++ concat (pres G') ++ edits_produce E' ++ hright r' ++ flat Gt));
        rewrite ?hchunk_consume, ?hchunk_produce; unfold hchunk_at; cbn [LStart LEnd RStart REnd]; lens; try lia.
      + fold le. fold re. exact IH.
      + rewrite HGn at 1. lapp.
      + rewrite HGn at 1. lapp.
  Qed.

  Lemma hpatch_ok : forall (L R : list T) (s : list hseg) (Gt : gapd),
      L = hleft s ++ flat Gt -> R = hright s ++ flat Gt -> hvalid s Gt ->
      Forall (fun x => nonover (fst x)) (tl s) ->
      patch_ok L R (hchunks 1 1 s Gt).
  Proof.
    intros L R [|[G E] r] Gt HL HR Hv Hno; unfold patch_ok.
    - cbn in HL, HR. subst. apply cf_nil.
    - destruct Hv as ([Hp0 HG] & _). cbn [tl] in Hno.
      pose proof (hchunks_from Gt r G E 1 1 HG Hno) as H.
      rewrite Hp0 in H. cbn [len length Z.of_nat] in H. rewrite !Z.add_0_r in H.
      pose proof (flat_pre_split T G) as HfG. rewrite (nonover_pre_rest G HG), Hp0 in HfG. cbn [app] in HfG.
      subst L R. unfold hleft, hright. cbn [to_segs map segs_left segs_right fst snd].
      fold (to_segs r). fold (hleft r). fold (hright r). rewrite HfG.
      repeat rewrite <- app_assoc. exact H.
  Qed.

  (* a valid inner gap whose neighbours do not overlap has no overlapping contexts *)
  Lemma ok_inner_slack_nonover : forall G, ok_inner G -> 0 <= slack G -> nonover G.
  Proof.
    intros [ly [m|u v w]] [_ Hv] Hs; [eexists; reflexivity|].
    rewrite slack_val in Hs. cbn [snd] in *. destruct v; [congruence|]. lens. pose proof (len_nonneg _ v). lia.
  Qed.

  Lemma separated0_slack : forall (Gt : gapd) (s : list hseg) lpos rpos,
      separated 0 (hchunks lpos rpos s Gt) -> Forall (fun x => 0 <= slack (fst x)) (tl s).
  Proof.
    intros Gt. induction s as [|[G E] r IH]; intros lpos rpos Hs; [constructor|].
    destruct r as [|[G' E'] r']; [constructor|].
    cbn [tl]. cbn [hchunks] in Hs. cbn [separated] in Hs. destruct Hs as (H1 & _ & H3).
    constructor.
    - cbn [fst]. unfold hchunk_at in H1. cbn [LStart LEnd next_gapd] in H1. unfold slack. lia.
    - apply (IH _ _ H3).
  Qed.

  Lemma hpatch_ok_separated : forall (L R : list T) (s : list hseg) (Gt : gapd),
      L = hleft s ++ flat Gt -> R = hright s ++ flat Gt -> hvalid s Gt ->
      separated 0 (hchunks 1 1 s Gt) -> patch_ok L R (hchunks 1 1 s Gt).
  Proof.
    intros L R s Gt HL HR Hv Hsep. apply hpatch_ok; try assumption.
    pose proof (separated0_slack Gt s 1 1 Hsep) as Hs.
    destruct s as [|[G E] r]; [constructor|]. cbn [tl] in *. destruct Hv as (_ & Hin & _).
    pose proof (Forall_and Hin Hs) as H. eapply Forall_impl; [|exact H].
    intros x [H1 H2]. apply ok_inner_slack_nonover; assumption.
  Qed.

  (* ---- (C) every gap has free lines: ascending, disjoint, not adjacent *)
  Lemma hchunks_separated : forall (Gt : gapd) (s : list hseg) lpos rpos,
      Forall (fun x => apart (fst x)) (tl s) -> separated 1 (hchunks lpos rpos s Gt).
  Proof.
    intros Gt. induction s as [|[G E] r IH]; intros lpos rpos Hap; cbn [hchunks]; [exact I|].
    destruct r as [|[G' E'] r']; [exact I|].
    cbn [tl] in Hap. inversion Hap as [|? ? Hg' Hr']; subst. cbn [fst] in Hg'.
    specialize (IH (lpos + len (flat G) + len (edits_consume E)) (rpos + len (flat G) + len (edits_produce E))).
    cbn [hchunks] in IH |- *. cbn [separated].
    unfold apart, touching, slack in Hg'.
    split; [|split].
    - unfold hchunk_at at 1 2. cbn [LStart LEnd next_gapd]. lia.
    - unfold hchunk_at at 1 2. cbn [RStart REnd next_gapd]. lia.
    - apply IH. destruct r' as [|x r'']; [constructor|]. cbn [tl]. assumption.
  Qed.

  Lemma apart_nonover : forall G, apart G -> nonover G.
  Proof.
    intros [ly [m|u v w]] H; [eexists; reflexivity|].
    unfold apart, touching in H. rewrite slack_val in H. cbn [snd] in H. pose proof (len_nonneg _ v). lia.
  Qed.

  (* Unify changes nothing when every gap has free lines *)
  Lemma un_aux_apart : forall (r : list hseg) G E, Forall (fun x => apart (fst x)) r -> un_aux G E r = (G, E) :: r.
  Proof.
    induction r as [|[G' E'] r IH]; intros G E H; cbn [un_aux]; [reflexivity|].
    inversion H as [|? ? Hg Hr]; subst. cbn [fst] in Hg. unfold apart in Hg. rewrite Hg. f_equal. apply IH. assumption.
  Qed.
  Lemma un_segs_apart : forall s : list hseg, Forall (fun x => apart (fst x)) (tl s) -> un_segs s = s.
  Proof. intros [|[G E] r] H; [reflexivity|]. apply un_aux_apart. exact H. Qed.

  Lemma separated1_apart : forall (Gt : gapd) (s : list hseg) lpos rpos,
      separated 1 (hchunks lpos rpos s Gt) -> Forall (fun x => apart (fst x)) (tl s).
  Proof.
    intros Gt. induction s as [|[G E] r IH]; intros lpos rpos Hs; [constructor|].
    destruct r as [|[G' E'] r']; [constructor|].
    cbn [tl]. cbn [hchunks] in Hs. cbn [separated] in Hs. destruct Hs as (H1 & _ & H3).
    constructor.
    - cbn [fst]. unfold hchunk_at in H1. cbn [LStart LEnd next_gapd] in H1. unfold apart, touching, slack. lia.
    - apply (IH _ _ H3).
  Qed.

  (* ---- (D) the non-context edits *)
  Lemma hchunks_changes : forall (Gt : gapd) (s : list hseg) lpos rpos,
      changes (flat_map edits (hchunks lpos rpos s Gt)) = changes (flat_map snd s).
  Proof.
    intros Gt. induction s as [|[G E] r IH]; intros; cbn [hchunks flat_map]; [reflexivity|].
    rewrite !changes_app, IH. unfold hchunk_at. cbn [edits snd].
    rewrite !changes_app, !changes_ctx_edits. cbn [app]. rewrite app_nil_r. reflexivity.
  Qed.

  Lemma ac_rest_cores : forall n (r : list hseg), flat_map snd (ac_rest n r) = flat_map snd r.
  Proof. induction r as [|[G E] r IH]; [reflexivity|]. cbn [ac_rest map flat_map fst snd]. fold (ac_rest n r). rewrite IH. reflexivity. Qed.
  Lemma ac_segs_cores : forall n (s : list hseg), flat_map snd (ac_segs n s) = flat_map snd s.
  Proof. intros n [|[G E] r]; [reflexivity|]. cbn [ac_segs flat_map snd]. rewrite ac_rest_cores. reflexivity. Qed.

  Lemma un_aux_changes : forall (r : list hseg) G E,
      changes (flat_map snd (un_aux G E r)) = changes (E ++ flat_map snd r).
  Proof.
    induction r as [|[G' E'] r IH]; intros; cbn [un_aux].
    - reflexivity.
    - destruct (touching G').
      + rewrite IH. cbn [flat_map snd]. rewrite !changes_app, changes_map_emit. cbn [app]. lapp.
      + cbn [flat_map snd]. rewrite !changes_app, IH, changes_app. reflexivity.
  Qed.
  Lemma un_segs_changes : forall s : list hseg, changes (flat_map snd (un_segs s)) = changes (flat_map snd s).
  Proof. intros [|[G E] r]; [reflexivity|]. apply un_aux_changes. Qed.

  Lemma hchunks_change : forall (Gt : gapd) (s : list hseg) lpos rpos,
      Forall (fun x => ends_ok T (snd x)) s -> Forall has_change (hchunks lpos rpos s Gt).
  Proof.
    intros Gt. induction s as [|[G E] r IH]; intros lpos rpos H; cbn [hchunks]; constructor.
    - unfold has_change, hchunk_at. cbn [edits]. rewrite !existsb_app.
      rewrite (ends_ok_change T E (Forall_inv H)). rewrite orb_true_r. reflexivity.
    - apply IH. exact (Forall_inv_tail H).
  Qed.

  (* ---- (E) one AddContext call: at most n lines before and after each chunk, nothing else *)
  Lemma hchunks_ctx_of : forall n N (Gt : gapd) (r : list hseg) sd G E lpos rpos,
      sd <> PostOnly -> 0 <= N -> n <= N ->
      Forall2 (ctx_of N) (hchunks lpos rpos ((G, E) :: r) Gt)
              (hchunks lpos rpos ((ac_gap sd n G, E) :: ac_rest n r) (ac_gap PostOnly n Gt)).
  Proof.
    intros n N Gt. induction r as [|[G' E'] r' IH]; intros sd G E lpos rpos Hsd HN HnN.
    - cbn [hchunks ac_rest map next_gapd]. constructor; [|constructor].
      exists (ctx_pre n (free G)), (ctx_post n (free Gt)).
      rewrite len_ctx_pre, len_ctx_post. pose proof (len_nonneg _ (free G)). pose proof (len_nonneg _ (free Gt)).
      unfold hchunk_at. cbn [edits LStart LEnd RStart REnd].
      rewrite ac_gap_flat, (ac_gap_pres T sd n G Hsd), (ac_gap_posts T PostOnly n Gt) by discriminate.
      rewrite !ctx_edits_app, !ctx_edits_opt, !concat_app, !concat_opt. lens.
      rewrite len_ctx_pre, len_ctx_post.
      repeat split; try lia. lapp.
    - cbn [ac_rest map fst snd]. fold (ac_rest n r').
      change (hchunks lpos rpos ((G, E) :: (G', E') :: r') Gt)
        with (hchunk_at lpos rpos G E G' ::
              hchunks (lpos + len (flat G) + len (edits_consume E)) (rpos + len (flat G) + len (edits_produce E))
                      ((G', E') :: r') Gt).
      change (hchunks lpos rpos ((ac_gap sd n G, E) :: (ac_gap Both n G', E') :: ac_rest n r') (ac_gap PostOnly n Gt))
        with (hchunk_at lpos rpos (ac_gap sd n G) E (ac_gap Both n G') ::
              hchunks (lpos + len (flat (ac_gap sd n G)) + len (edits_consume E))
                      (rpos + len (flat (ac_gap sd n G)) + len (edits_produce E))
                      ((ac_gap Both n G', E') :: ac_rest n r') (ac_gap PostOnly n Gt)).
      rewrite ac_gap_flat. constructor.
      + exists (ctx_pre n (free G)), (ctx_post n (free G')).
        rewrite len_ctx_pre, len_ctx_post. pose proof (len_nonneg _ (free G)). pose proof (len_nonneg _ (free G')).
        unfold hchunk_at. cbn [edits LStart LEnd RStart REnd].
        rewrite ac_gap_flat, (ac_gap_pres T sd n G Hsd), (ac_gap_posts T Both n G') by discriminate.
        rewrite !ctx_edits_app, !ctx_edits_opt, !concat_app, !concat_opt. lens.
        rewrite len_ctx_pre, len_ctx_post.
        repeat split; try lia. lapp.
      + apply IH; [discriminate|assumption|assumption].
  Qed.

  Lemma hchunks_ctx_step : forall n (s : list hseg) (Gt : gapd),
      Forall2 (ctx_of (Z.max 0 n)) (hchunks 1 1 s Gt) (hchunks 1 1 (ac_segs n s) (ac_last n s Gt)).
  Proof.
    intros n [|[G E] r] Gt; [constructor|]. cbn [ac_segs ac_last].
    apply hchunks_ctx_of; [discriminate|lia|lia].
  Qed.
End HistProps.

Arguments nonover {T} G.
