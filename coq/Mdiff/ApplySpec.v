(* SPEC: reference appliers for the normal, unified and context diff formats, written from the
   GNU diffutils manual ("Detailed Description of Normal Format", "... Unified Format",
   "... Context Format") and validated against GNU diff's own output and GNU patch
   (design-spikes/reference_appliers_validation.go.txt; 930/930 in each of 7 modes).

   They are strict: a hunk applies exactly at the left line numbers it names (GNU patch also
   searches nearby offsets), old lines must match, ranges must agree with the hunk body.
   With [strict = true] the numbers that describe the NEW file must be right as well: the
   right-hand range of a change command / hunk must be exactly where its new lines land in the
   output (GNU patch only reports these numbers; the formats define them), line counts of both
   ranges must agree with the body, an add command has no old lines and a delete command no new
   ones.  [strict = false] is the reading that ignores the right-hand numbers (kept for the
   driver's diagnosis: "applies only when the new-file numbers are ignored").
   The file being patched is [l]; [pos] old lines have been consumed, [rem] = l[pos:] and [opos]
   lines of the new file have been produced.  Result None = the patch does not apply.
   Definitions only. *)
From Coq Require Import NArith ZArith List Bool.
Import ListNotations.
From Mds Require Export Mdiff.FormatLines.
Local Open Scope Z_scope.

Definition take_z {A} (n : Z) (l : list A) : list A := firstn (Z.to_nat n) l.
Definition drop_z {A} (n : Z) (l : list A) : list A := skipn (Z.to_nat n) l.

Fixpoint lines_eqb (a b : list line) : bool :=
  match a, b with
  | [], [] => true
  | x :: a', y :: b' => bytes_eqb x y && lines_eqb a' b'
  | _, _ => false
  end.

(* "a" (the single line a) or "a,b" (lines a through b) *)
Definition parse_range (s : bytes) : option (Z * Z) :=
  match cut_byte 44 s with
  | None => match atoi s with Some lo => Some (lo, lo) | None => None end
  | Some (a, b) =>
    match atoi a, atoi b with
    | Some lo, Some hi => Some (lo, hi)
    | _, _ => None
    end
  end.

(* the leading lines that start with [pfx], without it; and the lines after them *)
Fixpoint take_prefixed (pfx : bytes) (p : list line) : list line * list line :=
  match p with
  | [] => ([], [])
  | l :: p' =>
    match cut_prefix pfx l with
    | Some r => let '(a, b) := take_prefixed pfx p' in (r :: a, b)
    | None => ([], p)
    end
  end.

(* ---------------------------------------------------------------- normal *)
(* change commands  LaR (add after line L),  FcT (change lines F),  RdL (delete lines R) *)
Fixpoint index_cmd (s : bytes) : option (bytes * N * bytes) :=
  match s with
  | [] => None
  | b :: s' =>
    if N.eqb b 97 || N.eqb b 99 || N.eqb b 100 then Some ([], b, s')
    else match index_cmd s' with Some (x, c, y) => Some (b :: x, c, y) | None => None end
  end.

Fixpoint apply_normal_loop (strict : bool) (fuel : nat) (p : list line) (pos opos : Z) (rem : list line)
  : option (list line) :=
  match fuel with
  | O => None
  | S f =>
    match p with
    | [] => Some rem
    | cmd_line :: p1 =>
      match index_cmd cmd_line with
      | None => None
      | Some (range, cmd, nrange) =>
        match parse_range range, parse_range nrange with
        | Some (lo, hi), Some (nlo, nhi) =>
          let '(del, p2) := take_prefixed s_lt p1 in
          let p3 := match p2 with
                    | l :: p' => if bytes_eqb l s_sep then p' else p2
                    | [] => p2
                    end in
          let '(add, p4) := take_prefixed s_gt p3 in
          if N.eqb cmd 97 then
            (* LaR: add after old line L; the new lines are lines R of the new file *)
            let nfirst := opos + (lo - pos) in
            if (lo <? pos) || (llen rem <? lo - pos)
               || (strict && (negb (hi =? lo) || negb (is_nil del)
                              || negb (nlo =? nfirst + 1) || negb (nhi =? nfirst + llen add)))
            then None
            else match apply_normal_loop strict f p4 lo (nfirst + llen add) (drop_z (lo - pos) rem) with
                 | Some out => Some (take_z (lo - pos) rem ++ add ++ out)
                 | None => None
                 end
          else
            (* FcT: old lines F become new lines T;  RdL: old lines R are deleted, they would have
               followed new line L.  The old lines must be [del]. *)
            let nfirst := opos + (lo - 1 - pos) in
            if (lo - 1 <? pos) || (hi <? lo - 1) || (llen rem <? hi - pos)
               || negb (lines_eqb (take_z (hi - (lo - 1)) (drop_z (lo - 1 - pos) rem)) del)
               || (strict && (if N.eqb cmd 100
                              then negb (nlo =? nfirst) || negb (nhi =? nlo) || negb (is_nil add)
                              else negb (nlo =? nfirst + 1) || negb (nhi =? nfirst + llen add)))
            then None
            else match apply_normal_loop strict f p4 hi (nfirst + llen add) (drop_z (hi - pos) rem) with
                 | Some out => Some (take_z (lo - 1 - pos) rem ++ add ++ out)
                 | None => None
                 end
        | _, _ => None
        end
      end
    end
  end.

Definition apply_normal_gen (strict : bool) (l : list line) (p : list line) : option (list line) :=
  apply_normal_loop strict (S (length p)) p 0 0 l.
Definition apply_normal := apply_normal_gen true.

(* ---------------------------------------------------------------- unified *)
(* "s" (one line: count 1) or "s,c"; an empty range (c = 0) names the line BEFORE it *)
Definition u_range (s : bytes) : option (Z * Z) :=
  match cut_byte 44 s with
  | None => match atoi s with Some st => Some (st, 1) | None => None end
  | Some (a, b) =>
    match atoi a, atoi b with
    | Some st, Some c => Some (st, c)
    | _, _ => None
    end
  end.

Definition trim_prefix (pfx s : bytes) : bytes :=
  match cut_prefix pfx s with Some r => r | None => s end.

(* hunk body: lines up to the next "@@" line.  (output, old lines seen, new lines seen,
   file lines left, patch lines left) *)
Fixpoint apply_ubody (p : list line) (rem : list line) (old new : Z)
  : option (list line * Z * Z * list line * list line) :=
  match p with
  | [] => Some ([], old, new, rem, [])
  | ln :: p' =>
    if has_prefix s_atat ln then Some ([], old, new, rem, p) else
    match ln with
    | [] => None
    | c :: t =>
      if N.eqb c 32 then
        match rem with
        | x :: rem' =>
          if bytes_eqb x t then
            match apply_ubody p' rem' (old + 1) (new + 1) with
            | Some (out, o, n, r, q) => Some (x :: out, o, n, r, q)
            | None => None
            end
          else None
        | [] => None
        end
      else if N.eqb c 45 then
        match rem with
        | x :: rem' => if bytes_eqb x t then apply_ubody p' rem' (old + 1) new else None
        | [] => None
        end
      else if N.eqb c 43 then
        match apply_ubody p' rem old (new + 1) with
        | Some (out, o, n, r, q) => Some (t :: out, o, n, r, q)
        | None => None
        end
      else None
    end
  end.

Fixpoint apply_uhunks (strict : bool) (fuel : nat) (p : list line) (pos opos : Z) (rem : list line)
  : option (list line) :=
  match fuel with
  | O => None
  | S f =>
    match p with
    | [] => Some rem
    | h :: p1 =>
      match fields h with
      | f0 :: f1 :: f2 :: f3 :: _ =>
        if negb (bytes_eqb f0 s_atat) || negb (bytes_eqb f3 s_atat) then None else
        match u_range (trim_prefix s_minus f1), u_range (trim_prefix s_plus f2) with
        | Some (ls, lc), Some (rs, rc) =>
          (* 0-based index of the first old line of the hunk; an empty hunk follows line ls.
             The same rule for the new file: its lines land at index [nfirst] of the output. *)
          let first := if lc =? 0 then ls else ls - 1 in
          let nfirst := if rc =? 0 then rs else rs - 1 in
          if (first <? pos) || (llen rem <? first - pos)
             || (strict && negb (nfirst =? opos + (first - pos))) then None else
          match apply_ubody p1 (drop_z (first - pos) rem) 0 0 with
          | None => None
          | Some (out, o, n, rem', p2) =>
            if negb (o =? lc) || negb (n =? rc) then None else
            match apply_uhunks strict f p2 (first + o) (opos + (first - pos) + n) rem' with
            | Some out' => Some (take_z (first - pos) rem ++ out ++ out')
            | None => None
            end
          end
        | _, _ => None
        end
      | _ => None
      end
    end
  end.

Fixpoint skip_uheader (p : list line) : list line :=
  match p with
  | l :: p' => if has_prefix s_mmm l || has_prefix s_ppp l then skip_uheader p' else p
  | [] => []
  end.

Definition apply_unified_gen (strict : bool) (l : list line) (p : list line) : option (list line) :=
  let p' := skip_uheader p in apply_uhunks strict (S (length p')) p' 0 0 l.
Definition apply_unified := apply_unified_gen true.

(* ---------------------------------------------------------------- context *)
Definition has_suffix (sfx s : bytes) : bool := has_prefix (rev sfx) (rev s).
(* the text between a 4-byte prefix and a 5-byte suffix *)
Definition middle (s : bytes) : bytes := rev (skipn 5 (rev (skipn 4 s))).

Definition is_old_range (l : line) : bool := has_prefix s_sss l && has_suffix s_4stars l.
Definition is_new_range (l : line) : bool := has_prefix s_mmm l && has_suffix s_4dashes l.

(* section lines (2-byte tag, text) up to a line satisfying [stop]; None if a line is too short *)
Fixpoint take_section (stop : line -> bool) (p : list line)
  : option (list (bytes * line) * list line) :=
  match p with
  | [] => Some ([], [])
  | l :: p' =>
    if stop l then Some ([], p) else
    match l with
    | a :: b :: t =>
      match take_section stop p' with
      | Some (sec, q) => Some (([a; b], t) :: sec, q)
      | None => None
      end
    | _ => None
    end
  end.

Definition sec_text (sec : list (bytes * line)) : list line := map snd sec.
Definition sec_without (tag : bytes) (sec : list (bytes * line)) : list line :=
  map snd (filter (fun e => negb (bytes_eqb (fst e) tag)) sec).

Fixpoint apply_cchunks (strict : bool) (fuel : nat) (p : list line) (pos opos : Z) (rem : list line)
  : option (list line) :=
  match fuel with
  | O => None
  | S f =>
    match p with
    | [] => Some rem
    | st :: p1 =>
      if negb (bytes_eqb st s_stars15) then None else
      match p1 with
      | [] => None
      | orange :: p2 =>
        if negb (is_old_range orange) then None else
        match parse_range (middle orange) with
        | None => None
        | Some (lo, hi) =>
          match take_section is_new_range p2 with
          | None | Some (_, []) => None
          | Some (old_sec, nrange :: p3) =>       (* the "--- r ----" line *)
            match parse_range (middle nrange), take_section (fun l => bytes_eqb l s_stars15) p3 with
            | Some (nlo, nhi), Some (new_sec, p4) =>
              (* an omitted section is reconstructed from the context lines of the other *)
              let old_lines := if is_nil old_sec then sec_without [43; 32]%N new_sec
                               else sec_text old_sec in
              let new_lines := if is_nil new_sec then sec_without [45; 32]%N old_sec
                               else sec_text new_sec in
              (* old lines are l[lo-1 : hi]; with no old lines: "s,s-1" is the empty range
                 before line s, a bare number names the line before the insertion.  The same
                 rule for the new range and the output. *)
              let first := if is_nil old_lines then (if hi <? lo then lo - 1 else lo)
                           else lo - 1 in
              let nfirst := if is_nil new_lines then (if nhi <? nlo then nlo - 1 else nlo)
                            else nlo - 1 in
              let n := llen old_lines in
              let m := llen new_lines in
              if (first <? pos) || (llen rem <? first - pos + n)
                 || negb (lines_eqb (take_z n (drop_z (first - pos) rem)) old_lines)
                 || (strict && (negb (hi - first =? n) || negb (nhi - nfirst =? m)
                                || negb (nfirst =? opos + (first - pos))))
              then None
              else match apply_cchunks strict f p4 (first + n) (opos + (first - pos) + m)
                           (drop_z (first - pos + n) rem) with
                   | Some out => Some (take_z (first - pos) rem ++ new_lines ++ out)
                   | None => None
                   end
            | _, _ => None
            end
          end
        end
      end
    end
  end.

(* the file header: a line "*** from-file..." followed by a line "--- to-file...", before the
   first hunk (every hunk starts with the line of 15 stars, which does not start with "*** ") *)
Definition skip_cheader (p : list line) : list line :=
  match p with
  | l1 :: l2 :: p' => if has_prefix s_sss l1 && has_prefix s_mmm l2 then p' else p
  | _ => p
  end.

Definition apply_context_gen (strict : bool) (l : list line) (p : list line) : option (list line) :=
  let p' := skip_cheader p in apply_cchunks strict (S (length p')) p' 0 0 l.
Definition apply_context := apply_context_gen true.
