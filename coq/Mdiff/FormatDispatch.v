(* The two dispatchers of mdiff: definitions only.

     mdiff.go   func (d *Diff) Format(w io.Writer, f FormatFunc, fi *FileInfo) error { return f(w, d.Chunks, fi) }
     reader.go  func (p *Patch) Format(w io.Writer, f FormatFunc) error { return f(w, p.Chunks, p.FileInfo) }
     format.go  type FormatFunc func(w io.Writer, ch []*Chunk, fi *FileInfo) error

   In the model a formatter is the function from the file info and the chunk list to the bytes it
   writes ([format_func]: what FormatModel.unified / context / normal are); a dispatcher hands it
   the receiver's chunk list and the file info -- the argument for a Diff, the stored one for a
   Patch -- and writes nothing of its own.  The three formatters of format.go as format_funcs:
   [ff_unified v], [ff_context], [ff_normal] (Normal ignores the file info: its third parameter is
   blank). *)
From Coq Require Import NArith ZArith List.
Import ListNotations.
From Mds Require Import Mdiff.MdiffModel Mdiff.FormatModel Mdiff.ReaderModel.

Section Dispatch.
Variable time : Type.
Variable time_is_zero : time -> bool.
Variable format_time : time -> bytes.

Definition format_func : Type := option (file_info time) -> list (chunk line) -> bytes.

(* return f(w, d.Chunks, fi) *)
Definition diff_format (d : diff line) (f : format_func) (fi : option (file_info time)) : bytes :=
  f fi (Chunks d).

(* return f(w, p.Chunks, p.FileInfo) *)
Definition patch_format (p : patch time) (f : format_func) : bytes :=
  f (p_info p) (p_chunks p).

Definition ff_unified (v : variant) : format_func := fun fi cs => unified time_is_zero format_time v fi cs.
Definition ff_context : format_func := fun fi cs => context time_is_zero format_time fi cs.
Definition ff_normal : format_func := fun _ cs => normal cs.

End Dispatch.

Arguments diff_format {time} d f fi.
Arguments patch_format {time} p f.
Arguments ff_unified {time} time_is_zero format_time v.
Arguments ff_context {time} time_is_zero format_time.
Arguments ff_normal {time}.
