(* C13 proofs, part 5: the theorems about New -> AddContext n -> Unify, for every script that
   transforms Left into Right, every n, and every reflexive line comparison. *)
From Coq Require Import ZArith List Bool Lia ZifyBool.
Import ListNotations.
From Mds Require Import Gen.MdiffIdx Mdiff.MdiffModel Mdiff.MdiffSpec Mdiff.MdiffProofsBase
     Mdiff.MdiffProofsNew Mdiff.MdiffProofsCtx Mdiff.MdiffProofsUnify Mdiff.MdiffProofsProps.
Local Open Scope Z_scope.

Section Main.
  Variable T : Type.
  Variable eqb : T -> T -> bool.
  Hypothesis eqb_refl : forall a, eqb a a = true.
  Notation edit := (edit T).
  Notation chunk := (chunk T).

  Theorem unify_ctx_ok : forall n gt (segs : list (seg T)),
      segs_wf segs ->
      unify_chunks (ctx_chunks n 1 1 segs gt) = Ok (ctx_chunks n 1 1 (merge_segs T n segs) gt).
  Proof.
    intros n gt [|[g E] r] [Hc Hg]; [reflexivity|].
    cbn [tl] in Hg. inversion Hc as [|? ? HE Hr]; subst. cbn [snd] in HE.
    unfold unify_chunks. cbn [ctx_chunks merge_segs].
    replace (uc_empty _) with false.
    2:{ unfold uc_empty. lens. match goal with |- context [len ?l] => pose proof (len_nonneg _ l) end. lia. }
    cbn [zth Z.ltb Z.compare Z.to_nat nth_error]. unfold uc_rest_lo. rewrite drop_one. cbn [bind].
    destruct (unify_loop_ok T n gt r g E [] 1 1) as (st & Hst & Hres).
    - apply core_wf_ends. assumption.
    - pose proof (Forall_and Hr Hg) as H. eapply Forall_impl; [|exact H].
      intros [g' E'] [H1 H2]. split; [apply core_wf_ends; assumption|assumption].
    - rewrite Hst. cbn [bind]. rewrite Hres. reflexivity.
  Qed.

  (* the three stages in terms of one segment decomposition *)
  Theorem pipeline_segs : forall (L R : list T) (es : list edit) n,
      script_ok L R es ->
      exists (segs : list (seg T)) (gt : list T),
        L = segs_left segs ++ gt /\ R = segs_right segs ++ gt /\ segs_wf segs /\
        (Forall (edit_ne T) es -> flat_map snd segs = changes es) /\
        new_chunks es = seg_chunks 1 1 segs /\
        add_context eqb L R n (new_chunks es) = Ok (ctx_chunks n 1 1 segs gt) /\
        unify_chunks (ctx_chunks n 1 1 segs gt) = Ok (ctx_chunks n 1 1 (merge_segs T n segs) gt).
  Proof.
    intros L R es n Hs.
    destruct (new_chunks_segs T L R es Hs) as (segs & gt & Hn & HL & HR & Hwf & Hch).
    exists segs, gt. repeat (split; try assumption).
    - rewrite Hn. apply add_context_ok; assumption.
    - apply unify_ctx_ok. assumption.
  Qed.

  Lemma seg_chunks_edits : forall (segs : list (seg T)) l r, flat_map edits (seg_chunks l r segs) = flat_map snd segs.
  Proof. induction segs as [|[g E] s IH]; intros; cbn; [reflexivity|]. rewrite IH. reflexivity. Qed.

  Lemma seg_chunks_no_emit : forall (segs : list (seg T)) l r,
      segs_wf segs -> Forall (fun c => no_emit (edits c)) (seg_chunks l r segs).
  Proof.
    intros segs l r [H _]. revert l r. induction H as [|[g E] s [Hne _] _ IH]; intros; cbn [seg_chunks]; constructor.
    - exact Hne.
    - apply IH.
  Qed.

  Lemma merged_gap_free : forall n m (segs : list (seg T)),
      segs_wf segs -> m <= n -> Forall (gap_free T m) (tl (merge_segs T n segs)).
  Proof.
    intros n m segs Hwf Hm. eapply Forall_impl; [|apply merge_segs_wide; exact Hwf].
    intros s [H1 H2]. unfold gap_free. lia.
  Qed.

  (* ---- New *)
  Theorem new_correct : forall (L R : list T) (es : list edit),
      script_ok L R es ->
      let cn := new_chunks es in
      Forall (chunk_ok L R) cn /\ separated 1 cn /\ apply_chunks L cn = R /\
      Forall (fun c => Forall (fun e => is_emit e = false) (edits c)) cn /\
      (Forall (fun e => is_emit e = false -> edit_consume e <> [] \/ edit_produce e <> []) es ->
       flat_map edits cn = changes es) /\
      Edits (new_diff L R es) = es /\ Left (new_diff L R es) = L /\ Right (new_diff L R es) = R.
  Proof.
    intros L R es Hs cn.
    destruct (new_chunks_segs T L R es Hs) as (segs & gt & Hn & HL & HR & Hwf & Hch).
    subst cn. rewrite Hn. rewrite <- (ctx_chunks_0 0 segs 1 1 gt) by lia.
    pose proof (wf_gap_free_0 T 0 segs (Z.le_refl 0) Hwf) as Hgf.
    split; [apply (ctx_chunks_ok T L R 0 gt segs [] []); try reflexivity; assumption|].
    split; [apply ctx_chunks_separated; assumption|].
    split; [apply apply_ctx; assumption|].
    rewrite ctx_chunks_0 by lia.
    split; [apply seg_chunks_no_emit; assumption|].
    split; [intros H; rewrite seg_chunks_edits; apply Hch; exact H|].
    repeat split.
  Qed.

  (* ---- AddContext *)
  Theorem add_context_correct : forall (L R : list T) (es : list edit) n,
      script_ok L R es -> 0 <= n ->
      exists ca,
        add_context eqb L R n (new_chunks es) = Ok ca /\
        Forall (chunk_ok L R) ca /\
        Forall2 (ctx_of n) (new_chunks es) ca.
  Proof.
    intros L R es n Hs Hn0.
    destruct (pipeline_segs L R es n Hs) as (segs & gt & HL & HR & Hwf & Hch & Hn & Ha & _).
    exists (ctx_chunks n 1 1 segs gt). split; [assumption|].
    split; [apply (ctx_chunks_ok T L R n gt segs [] []); try reflexivity; assumption|].
    rewrite Hn. apply ctx_chunks_ctx_of. assumption.
  Qed.

  (* AddContext with n <= 0 changes nothing, whatever the chunks *)
  Theorem add_context_nonpositive : forall (L R : list T) n (cs : list chunk),
      n <= 0 -> add_context eqb L R n cs = Ok cs.
  Proof.
    intros. unfold add_context, add_context_v. replace (ac_skip n (len cs)) with true by (unfold ac_skip; lia).
    reflexivity.
  Qed.

  (* ---- Unify *)
  Theorem unify_correct : forall (L R : list T) (es : list edit) n,
      script_ok L R es -> 0 <= n ->
      exists ca cu base,
        add_context eqb L R n (new_chunks es) = Ok ca /\
        unify_chunks ca = Ok cu /\
        Forall (chunk_ok L R) cu /\ separated 1 cu /\ apply_chunks L cu = R /\
        Forall2 (ctx_of n) base cu /\
        Forall (chunk_ok L R) base /\ separated 1 base /\ apply_chunks L base = R /\
        changes (flat_map edits base) = flat_map edits (new_chunks es) /\
        changes (flat_map edits cu) = flat_map edits (new_chunks es).
  Proof.
    intros L R es n Hs Hn0.
    destruct (pipeline_segs L R es n Hs) as (segs & gt & HL & HR & Hwf & Hch & Hn & Ha & Hu).
    set (ms := merge_segs T n segs).
    assert (HLm : L = segs_left ms ++ gt) by (unfold ms; rewrite merge_segs_left; assumption).
    assert (HRm : R = segs_right ms ++ gt) by (unfold ms; rewrite merge_segs_right; assumption).
    assert (Hgn : Forall (gap_free T n) (tl ms)) by (apply merged_gap_free; [assumption|lia]).
    assert (Hg0 : Forall (gap_free T 0) (tl ms)) by (apply merged_gap_free; assumption).
    assert (Hchg : changes (flat_map snd ms) = flat_map edits (new_chunks es)).
    { unfold ms. rewrite merge_segs_changes, Hn, seg_chunks_edits. apply segs_wf_changes. assumption. }
    exists (ctx_chunks n 1 1 segs gt), (ctx_chunks n 1 1 ms gt), (ctx_chunks 0 1 1 ms gt).
    split; [assumption|]. split; [assumption|].
    split; [apply (ctx_chunks_ok T L R n gt ms [] []); try reflexivity; assumption|].
    split; [apply ctx_chunks_separated; assumption|].
    split; [apply apply_ctx; assumption|].
    split; [rewrite (ctx_chunks_0 0 ms 1 1 gt) by lia; apply ctx_chunks_ctx_of; assumption|].
    split; [apply (ctx_chunks_ok T L R 0 gt ms [] []); try reflexivity; assumption|].
    split; [apply ctx_chunks_separated; assumption|].
    split; [apply apply_ctx; assumption|].
    split; rewrite ctx_chunks_changes; assumption.
  Qed.

  (* ---- the Diff methods leave Left, Right and Edits alone (in the model; that the
     implementation does not disturb them through aliasing is checked by the correspondence) *)
  Theorem diff_methods_keep : forall n (d d' : diff T),
      (diff_add_context eqb n d = Ok d' \/ diff_unify d = Ok d') ->
      Edits d' = Edits d /\ Left d' = Left d /\ Right d' = Right d.
  Proof.
    intros n d d' [H|H]; [unfold diff_add_context in H|unfold diff_unify in H];
      match type of H with bind ?x _ = _ => destruct x; cbn [bind] in H; [|discriminate] end;
      injection H as <-; repeat split.
  Qed.
End Main.
