(* The context rendering of a chunk list that describes how L becomes R, applied to L by the
   reference applier for the context format, gives R.  Holds on the code as it stands (the
   context formatter spells an empty range "s,s-1", which the applier reads as the empty range
   before line s). *)
From Coq Require Import NArith ZArith List Bool Lia.
Import ListNotations.
From Mds Require Import Mdiff.ReaderModel Mdiff.FormatSpec Mdiff.FormatProofs Mdiff.ReaderNormalProofs
  Mdiff.ReaderUnifiedProofs Mdiff.ApplySpec Mdiff.ApplyNormalProofs.
From Mds Require Import Gen.MdiffSpan.
Local Open Scope Z_scope.

Definition t_drop : bytes := [45; 32]%N.
Definition t_emit : bytes := [32; 32]%N.
Definition t_repl : bytes := [33; 32]%N.
Definition t_copy : bytes := [43; 32]%N.

Definition rline (m : bytes * line) : line := fst m ++ snd m.

Definition old_marks_edit (e : edit line) : list (bytes * line) :=
  match eop e with
  | Drop => map (pair t_drop) (X e)
  | Emit => map (pair t_emit) (X e)
  | Replace => map (pair t_repl) (X e)
  | Copy => []
  end.
Definition new_marks_edit (e : edit line) : list (bytes * line) :=
  match eop e with
  | Copy => map (pair t_copy) (Y e)
  | Emit => map (pair t_emit) (X e)
  | Replace => map (pair t_repl) (Y e)
  | Drop => []
  end.
Definition old_marks (es : list (edit line)) := flat_map old_marks_edit es.
Definition new_marks (es : list (edit line)) := flat_map new_marks_edit es.

Definition tag_ok (m : bytes * line) : Prop :=
  fst m = t_drop \/ fst m = t_emit \/ fst m = t_repl \/ fst m = t_copy.

Lemma cedit_old_marks e : cedit_old e = map rline (old_marks_edit e).
Proof. unfold cedit_old, old_marks_edit, write_lines. destruct (eop e); rewrite ?map_map; reflexivity. Qed.
Lemma cedit_new_marks e : cedit_new e = map rline (new_marks_edit e).
Proof. unfold cedit_new, new_marks_edit, write_lines. destruct (eop e); rewrite ?map_map; reflexivity. Qed.

Lemma old_lines_marks es : flat_map cedit_old es = map rline (old_marks es).
Proof.
  induction es as [|e es IH]; [reflexivity|]. unfold old_marks in *. cbn [flat_map].
  rewrite map_app, IH, cedit_old_marks. reflexivity.
Qed.
Lemma new_lines_marks es : flat_map cedit_new es = map rline (new_marks es).
Proof.
  induction es as [|e es IH]; [reflexivity|]. unfold new_marks in *. cbn [flat_map].
  rewrite map_app, IH, cedit_new_marks. reflexivity.
Qed.

Lemma marks_tag_ok_map t xs : tag_ok (t, []) -> Forall tag_ok (map (pair t) xs).
Proof. intros H. apply Forall_forall. intros m Hin. apply in_map_iff in Hin. destruct Hin as (x & <- & _). exact H. Qed.

Lemma old_marks_ok es : Forall tag_ok (old_marks es).
Proof.
  unfold old_marks. induction es as [|e es IH]; [constructor|]. cbn [flat_map].
  apply Forall_app. split; [|exact IH]. unfold old_marks_edit.
  destruct (eop e); try constructor; apply marks_tag_ok_map; unfold tag_ok; cbn; auto.
Qed.
Lemma new_marks_ok es : Forall tag_ok (new_marks es).
Proof.
  unfold new_marks. induction es as [|e es IH]; [constructor|]. cbn [flat_map].
  apply Forall_app. split; [|exact IH]. unfold new_marks_edit.
  destruct (eop e); try constructor; apply marks_tag_ok_map; unfold tag_ok; cbn; auto.
Qed.

(* ---- sections ---- *)
Lemma take_section_marks stop ms : forall rest,
  Forall tag_ok ms -> (forall m, tag_ok m -> stop (rline m) = false) ->
  match rest with [] => True | l :: _ => stop l = true end ->
  take_section stop (map rline ms ++ rest) = Some (ms, rest).
Proof.
  induction ms as [|[t x] ms IH]; intros rest Hok Hstop Hrest.
  - cbn [map app]. destruct rest as [|l rest]; [reflexivity|]. cbn [take_section]. rewrite Hrest. reflexivity.
  - inversion Hok as [|? ? Hm Hok']; subst. cbn [map app take_section].
    rewrite (Hstop _ Hm). rewrite IH by assumption.
    destruct Hm as [Hm|[Hm|[Hm|Hm]]]; cbn [fst] in Hm; subst t; reflexivity.
Qed.

Lemma not_new_range m : tag_ok m -> is_new_range (rline m) = false.
Proof. destruct m as [t x]. intros [H|[H|[H|H]]]; cbn [fst] in H; subst t; reflexivity. Qed.
Lemma not_stars m : tag_ok m -> bytes_eqb (rline m) s_stars15 = false.
Proof. destruct m as [t x]. intros [H|[H|[H|H]]]; cbn [fst] in H; subst t; reflexivity. Qed.

Lemma has_suffix_app a sfx : has_suffix sfx (a ++ sfx) = true.
Proof. unfold has_suffix, has_prefix. rewrite rev_app_distr, cut_prefix_app. reflexivity. Qed.

Lemma middle_app (p m s : bytes) : length p = 4%nat -> length s = 5%nat -> middle (p ++ m ++ s) = m.
Proof.
  intros Hp Hs. unfold middle.
  replace (skipn 4 (p ++ m ++ s)) with (m ++ s).
  - rewrite rev_app_distr.
    replace (skipn 5 (rev s ++ rev m)) with (rev m); [apply rev_involutive|].
    rewrite skipn_app. rewrite skipn_all2 by (rewrite rev_length; lia).
    rewrite rev_length, Hs. reflexivity.
  - rewrite skipn_app. rewrite skipn_all2 by lia. rewrite Hp. reflexivity.
Qed.

(* ---- what the sections say ---- *)
Lemma sec_text_map t xs : sec_text (map (pair t) xs) = xs.
Proof. unfold sec_text. rewrite map_map. cbn. apply map_id. Qed.

Lemma sec_text_app a b : sec_text (a ++ b) = sec_text a ++ sec_text b.
Proof. unfold sec_text. apply map_app. Qed.

Lemma sec_text_old es : sec_text (old_marks es) = consumed es.
Proof.
  induction es as [|e es IH]; [reflexivity|]. unfold old_marks in *. cbn [flat_map].
  rewrite sec_text_app, IH, consumed_cons. f_equal. unfold old_marks_edit.
  destruct (eop e); rewrite ?sec_text_map; reflexivity.
Qed.
Lemma sec_text_new es : sec_text (new_marks es) = produced es.
Proof.
  induction es as [|e es IH]; [reflexivity|]. unfold new_marks in *. cbn [flat_map].
  rewrite sec_text_app, IH, produced_cons. f_equal. unfold new_marks_edit.
  destruct (eop e); rewrite ?sec_text_map; reflexivity.
Qed.

Lemma sec_without_app t a b : sec_without t (a ++ b) = sec_without t a ++ sec_without t b.
Proof. unfold sec_without. rewrite filter_app, map_app. reflexivity. Qed.

Lemma sec_without_map_same t xs : sec_without t (map (pair t) xs) = [].
Proof.
  unfold sec_without. induction xs as [|x xs IH]; [reflexivity|].
  cbn [map filter fst]. rewrite bytes_eqb_refl. cbn [negb]. exact IH.
Qed.
Lemma sec_without_map_other t t' xs : bytes_eqb t' t = false -> sec_without t (map (pair t') xs) = xs.
Proof.
  intros H. unfold sec_without. induction xs as [|x xs IH]; [reflexivity|].
  cbn [map filter fst]. rewrite H. cbn [negb map snd]. f_equal. exact IH.
Qed.

(* no Replace and no Copy: the new section is omitted, the new lines are the context lines *)
Lemma without_drop_old es :
  has_relevant_edits es Copy = false -> sec_without t_drop (old_marks es) = produced es.
Proof.
  induction es as [|e es IH]; intros H; [reflexivity|].
  unfold has_relevant_edits in H. cbn [existsb] in H. apply orb_false_iff in H. destruct H as [He H].
  unfold old_marks in *. cbn [flat_map]. rewrite sec_without_app, IH by exact H. rewrite produced_cons.
  f_equal. unfold old_marks_edit. destruct (eop e); try discriminate He.
  - apply sec_without_map_same.
  - apply sec_without_map_other. reflexivity.
Qed.
(* no Replace and no Drop: the old section is omitted, the old lines are the context lines *)
Lemma without_copy_new es :
  has_relevant_edits es Drop = false -> sec_without t_copy (new_marks es) = consumed es.
Proof.
  induction es as [|e es IH]; intros H; [reflexivity|].
  unfold has_relevant_edits in H. cbn [existsb] in H. apply orb_false_iff in H. destruct H as [He H].
  unfold new_marks in *. cbn [flat_map]. rewrite sec_without_app, IH by exact H. rewrite consumed_cons.
  f_equal. unfold new_marks_edit. destruct (eop e); try discriminate He.
  - apply sec_without_map_other. reflexivity.
  - apply sec_without_map_same.
Qed.

Lemma old_marks_nonempty es :
  Forall normal_edit_ok es -> has_relevant_edits es Drop = true -> is_nil (old_marks es) = false.
Proof.
  induction 1 as [|e es He _ IH]; intros H; [discriminate H|].
  unfold has_relevant_edits in H. cbn [existsb] in H. unfold old_marks. cbn [flat_map].
  unfold normal_edit_ok in He. unfold old_marks_edit.
  destruct (eop e) eqn:E; cbn [orb] in H.
  - destruct (X e); [congruence | reflexivity].
  - destruct (X e); [apply IH; exact H | reflexivity].
  - apply IH. exact H.
  - destruct He as [He _]. destruct (X e); [congruence | reflexivity].
Qed.
Lemma new_marks_nonempty es :
  Forall normal_edit_ok es -> has_relevant_edits es Copy = true -> is_nil (new_marks es) = false.
Proof.
  induction 1 as [|e es He _ IH]; intros H; [discriminate H|].
  unfold has_relevant_edits in H. cbn [existsb] in H. unfold new_marks. cbn [flat_map].
  unfold normal_edit_ok in He. unfold new_marks_edit.
  destruct (eop e) eqn:E; cbn [orb] in H.
  - apply IH. exact H.
  - destruct (X e); [apply IH; exact H | reflexivity].
  - destruct (Y e); [congruence | reflexivity].
  - destruct He as [_ He]. destruct (Y e); [congruence | reflexivity].
Qed.

(* a chunk the context format can express: its commands have lines, and it changes something *)
Definition context_chunk_ok (c : chunk line) : Prop :=
  Forall normal_edit_ok (edits c) /\
  has_relevant_edits (edits c) Drop || has_relevant_edits (edits c) Copy = true.
Definition context_ok (cs : list (chunk line)) : Prop := Forall context_chunk_ok cs.

Definition chunk_stop (rest : list line) : Prop :=
  match rest with [] => True | l :: _ => bytes_eqb l s_stars15 = true end.

Lemma cchunks_stop cs : chunk_stop (flat_map cchunk_lines cs).
Proof. destruct cs as [|c cs]; [exact I|]. reflexivity. Qed.

(* old and new lines as the applier reconstructs them *)
Lemma sections_of_chunk es :
  Forall normal_edit_ok es ->
  has_relevant_edits es Drop || has_relevant_edits es Copy = true ->
  let old_sec := if has_relevant_edits es Drop then old_marks es else [] in
  let new_sec := if has_relevant_edits es Copy then new_marks es else [] in
  (if is_nil old_sec then sec_without t_copy new_sec else sec_text old_sec) = consumed es /\
  (if is_nil new_sec then sec_without t_drop old_sec else sec_text new_sec) = produced es.
Proof.
  intros Hok Hrel. cbn zeta.
  destruct (has_relevant_edits es Drop) eqn:Ed; destruct (has_relevant_edits es Copy) eqn:Ec;
    try discriminate Hrel.
  - rewrite old_marks_nonempty, new_marks_nonempty by assumption. split; [apply sec_text_old | apply sec_text_new].
  - rewrite old_marks_nonempty by assumption. cbn [is_nil]. split; [apply sec_text_old | apply without_drop_old; exact Ec].
  - rewrite new_marks_nonempty by assumption. cbn [is_nil]. split; [apply without_copy_new; exact Ed | apply sec_text_new].
Qed.

Definition old_sec_of (es : list (edit line)) := if has_relevant_edits es Drop then old_marks es else [].
Definition new_sec_of (es : list (edit line)) := if has_relevant_edits es Copy then new_marks es else [].

Lemma cchunk_lines_marks c :
  cchunk_lines c =
  s_stars15 :: (s_sss ++ dspan (LStart c) (LEnd c) ++ s_4stars)
  :: map rline (old_sec_of (edits c))
  ++ (s_mmm ++ dspan (RStart c) (REnd c) ++ s_4dashes) :: map rline (new_sec_of (edits c)).
Proof.
  unfold cchunk_lines, old_sec_of, new_sec_of, context_old_lo, context_old_hi, context_new_lo, context_new_hi. cbn [app]. f_equal. f_equal.
  rewrite old_lines_marks, new_lines_marks.
  destruct (has_relevant_edits (edits c) Drop); destruct (has_relevant_edits (edits c) Copy); reflexivity.
Qed.

Lemma apply_cchunks_chunks strict cs : forall lpos rpos l r,
  chunks_from lpos rpos l r cs -> context_ok cs ->
  forall fuel, (fuel > length (flat_map cchunk_lines cs))%nat ->
  apply_cchunks strict fuel (flat_map cchunk_lines cs) (lpos - 1) (rpos - 1) l = Some r.
Proof.
  intros lpos rpos l r H.
  induction H as [lpos rpos g0 | lpos rpos g0 c cs l r HL HR HLe HRe Hcf IH]; intros Hok fuel Hfuel.
  - destruct fuel; [cbn in Hfuel; lia|]. reflexivity.
  - inversion Hok as [|? ? (Hes & Hrel) Hok']; subst.
    destruct fuel as [|f]; [cbn in Hfuel; lia|].
    set (rest := flat_map cchunk_lines cs).
    assert (Hf : (f > length rest)%nat).
    { cbn [flat_map] in Hfuel. rewrite app_length in Hfuel. unfold cchunk_lines in Hfuel at 1.
      cbn [length app] in Hfuel. fold rest in Hfuel. lia. }
    cbn [flat_map]. fold rest. rewrite cchunk_lines_marks. cbn [app apply_cchunks].
    rewrite bytes_eqb_refl. cbn [negb].
    unfold is_old_range. unfold has_prefix at 1. rewrite cut_prefix_app.
    rewrite app_assoc, has_suffix_app, <- app_assoc. cbn [andb negb].
    rewrite middle_app by reflexivity. rewrite parse_range_dspan.
    rewrite <- app_assoc. cbn [app].
    set (old_sec := old_sec_of (edits c)). set (new_sec := new_sec_of (edits c)).
    assert (Hoo : Forall tag_ok old_sec)
      by (unfold old_sec, old_sec_of; destruct (has_relevant_edits (edits c) Drop); [apply old_marks_ok | constructor]).
    assert (Hno : Forall tag_ok new_sec)
      by (unfold new_sec, new_sec_of; destruct (has_relevant_edits (edits c) Copy); [apply new_marks_ok | constructor]).
    rewrite (take_section_marks is_new_range old_sec); [|exact Hoo | apply not_new_range|].
    2:{ cbn [app]. unfold is_new_range. unfold has_prefix. rewrite cut_prefix_app.
        rewrite app_assoc, has_suffix_app. reflexivity. }
    cbn [app].
    rewrite middle_app by reflexivity. rewrite parse_range_dspan.
    rewrite (take_section_marks (fun l => bytes_eqb l s_stars15) new_sec rest);
      [|exact Hno | apply not_stars | apply cchunks_stop].
    destruct (sections_of_chunk (edits c) Hes Hrel) as [Eold Enew].
    fold (old_sec_of (edits c)) (new_sec_of (edits c)) in Eold, Enew. fold old_sec new_sec in Eold, Enew.
    change [43%N; 32%N] with t_copy. change [45%N; 32%N] with t_drop.
    rewrite Eold, Enew.
    pose proof (llen_nonneg g0) as Hg. pose proof (llen_nonneg (consumed (edits c))) as Hc.
    pose proof (llen_nonneg l) as Hl0.
    set (n := llen (consumed (edits c))) in *.
    assert (Efirst : (if is_nil (consumed (edits c))
                      then (if LEnd c - 1 <? LStart c then LStart c - 1 else LStart c)
                      else LStart c - 1) = LStart c - 1).
    { destruct (consumed (edits c)) eqn:E; [|reflexivity]. cbn [is_nil].
      unfold n in HLe. rewrite llen_nil in HLe.
      replace (LEnd c - 1 <? LStart c) with true by (symmetry; apply Z.ltb_lt; lia). reflexivity. }
    rewrite Efirst.
    pose proof (llen_nonneg (produced (edits c))) as Hp.
    set (m := llen (produced (edits c))) in *.
    assert (Enfirst : (if is_nil (produced (edits c))
                      then (if REnd c - 1 <? RStart c then RStart c - 1 else RStart c)
                      else RStart c - 1) = RStart c - 1).
    { destruct (produced (edits c)) eqn:E; [|reflexivity]. cbn [is_nil].
      unfold m in HRe. rewrite llen_nil in HRe.
      replace (REnd c - 1 <? RStart c) with true by (symmetry; apply Z.ltb_lt; lia). reflexivity. }
    rewrite Enfirst.
    replace (strict && (negb (LEnd c - 1 - (LStart c - 1) =? n) || negb (REnd c - 1 - (RStart c - 1) =? m)
                        || negb (RStart c - 1 =? rpos - 1 + (LStart c - 1 - (lpos - 1))))) with false.
    2:{ replace (LEnd c - 1 - (LStart c - 1) =? n) with true by (symmetry; apply Z.eqb_eq; lia).
        replace (REnd c - 1 - (RStart c - 1) =? m) with true by (symmetry; apply Z.eqb_eq; lia).
        replace (RStart c - 1 =? rpos - 1 + (LStart c - 1 - (lpos - 1))) with true by (symmetry; apply Z.eqb_eq; lia).
        cbn [negb orb]. symmetry. apply andb_false_r. }
    replace (LStart c - 1 <? lpos - 1) with false by (symmetry; apply Z.ltb_ge; lia).
    replace (llen (g0 ++ consumed (edits c) ++ l) <? LStart c - 1 - (lpos - 1) + n) with false
      by (symmetry; apply Z.ltb_ge; rewrite !llen_app; fold n; lia).
    rewrite (drop_z_app g0) by lia.
    rewrite (take_z_app (consumed (edits c))) by reflexivity.
    rewrite lines_eqb_refl. cbn [orb negb].
    rewrite (take_z_app g0) by lia.
    replace (drop_z (LStart c - 1 - (lpos - 1) + n) (g0 ++ consumed (edits c) ++ l)) with l
      by (rewrite app_assoc; symmetry; apply drop_z_app; rewrite llen_app; fold n; lia).
    replace (LStart c - 1 + n) with (LEnd c - 1) by lia.
    replace (rpos - 1 + (LStart c - 1 - (lpos - 1)) + m) with (REnd c - 1) by lia.
    unfold rest. rewrite (IH Hok' f Hf). reflexivity.
Qed.

Section AnyTime.
  Variable time : Type.
  Variable time_is_zero : time -> bool.
  Variable format_time : time -> bytes.

  (* the file header (two lines, "*** ..." and "--- ...") is skipped whatever the names are *)
  Lemma skip_cheader_context fi cs :
    skip_cheader (context_lines time_is_zero format_time fi cs) = flat_map cchunk_lines cs.
  Proof.
    unfold context_lines. destruct cs as [|c cs]; [reflexivity|].
    destruct fi as [f|]; [|reflexivity].
    unfold context_header, file_header. cbn [app skip_cheader].
    unfold has_prefix. rewrite !cut_prefix_app. reflexivity.
  Qed.

  Theorem apply_context_lines strict fi L R cs :
    patch_ok L R cs -> context_ok cs ->
    apply_context_gen strict L (context_lines time_is_zero format_time fi cs) = Some R.
  Proof.
    intros H Hok. unfold apply_context_gen. rewrite skip_cheader_context.
    apply (apply_cchunks_chunks strict cs 1 1 L R H Hok). lia.
  Qed.

  Lemma marks_lines_nf ms :
    Forall tag_ok ms -> Forall newline_free (map snd ms) -> Forall newline_free (map rline ms).
  Proof.
    induction ms as [|[t x] ms IH]; intros Hok Hnf; [constructor|].
    inversion Hok as [|? ? Hm Hok']; subst. inversion Hnf as [|? ? Hx Hnf']; subst.
    cbn [map]. constructor; [|apply IH; assumption].
    unfold rline. cbn [fst snd] in *. apply nf_app; [|exact Hx].
    destruct Hm as [Hm|[Hm|[Hm|Hm]]]; cbn [fst] in Hm; subst t; unfold newline_free; cbn; intuition discriminate.
  Qed.

  Lemma consumed_nf es : Forall edit_lines_nf es -> Forall newline_free (consumed es).
  Proof.
    induction 1 as [|e es He _ IH]; [constructor|]. rewrite consumed_cons. unfold edit_lines_nf in He.
    apply Forall_app. split; [destruct (eop e); first [exact He | exact (proj1 He) | constructor] | exact IH].
  Qed.
  Lemma produced_nf es : Forall edit_lines_nf es -> Forall newline_free (produced es).
  Proof.
    induction 1 as [|e es He _ IH]; [constructor|]. rewrite produced_cons. unfold edit_lines_nf in He.
    apply Forall_app. split; [destruct (eop e); first [exact He | exact (proj2 He) | constructor] | exact IH].
  Qed.

  Lemma cchunk_lines_nf c : chunk_lines_nf c -> Forall newline_free (cchunk_lines c).
  Proof.
    intros Hc. rewrite cchunk_lines_marks.
    assert (H4s : newline_free s_4stars) by (unfold newline_free; cbn; intuition discriminate).
    assert (H4d : newline_free s_4dashes) by (unfold newline_free; cbn; intuition discriminate).
    assert (Hs : newline_free s_sss) by (unfold newline_free; cbn; intuition discriminate).
    assert (Hm : newline_free s_mmm) by (unfold newline_free; cbn; intuition discriminate).
    constructor; [unfold newline_free, s_stars15; cbn; intuition discriminate|].
    constructor; [apply nf_app; [exact Hs|]; apply nf_app; [apply span_bytes_nf, dspan_span | exact H4s]|].
    apply Forall_app. split; [|constructor].
    - apply marks_lines_nf.
      + unfold old_sec_of. destruct (has_relevant_edits (edits c) Drop); [apply old_marks_ok | constructor].
      + unfold old_sec_of. destruct (has_relevant_edits (edits c) Drop); [|constructor].
        change (map snd (old_marks (edits c))) with (sec_text (old_marks (edits c))).
        rewrite sec_text_old. apply consumed_nf. exact Hc.
    - apply nf_app; [exact Hm|]. apply nf_app; [apply span_bytes_nf, dspan_span | exact H4d].
    - apply marks_lines_nf.
      + unfold new_sec_of. destruct (has_relevant_edits (edits c) Copy); [apply new_marks_ok | constructor].
      + unfold new_sec_of. destruct (has_relevant_edits (edits c) Copy); [|constructor].
        change (map snd (new_marks (edits c))) with (sec_text (new_marks (edits c))).
        rewrite sec_text_new. apply produced_nf. exact Hc.
  Qed.

  Hypothesis format_nf : forall t, newline_free (format_time t).

  Lemma context_lines_nf fi cs :
    lines_nf cs -> info_ok time fi -> Forall newline_free (context_lines time_is_zero format_time fi cs).
  Proof.
    intros Hnf Hfi. unfold context_lines. destruct cs as [|c cs]; [constructor|].
    apply Forall_app. split.
    - destruct fi as [f|]; [|constructor]. destruct Hfi as [[_ Hl] [_ Hr]].
      assert (Hh : forall p n d ts, newline_free p -> newline_free n -> newline_free d ->
                     newline_free (file_header time_is_zero format_time p (name_or n d) ts)).
      { intros p n d ts Hp Hn Hd. unfold file_header. apply nf_app; [exact Hp|].
        apply nf_app; [unfold name_or; destruct n; assumption|].
        destruct (time_is_zero ts); [intros []|]. apply nf_cons; [discriminate | apply format_nf]. }
      unfold context_header.
      constructor; [|constructor; [|constructor]]; apply Hh; try assumption;
        unfold newline_free; cbn; intuition discriminate.
    - set (all := c :: cs) in *. clearbody all.
      induction Hnf as [|c' cs' Hc _ IH]; [constructor|].
      cbn [flat_map]. apply Forall_app. split; [apply cchunk_lines_nf; exact Hc | exact IH].
  Qed.

  Theorem apply_context_text_gen strict fi L R cs :
    patch_ok L R cs -> context_ok cs -> lines_nf cs -> info_ok time fi ->
    apply_context_gen strict L (split_lines (context time_is_zero format_time fi cs)) = Some R.
  Proof.
    intros H Hok Hnf Hfi. unfold context.
    rewrite split_join_lines by (apply context_lines_nf; assumption).
    apply apply_context_lines; assumption.
  Qed.

  Theorem apply_context_text fi L R cs :
    patch_ok L R cs -> context_ok cs -> lines_nf cs -> info_ok time fi ->
    apply_context L (split_lines (context time_is_zero format_time fi cs)) = Some R.
  Proof. apply apply_context_text_gen. Qed.
End AnyTime.
