(* C13 -> C14 interface: the chunk lists mdiff produces satisfy the well-formedness predicate the
   C14 application theorems take as hypothesis, [FormatSpec.patch_ok L R cs] (= chunks_from 1 1 L R cs:
   an unchanged gap, then the lines the chunk consumes/produces at exactly its recorded ranges,
   and so on; chunks ascending and disjoint, possibly adjacent).

   - after New: always ([new_patch_ok]);
   - after AddContext n: exactly when the contexts of neighbouring chunks do not overlap
     ([add_context_patch_ok]: separated 0 -> patch_ok; [patch_ok_separated]: the converse, for any
     chunk list; [add_context_overlap_not_patch_ok]: a concrete overlapping instance) -- chunks
     that overlap are NOT a patch in the sense of patch_ok, which is why Unify exists;
   - after AddContext n and Unify: always ([unify_patch_ok]);
   - every chunk, at every stage, contains an edit that is not context ([*_has_change]);
   - the same from the inputs alone with the C11 model of slice.EditScript ([composed_patch_ok]).
   The versions for every history of AddContext/Unify calls are in MdiffHistoryPatchOk.v. *)
From Coq Require Import ZArith List Bool Lia ZifyBool.
Import ListNotations.
From Mds Require Import Gen.MdiffIdx Mdiff.MdiffModel Mdiff.MdiffSpec Mdiff.MdiffProofsBase
     Mdiff.MdiffProofsNew Mdiff.MdiffProofsCtx Mdiff.MdiffProofsUnify Mdiff.MdiffProofsProps
     Mdiff.MdiffProofs Mdiff.MdiffProofsRefuted.
From Mds Require Import Mdiff.FormatSpec.
From Mds Require Import Slice.EditModel Slice.EditSpec Slice.EditTheorems Mdiff.MdiffCompose.
Local Open Scope Z_scope.

Section PatchOk.
  Variable T : Type.
  Notation edit := (edit T).
  Notation chunk := (chunk T).

  (* cf_cons with the C13 names for what a chunk consumes / produces, and the lists up to equality *)
  Lemma cf_cons' : forall lpos rpos (g : list T) (c : chunk) cs l r l' r',
      LStart c = lpos + len g -> RStart c = rpos + len g ->
      LEnd c = LStart c + len (edits_consume (edits c)) ->
      REnd c = RStart c + len (edits_produce (edits c)) ->
      chunks_from (LEnd c) (REnd c) l r cs ->
      l' = g ++ edits_consume (edits c) ++ l -> r' = g ++ edits_produce (edits c) ++ r ->
      chunks_from lpos rpos l' r' (c :: cs).
  Proof.
    intros lpos rpos g c cs l r l' r' H1 H2 H3 H4 H5 -> ->.
    rewrite <- (consumed_eq T), <- (produced_eq T) in *.
    apply cf_cons; assumption.
  Qed.

  (* the contexts taken from the two ends of a gap do not overlap (they may meet) *)
  Definition gap_le (n : Z) (s : seg T) : Prop := (2 * ctx_k n (fst s) <= length (fst s))%nat.

  Lemma ctx_chunks_from : forall n gt (r : list (seg T)) g E k lpos rpos,
      (k + ctx_k n g <= length g)%nat -> Forall (gap_le n) r ->
      chunks_from (lpos + Z.of_nat k) (rpos + Z.of_nat k)
        (skipn k g ++ edits_consume E ++ segs_left r ++ gt)
        (skipn k g ++ edits_produce E ++ segs_right r ++ gt)
        (ctx_chunks n lpos rpos ((g, E) :: r) gt).
  Proof.
    intros n gt. induction r as [|[g' E'] r' IH]; intros g E k lpos rpos Hk Hgf.
    - cbn [ctx_chunks next_gap segs_left segs_right app].
      destruct (split3 T g k (ctx_k n g) Hk) as (mid & Hg). fold (ctx_pre n g) in Hg.
      pose proof (ctx_post_split n gt) as Hgt.
      set (pre := ctx_pre n g) in *. set (post := ctx_post n gt) in *.
      set (gk := firstn k g) in *. set (g2 := skipn (ctx_k n gt) gt) in *.
      assert (Hgk : len gk = Z.of_nat k) by (unfold gk; apply len_firstn; lia).
      assert (Hsk : skipn k g = mid ++ pre).
      { rewrite Hg at 1. apply skipn_app_exact. unfold gk. rewrite firstn_length. lia. }
      assert (Hgl : len g = len gk + len mid + len pre) by (rewrite Hg at 1; lens; lia).
      apply (cf_cons' _ _ mid _ _ g2 g2); unfold ctx_chunk_at; cbn [edits LStart LEnd RStart REnd];
        fold pre; fold post; rewrite ?consume_ctx, ?produce_ctx; lens; try lia.
      + apply cf_nil.
      + rewrite Hsk. rewrite Hgt at 1. lapp.
      + rewrite Hsk. rewrite Hgt at 1. lapp.
    - pose proof (Forall_inv Hgf) as Hg'. pose proof (Forall_inv_tail Hgf) as Hr'.
      unfold gap_le in Hg'. cbn [fst] in Hg'.
      cbn [segs_left segs_right].
      set (le := lpos + len g + len (edits_consume E)).
      set (re := rpos + len g + len (edits_produce E)).
      change (ctx_chunks n lpos rpos ((g, E) :: (g', E') :: r') gt)
        with (ctx_chunk_at n lpos rpos g E g' :: ctx_chunks n le re ((g', E') :: r') gt).
      destruct (split3 T g k (ctx_k n g) Hk) as (mid & Hg). fold (ctx_pre n g) in Hg.
      pose proof (ctx_post_split n g') as Hgn.
      pose proof (ctx_k_val n g') as Hkv. pose proof (len_ctx_post n g') as Hpl.
      set (pre := ctx_pre n g) in *. set (post := ctx_post n g') in *.
      set (gk := firstn k g) in *. set (g2 := skipn (ctx_k n g') g') in *.
      assert (Hgk : len gk = Z.of_nat k) by (unfold gk; apply len_firstn; lia).
      assert (Hsk : skipn k g = mid ++ pre).
      { rewrite Hg at 1. apply skipn_app_exact. unfold gk. rewrite firstn_length. lia. }
      assert (Hgl : len g = len gk + len mid + len pre) by (rewrite Hg at 1; lens; lia).
      specialize (IH g' E' (ctx_k n g') le re ltac:(lia) Hr'). fold g2 in IH.
      apply (cf_cons' _ _ mid _ _ (g2 ++ edits_consume E' ++ segs_left r' ++ gt)
                                  (g2 ++ edits_produce E' ++ segs_right r' ++ gt));
        unfold ctx_chunk_at; cbn [edits LStart LEnd RStart REnd];
        fold pre; fold post; rewrite ?consume_ctx, ?produce_ctx; lens; try lia.
      + replace (lpos + len g + len (edits_consume E) + len post) with (le + Z.of_nat (ctx_k n g')) by (unfold le; lia).
        replace (rpos + len g + len (edits_produce E) + len post) with (re + Z.of_nat (ctx_k n g')) by (unfold re; lia).
        exact IH.
      + rewrite Hsk. rewrite Hgn at 1. lapp.
      + rewrite Hsk. rewrite Hgn at 1. lapp.
  Qed.

  Lemma ctx_chunks_patch_ok : forall (L R : list T) n gt (segs : list (seg T)),
      L = segs_left segs ++ gt -> R = segs_right segs ++ gt ->
      Forall (gap_le n) (tl segs) ->
      patch_ok L R (ctx_chunks n 1 1 segs gt).
  Proof.
    intros L R n gt [|[g E] r] HL HR Hgf; unfold patch_ok.
    - cbn in HL, HR. subst. apply cf_nil.
    - pose proof (ctx_chunks_from n gt r g E 0 1 1) as H. cbn [skipn Z.of_nat] in H.
      rewrite !Z.add_0_r in H. subst L R. cbn [segs_left segs_right].
      repeat rewrite <- app_assoc. apply H; [|exact Hgf].
      pose proof (ctx_k_le n g). lia.
  Qed.

  Lemma separated0_gap_le : forall n gt (segs : list (seg T)) lpos rpos,
      separated 0 (ctx_chunks n lpos rpos segs gt) -> Forall (gap_le n) (tl segs).
  Proof.
    intros n gt. induction segs as [|[g E] r IH]; intros lpos rpos Hs; [constructor|].
    destruct r as [|[g' E'] r']; [constructor|].
    cbn [tl]. cbn [ctx_chunks] in Hs. cbn [separated] in Hs. destruct Hs as (H1 & _ & H3).
    constructor.
    - unfold gap_le. cbn [fst]. unfold ctx_chunk_at in H1. cbn [LStart LEnd next_gap] in H1.
      pose proof (len_ctx_pre n g'). pose proof (len_ctx_post n g'). pose proof (ctx_k_val n g').
      unfold len in *. lia.
    - apply (IH _ _ H3).
  Qed.

  (* the converse, for any chunk list: a patch in the sense of patch_ok is ascending and disjoint *)
  Lemma chunks_from_separated : forall lpos rpos (l r : list T) cs,
      chunks_from lpos rpos l r cs ->
      separated 0 cs /\ match cs with c :: _ => lpos <= LStart c /\ rpos <= RStart c | [] => True end.
  Proof.
    intros lpos rpos l r cs H. induction H as [|lpos rpos g c cs l r H1 H2 H3 H4 H5 [IH1 IH2]].
    - split; exact I.
    - pose proof (len_nonneg _ g) as Hg. unfold len in Hg. unfold llen in *.
      split; [|lia].
      destruct cs as [|c' cs']; [exact I|]. cbn [separated]. destruct IH2. repeat split; try lia. exact IH1.
  Qed.

  Theorem patch_ok_separated : forall (L R : list T) cs, patch_ok L R cs -> separated 0 cs.
  Proof. intros L R cs H. apply (chunks_from_separated _ _ _ _ _ H). Qed.

  (* ---- what patch_ok gives back in the vocabulary of C13, for any chunk list *)
  Lemma chunks_from_chunk_ok : forall (L R : list T) lpos rpos l r cs,
      chunks_from lpos rpos l r cs ->
      forall lpre rpre, L = lpre ++ l -> R = rpre ++ r -> lpos = 1 + len lpre -> rpos = 1 + len rpre ->
      Forall (chunk_ok L R) cs.
  Proof.
    intros L R lpos rpos l r cs H. induction H as [|lpos rpos g c cs l r H1 H2 H3 H4 H5 IH];
      intros lpre rpre HL HR Hl Hr; [constructor|].
    rewrite (consumed_eq T) in *. rewrite (produced_eq T) in *. unfold llen in *. fold (len g) in *.
    fold (len (edits_consume (edits c))) in *. fold (len (edits_produce (edits c))) in *.
    pose proof (len_nonneg _ lpre). pose proof (len_nonneg _ rpre). pose proof (len_nonneg _ g).
    pose proof (len_nonneg _ l). pose proof (len_nonneg _ r).
    pose proof (len_nonneg _ (edits_consume (edits c))). pose proof (len_nonneg _ (edits_produce (edits c))).
    constructor.
    - assert (HL' : L = (lpre ++ g) ++ edits_consume (edits c) ++ l) by (rewrite HL; lapp).
      assert (HR' : R = (rpre ++ g) ++ edits_produce (edits c) ++ r) by (rewrite HR; lapp).
      assert (len L = len lpre + len g + len (edits_consume (edits c)) + len l) by (rewrite HL'; lens; lia).
      assert (len R = len rpre + len g + len (edits_produce (edits c)) + len r) by (rewrite HR'; lens; lia).
      unfold chunk_ok. repeat split; try lia.
      + rewrite HL'. symmetry. apply slice1_app; lens; lia.
      + rewrite HR'. symmetry. apply slice1_app; lens; lia.
    - apply (IH (lpre ++ g ++ edits_consume (edits c)) (rpre ++ g ++ edits_produce (edits c))).
      + rewrite HL. lapp.
      + rewrite HR. lapp.
      + lens. lia.
      + lens. lia.
  Qed.

  Lemma chunks_from_apply : forall (L : list T) lpos rpos l r cs,
      chunks_from lpos rpos l r cs ->
      forall lpre acc, L = lpre ++ l -> lpos = 1 + len lpre ->
      apply_from T L cs acc lpos = acc ++ r.
  Proof.
    intros L lpos rpos l r cs H. induction H as [|lpos rpos g c cs l r H1 H2 H3 H4 H5 IH]; intros lpre acc HL Hl.
    - rewrite apply_from_nil. f_equal.
      replace L with (lpre ++ g ++ []) by (rewrite HL; lapp).
      apply slice1_app; [lia|]. lens. lia.
    - rewrite (consumed_eq T) in *. rewrite (produced_eq T) in *. unfold llen in *. fold (len g) in *.
      fold (len (edits_consume (edits c))) in *.
      rewrite apply_from_cons.
      replace (slice1 L lpos (LStart c)) with g.
      2:{ rewrite HL. symmetry. apply slice1_app; lia. }
      rewrite (IH (lpre ++ g ++ edits_consume (edits c))).
      + lapp.
      + rewrite HL. lapp.
      + lens. lia.
  Qed.

  Theorem patch_ok_chunk_ok : forall (L R : list T) cs, patch_ok L R cs -> Forall (chunk_ok L R) cs.
  Proof. intros L R cs H. apply (chunks_from_chunk_ok L R _ _ _ _ _ H [] []); reflexivity. Qed.

  Theorem patch_ok_apply : forall (L R : list T) cs, patch_ok L R cs -> apply_chunks L cs = R.
  Proof.
    intros L R cs H. change (apply_chunks L cs) with (apply_from T L cs [] 1).
    rewrite (chunks_from_apply L _ _ _ _ _ H [] []); reflexivity.
  Qed.

  (* ---- every chunk contains an edit that is not context *)
  Definition has_change (c : chunk) : Prop := existsb (@non_emit T) (edits c) = true.

  Lemma ends_ok_change : forall E : list edit, ends_ok T E -> existsb (@non_emit T) E = true.
  Proof.
    intros E [(e0 & E1 & -> & H0) _]. cbn [existsb]. unfold non_emit at 1. rewrite H0. reflexivity.
  Qed.

  Lemma ctx_chunks_change : forall n gt (segs : list (seg T)) lpos rpos,
      Forall (fun x => ends_ok T (snd x)) segs -> Forall has_change (ctx_chunks n lpos rpos segs gt).
  Proof.
    intros n gt. induction segs as [|[g E] r IH]; intros lpos rpos H; cbn [ctx_chunks]; constructor.
    - unfold has_change, ctx_chunk_at. cbn [edits]. rewrite !existsb_app.
      rewrite (ends_ok_change E (Forall_inv H)). rewrite orb_true_r. reflexivity.
    - apply IH. exact (Forall_inv_tail H).
  Qed.

  Lemma merge_aux_ends : forall n (r : list (seg T)) g E,
      ends_ok T E -> Forall (fun x => ends_ok T (snd x)) r ->
      Forall (fun x => ends_ok T (snd x)) (merge_aux T n g E r).
  Proof.
    intros n. induction r as [|[g' E'] r IH]; intros g E HE Hr; cbn [merge_aux].
    - constructor; [exact HE|constructor].
    - pose proof (Forall_inv Hr) as HE'. pose proof (Forall_inv_tail Hr) as Hr'. cbn [snd] in HE'.
      destruct (len g' <=? 2 * n).
      + apply IH; [|exact Hr']. apply ends_ok_join; assumption.
      + constructor; [exact HE|]. apply IH; assumption.
  Qed.

  Lemma segs_wf_ends : forall segs : list (seg T), segs_wf segs -> Forall (fun x => ends_ok T (snd x)) segs.
  Proof.
    intros segs [H _]. eapply Forall_impl; [|exact H]. intros [g E] HE. apply core_wf_ends. exact HE.
  Qed.

  Lemma merge_segs_ends : forall n (segs : list (seg T)),
      segs_wf segs -> Forall (fun x => ends_ok T (snd x)) (merge_segs T n segs).
  Proof.
    intros n segs Hwf. pose proof (segs_wf_ends segs Hwf) as H.
    destruct segs as [|[g E] r]; [constructor|]. cbn [merge_segs].
    apply merge_aux_ends; [exact (Forall_inv H)|exact (Forall_inv_tail H)].
  Qed.

  Lemma wide_gap_le : forall n (s : seg T), wide T n s -> gap_le n s.
  Proof. intros n [g E] [H1 H2]. unfold gap_le, ctx_k. cbn [fst] in *. unfold len in *. lia. Qed.

  Lemma wf_gap_le_0 : forall n (segs : list (seg T)), n <= 0 -> Forall (gap_le n) (tl segs).
  Proof.
    intros n segs Hn. apply Forall_forall. intros [g E] _. unfold gap_le, ctx_k. cbn [fst]. unfold len. lia.
  Qed.

  (* ---------------------------------------------------------------- the interface theorems *)
  Variable eqb : T -> T -> bool.
  Hypothesis eqb_refl : forall a, eqb a a = true.

  Theorem new_patch_ok : forall (L R : list T) (es : list edit),
      script_ok L R es ->
      patch_ok L R (new_chunks es) /\ Forall has_change (new_chunks es).
  Proof.
    intros L R es Hs.
    destruct (new_chunks_segs T L R es Hs) as (segs & gt & Hn & HL & HR & Hwf & _).
    rewrite Hn. rewrite <- (ctx_chunks_0 0 segs 1 1 gt) by lia. split.
    - apply ctx_chunks_patch_ok; try assumption. apply wf_gap_le_0. lia.
    - apply ctx_chunks_change. apply segs_wf_ends. exact Hwf.
  Qed.

  (* every n (also n <= 0, where nothing happens) *)
  Theorem add_context_patch_ok : forall (L R : list T) (es : list edit) (n : Z),
      script_ok L R es ->
      exists ca,
        add_context eqb L R n (new_chunks es) = Ok ca /\
        (separated 0 ca -> patch_ok L R ca) /\ (patch_ok L R ca -> separated 0 ca) /\
        Forall has_change ca.
  Proof.
    intros L R es n Hs.
    destruct (pipeline_segs T eqb eqb_refl L R es n Hs) as (segs & gt & HL & HR & Hwf & _ & _ & Ha & _).
    exists (ctx_chunks n 1 1 segs gt). split; [exact Ha|]. split; [|split].
    - intros Hsep. apply ctx_chunks_patch_ok; try assumption. apply (separated0_gap_le _ _ _ _ _ Hsep).
    - apply patch_ok_separated.
    - apply ctx_chunks_change. apply segs_wf_ends. exact Hwf.
  Qed.

  Theorem unify_patch_ok : forall (L R : list T) (es : list edit) (n : Z),
      script_ok L R es ->
      exists ca cu,
        add_context eqb L R n (new_chunks es) = Ok ca /\ unify_chunks ca = Ok cu /\
        patch_ok L R cu /\ Forall has_change cu.
  Proof.
    intros L R es n Hs.
    destruct (pipeline_segs T eqb eqb_refl L R es n Hs) as (segs & gt & HL & HR & Hwf & _ & _ & Ha & Hu).
    exists (ctx_chunks n 1 1 segs gt), (ctx_chunks n 1 1 (merge_segs T n segs) gt).
    split; [exact Ha|]. split; [exact Hu|]. split.
    - apply ctx_chunks_patch_ok.
      + rewrite merge_segs_left. exact HL.
      + rewrite merge_segs_right. exact HR.
      + eapply Forall_impl; [|apply merge_segs_wide; exact Hwf]. apply wide_gap_le.
    - apply ctx_chunks_change. apply merge_segs_ends. exact Hwf.
  Qed.
End PatchOk.

Arguments has_change {T} c.

(* Overlapping chunks (AddContext without Unify) are not a patch: Left=[a a b] Right=[a b b], n=2 *)
Lemma add_context_overlap_not_patch_ok :
  exists ca, add_context Nat.eqb f4_left f4_right 2 (new_chunks f4_script) = Ok ca /\
             ~ patch_ok f4_left f4_right ca.
Proof.
  eexists. split; [vm_compute; reflexivity|].
  intros H. apply patch_ok_separated in H. cbn in H. lia.
Qed.

(* ---- from the inputs alone (C11 model of slice.EditScript plugged in) *)
Section ComposedPatchOk.
  Variable T : Type.
  Variable eqb : T -> T -> bool.
  Hypothesis eqb_eq : forall a b, eqb a b = true <-> a = b.

  Theorem composed_patch_ok : forall (lhs rhs : list T) (n : Z),
      let d0 := mdiff_new T eqb lhs rhs in
      exists d1 d2,
        diff_add_context eqb n d0 = Ok d1 /\ diff_unify d1 = Ok d2 /\
        patch_ok lhs rhs (Chunks d0) /\ Forall has_change (Chunks d0) /\
        (separated 0 (Chunks d1) -> patch_ok lhs rhs (Chunks d1)) /\ Forall has_change (Chunks d1) /\
        patch_ok lhs rhs (Chunks d2) /\ Forall has_change (Chunks d2).
  Proof.
    intros lhs rhs n d0.
    pose proof (edit_script_ok T eqb eqb_eq lhs rhs) as Hok.
    pose proof (refl T eqb eqb_eq) as Hrefl.
    destruct (new_patch_ok T lhs rhs _ Hok) as [Hn1 Hn2].
    destruct (add_context_patch_ok T eqb Hrefl lhs rhs _ n Hok) as (ca & Ha & Ha1 & _ & Ha3).
    destruct (unify_patch_ok T eqb Hrefl lhs rhs _ n Hok) as (ca' & cu & Ha' & Hu & Hu1 & Hu2).
    rewrite Ha in Ha'. injection Ha' as <-.
    exists (mkDiff lhs rhs ca (Edits d0)), (mkDiff lhs rhs cu (Edits d0)).
    unfold d0, mdiff_new, diff_add_context, diff_unify, new_diff. cbn [Left Right Chunks Edits].
    rewrite Ha. cbn [bind]. cbn [Left Right Chunks Edits]. rewrite Hu. cbn [bind].
    repeat (split; try assumption; try reflexivity).
  Qed.

  (* what slice.EditScript returns is canonical: in particular a Replace has lines on both sides
     (from Slice/EditTheorems.edit_script_canonical) *)
  Lemma edit_script_nonempty : forall lhs rhs e,
      In e (edit_script_func eqb lhs rhs) -> nonempty_edit e = true.
  Proof.
    intros lhs rhs e He.
    destruct (edit_script_canonical T eqb (refl T eqb eqb_eq) (dec_sym T eqb eqb_eq) (dec_trans T eqb eqb_eq) lhs rhs)
      as [Hc _].
    unfold canonical in Hc. apply andb_true_iff in Hc. destruct Hc as [Hc _].
    rewrite forallb_forall in Hc. exact (Hc e He).
  Qed.

  Lemma edit_script_replace_ne : forall lhs rhs e,
      In e (edit_script_func eqb lhs rhs) -> eop e = Replace -> X e <> [] /\ Y e <> [].
  Proof.
    intros lhs rhs e He Hop. pose proof (edit_script_nonempty lhs rhs e He) as H.
    unfold nonempty_edit in H. rewrite Hop in H. apply andb_true_iff in H. destruct H as [H1 H2].
    split; [destruct (X e)|destruct (Y e)]; discriminate.
  Qed.
End ComposedPatchOk.
