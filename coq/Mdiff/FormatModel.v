(* Model of mdiff/format.go: Normal, Unified, Context (with dspan, uspan, writeLines,
   fmtFileHeader, hasRelevantEdits).  Definitions only.  Range spellings and the position
   arithmetic of Normal come from Gen/MdiffSpan.v, regenerated from the Go source on every run.

   Known findings F5/F6 are carried by the [variant] record.  The pinned value of each switch IS
   the code as it stands (the Gen definitions); the repaired value replaces exactly that piece. *)
From Coq Require Import NArith ZArith List Bool.
Import ListNotations.
From Mds Require Export Mdiff.FormatBase Mdiff.FormatLines.
From Mds Require Import Gen.MdiffSpan.
Local Open Scope Z_scope.

Record variant := mkVariant {
  uspan_omitted_count_zero : bool;      (* F5: parseSpan gives 0 for an omitted count (reader side) *)
  uspan_empty_names_next_line : bool    (* F6: uspan writes an empty range as "<following line>,0" *)
}.
Definition pinned : variant := mkVariant true true.
Definition repaired : variant := mkVariant false false.

(* ---- range spellings ---- *)
Definition dspan (s e : Z) : bytes :=
  if dspan_bare s e then itoa (dspan_single s e)
  else itoa (dspan_lo s e) ++ [44%N] ++ itoa (dspan_hi s e).

(* F6 repaired: an empty range is named by the line that precedes it *)
Definition uspan_first_v (v : variant) (s e : Z) : Z :=
  if uspan_empty_names_next_line v then uspan_first s e
  else if uspan_count s e =? 0 then uspan_first s e - 1 else uspan_first s e.

Definition uspan (v : variant) (side : bytes) (s e : Z) : bytes :=
  if uspan_bare s e then side ++ itoa (uspan_single s e)
  else side ++ itoa (uspan_first_v v s e) ++ [44%N] ++ itoa (uspan_count s e).

Definition write_lines (pfx : bytes) (ls : list line) : list line := map (app pfx) ls.

(* ---- Normal ---- *)
Fixpoint normal_edits (es : list (edit line)) (lpos rpos : Z) : list line :=
  match es with
  | [] => []
  | e :: es' =>
    let n := llen (X e) in
    let m := llen (Y e) in
    match eop e with
    | Drop =>
      (dspan (normal_drop_lo lpos rpos n) (normal_drop_hi lpos rpos n) ++ [100%N]
         ++ itoa (normal_drop_target lpos rpos n))
      :: write_lines s_lt (X e)
      ++ normal_edits es' (normal_drop_lpos lpos rpos n) rpos
    | Emit =>
      normal_edits es' (normal_emit_lpos lpos rpos n) (normal_emit_rpos lpos rpos n)
    | Copy =>
      (itoa (normal_copy_target lpos rpos m) ++ [97%N]
         ++ dspan (normal_copy_lo lpos rpos m) (normal_copy_hi lpos rpos m))
      :: write_lines s_gt (Y e)
      ++ normal_edits es' lpos (normal_copy_rpos lpos rpos m)
    | Replace =>
      (dspan (normal_repl_llo lpos rpos n m) (normal_repl_lhi lpos rpos n m) ++ [99%N]
         ++ dspan (normal_repl_rlo lpos rpos n m) (normal_repl_rhi lpos rpos n m))
      :: write_lines s_lt (X e) ++ [s_sep] ++ write_lines s_gt (Y e)
      ++ normal_edits es' (normal_repl_lpos lpos rpos n m) (normal_repl_rpos lpos rpos n m)
    end
  end.

(* lpos, rpos := c.LStart, c.RStart *)
Definition normal_chunk_lines (c : chunk line) : list line :=
  normal_edits (edits c) (normal_lpos_init (LStart c) (LEnd c) (RStart c) (REnd c))
                         (normal_rpos_init (LStart c) (LEnd c) (RStart c) (REnd c)).
Definition normal_lines (cs : list (chunk line)) : list line := flat_map normal_chunk_lines cs.

Definition normal (cs : list (chunk line)) : bytes := join_lines (normal_lines cs).

(* ---- file headers; timestamps are opaque tokens ---- *)
Section Headers.
  Variable time : Type.
  Variable time_is_zero : time -> bool.
  Variable format_time : time -> bytes.     (* ts.Format(TimeFormat) *)

  Record file_info := mkFileInfo { fi_left : bytes; fi_right : bytes; fi_ltime : time; fi_rtime : time }.

  (* cmp.Or(name, dflt) *)
  Definition name_or (name dflt : bytes) : bytes := if is_nil name then dflt else name.

  Definition file_header (pfx name : bytes) (ts : time) : line :=
    pfx ++ name ++ (if time_is_zero ts then [] else [9%N] ++ format_time ts).

  (* ---- Unified ---- *)
  Definition uhunk_header (v : variant) (c : chunk line) : line :=
    s_atat ++ [32%N]
      ++ uspan v s_minus (unified_lspan_lo (LStart c) (LEnd c) (RStart c) (REnd c))
                         (unified_lspan_hi (LStart c) (LEnd c) (RStart c) (REnd c)) ++ [32%N]
      ++ uspan v s_plus (unified_rspan_lo (LStart c) (LEnd c) (RStart c) (REnd c))
                        (unified_rspan_hi (LStart c) (LEnd c) (RStart c) (REnd c)) ++ [32%N] ++ s_atat.

  Definition uedit_lines (e : edit line) : list line :=
    match eop e with
    | Drop => write_lines [45%N] (X e)
    | Emit => write_lines [32%N] (X e)
    | Copy => write_lines [43%N] (Y e)
    | Replace => write_lines [45%N] (X e) ++ write_lines [43%N] (Y e)
    end.

  Definition uchunk_lines (v : variant) (c : chunk line) : list line :=
    uhunk_header v c :: flat_map uedit_lines (edits c).

  Definition unified_header (fi : option file_info) : list line :=
    match fi with
    | None => []
    | Some f => [file_header s_mmm (name_or (fi_left f) [97%N]) (fi_ltime f);
                 file_header s_ppp (name_or (fi_right f) [98%N]) (fi_rtime f)]
    end.

  Definition unified_lines (v : variant) (fi : option file_info) (cs : list (chunk line)) : list line :=
    match cs with
    | [] => []
    | _ => unified_header fi ++ flat_map (uchunk_lines v) cs
    end.

  Definition unified (v : variant) (fi : option file_info) (cs : list (chunk line)) : bytes :=
    join_lines (unified_lines v fi cs).

  (* ---- Context ---- *)
  Definition has_relevant_edits (es : list (edit line)) (o : op) : bool :=
    existsb (fun e => match eop e, o with
                      | Replace, _ => true
                      | Drop, Drop | Copy, Copy | Emit, Emit => true
                      | _, _ => false
                      end) es.

  Definition cedit_old (e : edit line) : list line :=
    match eop e with
    | Drop => write_lines [45; 32]%N (X e)
    | Emit => write_lines [32; 32]%N (X e)
    | Replace => write_lines [33; 32]%N (X e)
    | Copy => []
    end.

  Definition cedit_new (e : edit line) : list line :=
    match eop e with
    | Copy => write_lines [43; 32]%N (Y e)
    | Emit => write_lines [32; 32]%N (X e)
    | Replace => write_lines [33; 32]%N (Y e)
    | Drop => []
    end.

  Definition cchunk_lines (c : chunk line) : list line :=
    [s_stars15; s_sss ++ dspan (context_old_lo (LStart c) (LEnd c) (RStart c) (REnd c))
                               (context_old_hi (LStart c) (LEnd c) (RStart c) (REnd c)) ++ s_4stars]
    ++ (if has_relevant_edits (edits c) Drop then flat_map cedit_old (edits c) else [])
    ++ [s_mmm ++ dspan (context_new_lo (LStart c) (LEnd c) (RStart c) (REnd c))
                       (context_new_hi (LStart c) (LEnd c) (RStart c) (REnd c)) ++ s_4dashes]
    ++ (if has_relevant_edits (edits c) Copy then flat_map cedit_new (edits c) else []).

  Definition context_header (fi : option file_info) : list line :=
    match fi with
    | None => []
    | Some f => [file_header s_sss (name_or (fi_left f) [97%N]) (fi_ltime f);
                 file_header s_mmm (name_or (fi_right f) [98%N]) (fi_rtime f)]
    end.

  Definition context_lines (fi : option file_info) (cs : list (chunk line)) : list line :=
    match cs with
    | [] => []
    | _ => context_header fi ++ flat_map cchunk_lines cs
    end.

  Definition context (fi : option file_info) (cs : list (chunk line)) : bytes :=
    join_lines (context_lines fi cs).
End Headers.

Arguments mkFileInfo {time}. Arguments fi_left {time}. Arguments fi_right {time}.
Arguments fi_ltime {time}. Arguments fi_rtime {time}.
Arguments file_header {time}. Arguments unified_header {time}. Arguments unified_lines {time}.
Arguments unified {time}. Arguments context_header {time}. Arguments context_lines {time}.
Arguments context {time}.
