(* Normal format: Read (Normal chunks) = normal_normalise chunks, and re-formatting gives the
   same bytes.  Holds on the code as it stands (no variant involved). *)
From Coq Require Import NArith ZArith List Bool Lia.
Import ListNotations.
From Mds Require Import Mdiff.ReaderModel Mdiff.FormatSpec Mdiff.FormatProofs.
From Mds Require Import Gen.MdiffSpan Gen.MdiffReadSpan.
Local Open Scope Z_scope.

(* every change command has lines to show *)
Definition normal_edit_ok (e : edit line) : Prop :=
  match eop e with
  | Drop => X e <> []
  | Copy => Y e <> []
  | Replace => X e <> [] /\ Y e <> []
  | Emit => True
  end.
(* ... and its line numbers are numbers an int holds with room to spare ([fits]: at most 2^61;
   the formatter adds lengths to the starts, the reader adds 1 to what it parsed) *)
Definition normal_chunk_ok (c : chunk line) : Prop :=
  1 <= LStart c /\ 1 <= RStart c /\ Forall normal_edit_ok (edits c) /\
  fits (LStart c + llen (consumed (edits c))) /\ fits (RStart c + llen (produced (edits c))).
Definition normal_ok (cs : list (chunk line)) : Prop := Forall normal_chunk_ok cs.

(* the lines an edit contributes to the text (the fields its operation uses) have no newline *)
Definition edit_lines_nf (e : edit line) : Prop :=
  match eop e with
  | Drop | Emit => Forall newline_free (X e)
  | Copy => Forall newline_free (Y e)
  | Replace => Forall newline_free (X e) /\ Forall newline_free (Y e)
  end.
Definition chunk_lines_nf (c : chunk line) : Prop := Forall edit_lines_nf (edits c).
Definition lines_nf (cs : list (chunk line)) : Prop := Forall chunk_lines_nf cs.

(* ---- readNormalEdit on written lines ---- *)
Lemma read_edit_lt xs' : forall rest xs,
  read_normal_edit (write_lines s_lt xs' ++ rest) xs [] false =
  read_normal_edit rest (xs ++ xs') [] false.
Proof.
  induction xs' as [|x xs' IH]; intros rest xs; cbn [write_lines map app].
  - rewrite app_nil_r. reflexivity.
  - cbn [read_normal_edit]. rewrite cut_prefix_app. cbn [orb is_nil negb].
    unfold write_lines in IH. rewrite IH. rewrite <- app_assoc. reflexivity.
Qed.

Lemma read_edit_gt ys' : forall rest xs ys below,
  xs = [] \/ below = true ->
  read_normal_edit (write_lines s_gt ys' ++ rest) xs ys below =
  read_normal_edit rest xs (ys ++ ys') below.
Proof.
  induction ys' as [|y ys' IH]; intros rest xs ys below H; cbn [write_lines map app].
  - rewrite app_nil_r. reflexivity.
  - cbn [read_normal_edit].
    replace (cut_prefix s_lt (s_gt ++ y)) with (@None bytes) by reflexivity.
    rewrite cut_prefix_app.
    replace (negb (is_nil xs) && negb below) with false
      by (destruct H as [-> | ->]; [reflexivity | rewrite andb_false_r; reflexivity]).
    unfold write_lines in IH. rewrite IH by exact H. rewrite <- app_assoc. reflexivity.
Qed.

Lemma read_edit_sep rest xs ys :
  read_normal_edit (s_sep :: rest) xs ys false = read_normal_edit rest xs ys true.
Proof. reflexivity. Qed.

Lemma read_edit_stop rest xs ys below :
  head_stops rest -> read_normal_edit rest xs ys below = ROk (xs, ys, rest).
Proof.
  destruct rest as [|l rest]; intros H; [reflexivity|].
  destruct H as (H1 & H2 & H3). cbn [read_normal_edit]. rewrite H1, H2, H3. reflexivity.
Qed.

(* ---- the lines of an edit list start with a change command (or are empty) ---- *)
Lemma normal_edits_head es : forall lpos rpos rest,
  head_stops rest -> head_stops (normal_edits es lpos rpos ++ rest).
Proof.
  induction es as [|e es IH]; intros lpos rpos rest Hr; [exact Hr|].
  cbn [normal_edits]. destruct (eop e); cbn [app head_stops].
  - apply cmd_line_stops; [apply dspan_span | right; right; reflexivity].
  - apply IH. exact Hr.
  - apply cmd_line_stops; [apply itoa_span | left; reflexivity].
  - apply cmd_line_stops; [apply dspan_span | right; left; reflexivity].
Qed.

Lemma length_write_lines p ls : length (write_lines p ls) = length ls.
Proof. apply map_length. Qed.

(* ---- the loop over one chunk's edits ---- *)
Lemma read_normal_edits es : forall lpos rpos rest acc fuel,
  1 <= lpos -> 1 <= rpos -> Forall normal_edit_ok es -> head_stops rest ->
  fits (lpos + llen (consumed es)) -> fits (rpos + llen (produced es)) ->
  (fuel > length (normal_edits es lpos rpos ++ rest))%nat ->
  exists fuel', (fuel' > length rest)%nat /\
    read_normal_loop fuel (normal_edits es lpos rpos ++ rest) acc =
    read_normal_loop fuel' rest (acc ++ normal_norm_edits es lpos rpos).
Proof.
  induction es as [|e es IH]; intros lpos rpos rest acc fuel Hl Hr Hok Hrest Hfl Hfr Hfuel.
  - exists fuel. cbn [normal_edits normal_norm_edits app] in *. rewrite app_nil_r. auto.
  - inversion Hok as [|? ? He Hok']; subst.
    rewrite consumed_cons, llen_app in Hfl. rewrite produced_cons, llen_app in Hfr.
    pose proof (llen_nonneg (consumed es)) as Hc0. pose proof (llen_nonneg (produced es)) as Hp0.
    revert Hfuel. cbn [normal_edits normal_norm_edits].
    unfold normal_edit_ok in He.
    destruct (eop e) eqn:Eop; intros Hfuel; cbn iota in Hfl, Hfr;
      change (llen (@nil line)) with 0 in Hfl, Hfr.
    + (* Drop *)
      unfold normal_drop_lo, normal_drop_hi, normal_drop_target, normal_drop_lpos in *.
      pose proof (llen_pos _ He) as Hn.
      set (tail := normal_edits es (lpos + llen (X e)) rpos ++ rest).
      assert (Htail : head_stops tail) by (apply normal_edits_head; exact Hrest).
      destruct fuel as [|f]; [cbn in Hfuel; lia|].
      rewrite <- app_comm_cons, <- app_assoc. fold tail.
      cbn [read_normal_loop app].
      replace (is_nil (dspan lpos (lpos + llen (X e)) ++ 100%N :: itoa (rpos - 1))) with false
        by (destruct (dspan lpos (lpos + llen (X e))); reflexivity).
      rewrite split_cmd_d by (first [apply dspan_span | apply itoa_span]).
      rewrite read_normal_range_dspan by (first [lia | unfold fits in *; lia]).
      rewrite read_normal_range_r_itoa by (unfold fits in *; lia).
      rewrite read_edit_lt. rewrite read_edit_stop by exact Htail. cbn [app].
      unfold read_normal_del_rlo, read_normal_want_add, read_normal_want_del, read_normal_chunk_lstart, read_normal_chunk_lend, read_normal_chunk_rstart, read_normal_chunk_rend.
      cbn [andb negb].
      replace (rpos - 1 + 1) with rpos by lia. unwrap.
      replace (llen (X e) =? lpos + llen (X e) - lpos) with true by (symmetry; apply Z.eqb_eq; lia).
      cbn [negb andb]. rewrite andb_false_r. cbn [andb].
      assert (Hf : (f > length tail)%nat).
      { unfold tail. cbn [app length] in Hfuel. rewrite !app_length in Hfuel.
        rewrite app_length. unfold write_lines in Hfuel. rewrite ?map_length in Hfuel. lia. }
      destruct (IH (lpos + llen (X e)) rpos rest
                   (acc ++ [mkChunk [mkEdit Drop (X e) []] lpos (lpos + llen (X e)) rpos rpos]) f
                   ltac:(lia) Hr Hok' Hrest ltac:(unfold fits in *; lia) ltac:(unfold fits in *; lia) Hf) as (f' & Hf' & E).
      exists f'. split; [exact Hf'|]. fold tail in E. rewrite E. rewrite <- app_assoc. reflexivity.
    + (* Emit *)
      unfold normal_emit_lpos, normal_emit_rpos in *.
      pose proof (llen_nonneg (X e)).
      apply IH; try assumption; first [lia | unfold fits in *; lia].
    + (* Copy *)
      unfold normal_copy_target, normal_copy_lo, normal_copy_hi, normal_copy_rpos in *.
      pose proof (llen_pos _ He) as Hm.
      set (tail := normal_edits es lpos (rpos + llen (Y e)) ++ rest).
      assert (Htail : head_stops tail) by (apply normal_edits_head; exact Hrest).
      destruct fuel as [|f]; [cbn in Hfuel; lia|].
      rewrite <- app_comm_cons, <- app_assoc. fold tail.
      cbn [read_normal_loop app].
      replace (is_nil (itoa (lpos - 1) ++ 97%N :: dspan rpos (rpos + llen (Y e)))) with false
        by (destruct (itoa (lpos - 1)); reflexivity).
      rewrite split_cmd_a by apply itoa_span.
      rewrite read_normal_range_itoa by (unfold fits in *; lia).
      rewrite read_normal_range_r_dspan by (first [lia | unfold fits in *; lia]).
      rewrite (read_edit_gt (Y e) tail [] [] false) by (left; reflexivity).
      rewrite read_edit_stop by exact Htail. cbn [app].
      unfold read_normal_add_llo, read_normal_want_add, read_normal_want_del, read_normal_chunk_lstart, read_normal_chunk_lend, read_normal_chunk_rstart, read_normal_chunk_rend.
      replace (lpos - 1 + 1) with lpos by lia. unwrap.
      replace (llen (Y e) =? rpos + llen (Y e) - rpos) with true by (symmetry; apply Z.eqb_eq; lia).
      cbn [negb andb]. rewrite andb_false_r. cbn [andb].
      assert (Hf : (f > length tail)%nat).
      { unfold tail. cbn [app length] in Hfuel. rewrite !app_length in Hfuel.
        rewrite app_length. unfold write_lines in Hfuel. rewrite ?map_length in Hfuel. lia. }
      destruct (IH lpos (rpos + llen (Y e)) rest
                   (acc ++ [mkChunk [mkEdit Copy [] (Y e)] lpos lpos rpos (rpos + llen (Y e))]) f
                   Hl ltac:(lia) Hok' Hrest ltac:(unfold fits in *; lia) ltac:(unfold fits in *; lia) Hf) as (f' & Hf' & E).
      exists f'. split; [exact Hf'|]. fold tail in E. rewrite E. rewrite <- app_assoc. reflexivity.
    + (* Replace *)
      unfold normal_repl_llo, normal_repl_lhi, normal_repl_rlo, normal_repl_rhi,
        normal_repl_lpos, normal_repl_rpos in *.
      destruct He as [Hx Hy].
      pose proof (llen_pos _ Hx) as Hn. pose proof (llen_pos _ Hy) as Hm.
      set (tail := normal_edits es (lpos + llen (X e)) (rpos + llen (Y e)) ++ rest).
      assert (Htail : head_stops tail) by (apply normal_edits_head; exact Hrest).
      destruct fuel as [|f]; [cbn in Hfuel; lia|].
      rewrite <- app_comm_cons, <- !app_assoc. fold tail.
      cbn [read_normal_loop app].
      replace (is_nil (dspan lpos (lpos + llen (X e)) ++ 99%N :: dspan rpos (rpos + llen (Y e)))) with false
        by (destruct (dspan lpos (lpos + llen (X e))); reflexivity).
      rewrite split_cmd_c by apply dspan_span.
      rewrite read_normal_range_dspan by (first [lia | unfold fits in *; lia]).
      rewrite read_normal_range_r_dspan by (first [lia | unfold fits in *; lia]).
      rewrite read_edit_lt. rewrite read_edit_sep.
      rewrite (read_edit_gt (Y e) tail ([] ++ X e) [] true) by (right; reflexivity).
      rewrite read_edit_stop by exact Htail. cbn [app].
      unfold read_normal_want_add, read_normal_want_del, read_normal_chunk_lstart, read_normal_chunk_lend, read_normal_chunk_rstart, read_normal_chunk_rend.
      unwrap.
      replace (llen (Y e) =? rpos + llen (Y e) - rpos) with true by (symmetry; apply Z.eqb_eq; lia).
      replace (llen (X e) =? lpos + llen (X e) - lpos) with true by (symmetry; apply Z.eqb_eq; lia).
      cbn [negb andb].
      assert (Hf : (f > length tail)%nat).
      { unfold tail. cbn [app length] in Hfuel. rewrite !app_length in Hfuel. cbn [length] in Hfuel.
        rewrite !app_length in Hfuel. rewrite app_length. lia. }
      destruct (IH (lpos + llen (X e)) (rpos + llen (Y e)) rest
                   (acc ++ [mkChunk [mkEdit Replace (X e) (Y e)] lpos (lpos + llen (X e)) rpos (rpos + llen (Y e))]) f
                   ltac:(lia) ltac:(lia) Hok' Hrest ltac:(unfold fits in *; lia) ltac:(unfold fits in *; lia) Hf) as (f' & Hf' & E).
      exists f'. split; [exact Hf'|]. fold tail in E. rewrite E. rewrite <- app_assoc. reflexivity.
Qed.

Lemma normal_lines_head cs : forall rest, head_stops rest -> head_stops (normal_lines cs ++ rest).
Proof.
  induction cs as [|c cs IH]; intros rest Hr; [exact Hr|].
  unfold normal_lines, normal_chunk_lines, normal_lpos_init, normal_rpos_init in *. cbn [flat_map]. rewrite <- app_assoc.
  apply normal_edits_head. apply IH. exact Hr.
Qed.

Lemma read_normal_chunks cs : forall acc fuel,
  normal_ok cs -> (fuel > length (normal_lines cs))%nat ->
  read_normal_loop fuel (normal_lines cs) acc = ROk (acc ++ normal_normalise cs).
Proof.
  induction cs as [|c cs IH]; intros acc fuel Hok Hfuel.
  - destruct fuel; [cbn in Hfuel; lia|]. cbn. rewrite app_nil_r. reflexivity.
  - inversion Hok as [|? ? (Hl & Hr & He & Hfl & Hfr) Hok']; subst.
    unfold normal_lines, normal_chunk_lines, normal_lpos_init, normal_rpos_init, normal_normalise in *. cbn [flat_map] in *.
    assert (Hh : head_stops (flat_map (fun c => normal_edits (edits c) (LStart c) (RStart c)) cs)).
    { pose proof (normal_lines_head cs [] I) as H. rewrite app_nil_r in H. exact H. }
    destruct (read_normal_edits (edits c) (LStart c) (RStart c)
                (flat_map (fun c => normal_edits (edits c) (LStart c) (RStart c)) cs) acc fuel
                Hl Hr He Hh Hfl Hfr Hfuel)
      as (f' & Hf' & E).
    rewrite E. rewrite IH by assumption. rewrite <- app_assoc. reflexivity.
Qed.

(* ---- byte level ---- *)
Lemma span_bytes_nf s : span_bytes s -> newline_free s.
Proof. intros H. apply span_bytes_notin; [exact H|reflexivity]. Qed.

Lemma nf_app a b : newline_free a -> newline_free b -> newline_free (a ++ b).
Proof. unfold newline_free. intros Ha Hb Hin. apply in_app_or in Hin. tauto. Qed.

Lemma nf_cons c a : c <> 10%N -> newline_free a -> newline_free (c :: a).
Proof. unfold newline_free. intros Hc Ha [H|H]; [apply Hc; exact H | apply Ha; exact H]. Qed.

Lemma write_lines_nf p ls : newline_free p -> Forall newline_free ls -> Forall newline_free (write_lines p ls).
Proof.
  intros Hp H. unfold write_lines. apply Forall_forall. intros l Hin.
  apply in_map_iff in Hin. destruct Hin as (x & <- & Hx).
  rewrite Forall_forall in H. apply nf_app; [exact Hp | apply H; exact Hx].
Qed.

Lemma s_lt_nf : newline_free s_lt. Proof. unfold newline_free, s_lt. cbn. intuition discriminate. Qed.
Lemma s_gt_nf : newline_free s_gt. Proof. unfold newline_free, s_gt. cbn. intuition discriminate. Qed.
Lemma s_sep_nf : newline_free s_sep. Proof. unfold newline_free, s_sep. cbn. intuition discriminate. Qed.

Lemma normal_edits_nf es : forall lpos rpos,
  Forall edit_lines_nf es -> Forall newline_free (normal_edits es lpos rpos).
Proof.
  induction es as [|e es IH]; intros lpos rpos H; [constructor|].
  inversion H as [|? ? He H']; subst. cbn [normal_edits]. unfold edit_lines_nf in He.
  destruct (eop e); [pose proof He as Hx | | pose proof He as Hy | destruct He as (Hx & Hy)].
  - constructor.
    + apply nf_app; [apply span_bytes_nf, dspan_span|].
      apply nf_cons; [discriminate | apply span_bytes_nf, itoa_span].
    + apply Forall_app. split; [apply write_lines_nf; [apply s_lt_nf | exact Hx] | apply IH; exact H'].
  - apply IH. exact H'.
  - constructor.
    + apply nf_app; [apply span_bytes_nf, itoa_span|].
      apply nf_cons; [discriminate | apply span_bytes_nf, dspan_span].
    + apply Forall_app. split; [apply write_lines_nf; [apply s_gt_nf | exact Hy] | apply IH; exact H'].
  - constructor.
    + apply nf_app; [apply span_bytes_nf, dspan_span|].
      apply nf_cons; [discriminate | apply span_bytes_nf, dspan_span].
    + apply Forall_app. split; [apply write_lines_nf; [apply s_lt_nf | exact Hx]|].
      apply Forall_app. split; [constructor; [apply s_sep_nf | constructor]|].
      apply Forall_app. split; [apply write_lines_nf; [apply s_gt_nf | exact Hy] | apply IH; exact H'].
Qed.

Lemma normal_lines_nf cs : lines_nf cs -> Forall newline_free (normal_lines cs).
Proof.
  induction 1 as [|c cs Hc _ IH]; [constructor|].
  unfold normal_lines, normal_chunk_lines, normal_lpos_init, normal_rpos_init in *. cbn [flat_map]. apply Forall_app. split; [|exact IH].
  apply normal_edits_nf. exact Hc.
Qed.

(* Read(Normal(chunks)) = one chunk per change command *)
Theorem read_normal_normal cs :
  normal_ok cs -> lines_nf cs -> read_normal (normal cs) = ROk (normal_normalise cs).
Proof.
  intros Hok Hnf. unfold read_normal, normal.
  rewrite split_join_lines by (apply normal_lines_nf; exact Hnf).
  unfold read_normal_lines. rewrite read_normal_chunks; [reflexivity | exact Hok | lia].
Qed.

(* re-formatting what was read gives the same bytes: holds for every chunk list *)
Lemma normal_norm_edits_format es : forall lpos rpos,
  normal_lines (normal_norm_edits es lpos rpos) = normal_edits es lpos rpos.
Proof.
  induction es as [|e es IH]; intros lpos rpos; [reflexivity|].
  cbn [normal_edits normal_norm_edits]. unfold normal_lines, normal_chunk_lines, normal_lpos_init, normal_rpos_init in *.
  destruct (eop e) eqn:Eop; cbn [flat_map edits LStart RStart normal_edits eop X Y].
  - rewrite IH. unfold normal_drop_lpos. rewrite app_nil_r. reflexivity.
  - rewrite IH. reflexivity.
  - rewrite IH. unfold normal_copy_rpos. rewrite app_nil_r. reflexivity.
  - rewrite IH. unfold normal_repl_lpos, normal_repl_rpos. cbn [app].
    rewrite <- !app_assoc. cbn [app]. rewrite app_nil_r. reflexivity.
Qed.

Theorem normal_reformat cs : normal (normal_normalise cs) = normal cs.
Proof.
  unfold normal. f_equal. induction cs as [|c cs IH]; [reflexivity|].
  unfold normal_normalise, normal_lines, normal_chunk_lines, normal_lpos_init, normal_rpos_init in *. cbn [flat_map]. rewrite flat_map_app.
  rewrite IH. f_equal. apply normal_norm_edits_format.
Qed.
