(* Witnesses of the known findings F5 and F6 on the model of the code as it stands (pinned), by
   computation; and the check that the generated definitions are the pinned ones. *)
From Coq Require Import NArith ZArith List Bool.
Import ListNotations.
From Mds Require Import Mdiff.FormatInst.
Local Open Scope Z_scope.

Lemma code_is_pinned : gen_facts_pinned = true.
Proof. vm_compute. reflexivity. Qed.

(* F5: Left = [a; b], Right = [a; c], no context: one hunk "@@ -2 +2 @@" *)
Definition f5_cs : list (chunk line) := [mkChunk [mkEdit Replace [[98]%N] [[99]%N]] 2 3 2 3].

Lemma f5_text : x_unified pinned None f5_cs =
  [64;64;32;45;50;32;43;50;32;64;64;10; 45;98;10; 43;99;10]%N.   (* "@@ -2 +2 @@\n-b\n+c\n" *)
Proof. vm_compute. reflexivity. Qed.

Lemma roundtrip_refuted :
  exists cs : list (chunk line), exists p,
    patch_ok [[97]; [98]]%N [[97]; [99]]%N cs /\
    x_read_unified pinned (x_unified pinned None cs) = ROk p /\
    p_chunks p <> unified_normalise cs /\
    p_chunks p = [mkChunk [mkEdit Drop [[98]%N] []; mkEdit Copy [] [[99]%N]] 2 2 2 2] /\
    x_unified pinned (p_info p) (p_chunks p) <> x_unified pinned None cs.
Proof.
  exists f5_cs. eexists. split; [|split; [vm_compute; reflexivity|]].
  - unfold patch_ok, f5_cs.
    apply (cf_cons _ 1 1 [[97]%N] (mkChunk [mkEdit Replace [[98]%N] [[99]%N]] 2 3 2 3) [] [] []); try reflexivity.
    apply (cf_nil _ 3 3 []).
  - cbn [p_chunks p_info]. split; [|split]; [vm_compute; discriminate | reflexivity | vm_compute; discriminate].
Qed.

(* F6: Left = [a], Right = [b; a], no context: one hunk "@@ -1,0 +1 @@" *)
Definition f6_cs : list (chunk line) := [mkChunk [mkEdit Copy [] [[98]%N]] 1 1 1 2].

Lemma apply_refuted :
  exists (L R : list line) (cs : list (chunk line)),
    patch_ok L R cs /\
    x_unified pinned None cs = [64;64;32;45;49;44;48;32;43;49;32;64;64;10; 43;98;10]%N /\   (* "@@ -1,0 +1 @@\n+b\n" *)
    (* placed by its left range alone (what GNU patch does) the line lands after line 1 *)
    apply_unified_gen false L (split_lines (x_unified pinned None cs)) = Some [[97]; [98]]%N /\
    (* and the hunk contradicts itself: line 1 of the new file cannot follow line 1 of the old one *)
    apply_unified L (split_lines (x_unified pinned None cs)) = None /\
    apply_unified_gen false L (split_lines (x_unified pinned None cs)) <> Some R.
Proof.
  exists [[97]%N], [[98]; [97]]%N, f6_cs. split; [|split; [|split; [|split]]].
  - unfold patch_ok, f6_cs.
    apply (cf_cons _ 1 1 [] (mkChunk [mkEdit Copy [] [[98]%N]] 1 1 1 2) [] [[97]%N] [[97]%N]); try reflexivity.
    apply (cf_nil _ 1 2 [[97]%N]).
  - vm_compute. reflexivity.
  - vm_compute. reflexivity.
  - vm_compute. reflexivity.
  - vm_compute. discriminate.
Qed.
