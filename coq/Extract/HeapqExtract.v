From Mds Require Import Common.ExtractBase Gen.HeapqIdx Heapq.HeapqModel Heapq.HeapqInst.
Require Extraction.
Require Import ExtrOcamlBasic.
Extraction "heapq_model.ml" HeapqInst.q_step HeapqInst.q_new HeapqInst.q_data HeapqInst.q_sort HeapqInst.kcmp HeapqInst.ccmp HeapqInst.zset64 HeapqInst.zset_ideal HeapqInst.z_above_bound HeapqInst.z_refused HeapqInst.z_small
  HeapqInst.mk_variant HeapqModel.current_variant HeapqModel.pinned HeapqModel.repaired base_types.
