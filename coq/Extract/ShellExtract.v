From Mds Require Import Common.ExtractBase Gen.ShellTable Shell.ShellModel Shell.ShellSpec Shell.ShellSession Shell.ShellSessionExt.
Require Extraction.
Require Import ExtrOcamlBasic.
Extraction "shell_model.ml" ShellModel.split ShellModel.split_from ShellModel.quote ShellModel.join ShellModel.run_ops ShellModel.run_opsx ShellModel.new_scanner
  ShellSpec.ref_split ShellSpec.posix_words ShellSession.session_ok ShellSession.session_okx ShellSession.ref_rest
  ShellSessionExt.step_ext ShellSessionExt.run_ext_st ShellSessionExt.new_ext ShellSessionExt.session_ok_ext base_types.
