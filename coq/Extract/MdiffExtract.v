From Mds Require Import Common.ExtractBase Gen.MdiffIdx Slice.EditModel Mdiff.MdiffModel Mdiff.MdiffSpec Mdiff.MdiffHistModel.
Require Extraction.
Require Import ExtrOcamlBasic.
Extraction "mdiff_model.ml" MdiffModel.pipeline MdiffModel.new_chunks MdiffModel.add_context
  MdiffModel.add_context_prefix MdiffModel.unify_chunks MdiffModel.len EditModel.edit_script_run
  MdiffSpec.script_okb MdiffSpec.chunk_okb MdiffSpec.separatedb MdiffSpec.applies
  MdiffSpec.apply_chunks MdiffSpec.lead_ctx MdiffSpec.trail_ctx MdiffSpec.changes MdiffSpec.span_of MdiffSpec.unified_spans MdiffHistModel.run_trace MdiffHistModel.run_ops base_types.
