From Mds Require Import Common.ExtractBase Gen.LcsIdx Gen.LisIdx Slice.LcsModel Slice.LisModel Slice.LcsSpec Slice.LisSpec.
Require Extraction.
Require Import ExtrOcamlBasic.
Extraction "lcslis_model.ml" LcsModel.lcs_func LcsModel.lcs_is_nil LisModel.lnds_func LisModel.lis_func
  LcsSpec.lcs_len_ref LcsSpec.subseq_b LisSpec.lis_len_ref LisSpec.ordered_b base_types.
