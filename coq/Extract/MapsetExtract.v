From Mds Require Import Common.ExtractBase Gen.MapsetFacts Mapset.MapsetModel.
Require Extraction.
Require Import ExtrOcamlBasic.
Extraction "mapset_model.ml" MapsetModel.run_trace MapsetModel.run MapsetModel.step MapsetModel.store0 MapsetModel.next0 MapsetModel.bump
  MapsetModel.intersects_operands MapsetModel.intersect_operand MapsetModel.m_keys MapsetModel.m_ptr MapsetModel.Len
  MapsetModel.IsEmpty MapsetModel.Has base_types.
