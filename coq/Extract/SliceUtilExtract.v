From Mds Require Import Common.ExtractBase Gen.SliceIdx Slice.SliceUtilModel Slice.SliceUtilSpec Slice.SliceUtilExtraModel Slice.SliceUtilModel64 Slice.SliceUtilFastModel.
Require Extraction.
Require Import ExtrOcamlBasic.
Extraction "sliceutil_model.ml" SliceUtilModel.partition SliceUtilModel.rotate SliceUtilModel.rotate_impl
  SliceUtilModel.chunks SliceUtilModel.batches SliceUtilModel.head SliceUtilModel.tail SliceUtilModel.stripe
  SliceUtilModel.at_ SliceUtilModel.ptr_at SliceUtilModel.can_overwrite SliceUtilModel.window
  SliceUtilFastModel.rotate_fast SliceUtilFastModel.rotate_view_fast SliceUtilFastModel.partition_fast
  SliceUtilSpec.rotate_list SliceUtilSpec.batch_lens SliceUtilSpec.stripe_spec SliceUtilSpec.at_pos
  SliceUtilExtraModel.zero_view SliceUtilExtraModel.select_loop SliceUtilExtraModel.matching_loop
  SliceUtilExtraModel.map_keys SliceUtilExtraModel.take_consumer
  SliceUtilModel64.rotatez SliceUtilModel64.chunksz SliceUtilModel64.w64 SliceUtilModel64.wid SliceUtilModel64.above62 base_types.
