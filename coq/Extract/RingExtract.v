From Mds Require Import Common.ExtractBase Gen.RingIdx Ring.RingBase Ring.RingModel.
Require Extraction.
Require Import ExtrOcamlBasic.
Extraction "ring_model.ml" RingModel.step RingModel.run RingBase.empty_heap RingBase.enc base_types.
