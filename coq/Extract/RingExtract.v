From Mds Require Import Common.ExtractBase Gen.RingIdx Ring.RingModel.
Require Extraction.
Require Import ExtrOcamlBasic.
Extraction "ring_model.ml" RingModel.step RingModel.run RingModel.empty_heap RingModel.enc base_types.
