From Mds Require Import Common.ExtractBase Gen.DistinctConst Distinct.DistinctModel.
Require Extraction.
Require Import ExtrOcamlBasic.
Extraction "distinct_model.ml" DistinctModel.zrun_obs DistinctModel.zinit DistinctModel.cvm_single_halving_pass
  DistinctModel.lz64 DistinctModel.maxu base_types.
