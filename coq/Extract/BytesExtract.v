From Mds Require Import Common.ExtractBase Gen.MbitsIdx Gen.MstrMasks Mbits.BytesBase Mbits.MbitsModel Mbits.MbitsSpec
  Mstr.MstrModel Mstr.MstrSpec Mstr.MstrLinesModel.
Require Extraction.
Require Import ExtrOcamlBasic.
Extraction "bytes_model.ml" MbitsModel.zero MbitsModel.leading_zeroes MbitsModel.trailing_zeroes
  MstrModel.trunc MstrModel.compare_natural MstrModel.compare_natural_wide MstrModel.parse_int
  MstrSpec.key MstrSpec.wkey MstrSpec.key_cmp MstrSpec.valid_utf8b MstrSpec.normal_form
  MstrLinesModel.lines MstrLinesModel.split base_types.
