From Mds Require Import Common.ExtractBase Gen.EditIdx Slice.EditModel.
Require Extraction.
Require Import ExtrOcamlBasic.
Extraction "edit_model.ml" EditModel.edit_script_run_cap EditModel.edit_script_run
  EditSpec.valid_script_gen EditSpec.valid_edits_gen
  EditSpec.canonical EditSpec.alternating EditSpec.kept EditSpec.cost EditSpec.expand EditSpec.eq_lists
  EditLoop.op_code EditLoop.op_of_code base_types.
