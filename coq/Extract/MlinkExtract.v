From Mds Require Import Common.ExtractBase Mlink.MlinkModel Mlink.MlinkSpec Stack.StackModel.
Require Extraction.
Require Import ExtrOcamlBasic.
Extraction "mlink_model.ml" MlinkModel.init MlinkModel.step MlinkModel.step_pinned
  MlinkModel.new_queue MlinkModel.zero_queue MlinkModel.qstep
  MlinkSpec.ainit MlinkSpec.astep MlinkSpec.aqstep
  StackModel.sstep StackModel.sastep base_types.
