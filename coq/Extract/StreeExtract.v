From Mds Require Import Common.ExtractBase Gen.StreeConst Gen.StreeNode Stree.StreeModel Stree.StreeSpec.
Require Extraction.
Require Import ExtrOcamlBasic.
Extraction "stree_model.ml" StreeModel.step StreeModel.run StreeModel.exec_from StreeModel.size StreeModel.height
  StreeModel.inorder StreeModel.rewrite StreeModel.extract StreeSpec.spec_step StreeSpec.spec_run base_types.
