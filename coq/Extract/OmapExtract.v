From Mds Require Import Common.ExtractBase Stree.StreeModel Stree.HeightModel Stree.CursorModel Omap.OmapModel.
Require Extraction.
Require Import ExtrOcamlBasic.
Extraction "omap_model.ml" OmapModel.new_func OmapModel.zero_map OmapModel.mset OmapModel.mdelete
  OmapModel.mclear OmapModel.mlen OmapModel.mget_ok OmapModel.mget OmapModel.mkeys OmapModel.mfirst
  OmapModel.mlast OmapModel.mseek OmapModel.iseek OmapModel.inext OmapModel.iprev OmapModel.ivalid
  OmapModel.ikey OmapModel.ivalue OmapModel.mto_string OmapModel.step OmapModel.run_from
  HeightModel.limit_capped StreeModel.inorder base_types.
