From Mds Require Import Common.ExtractBase Gen.CacheIdx Gen.CacheLru Gen.CacheLocks Heapq.HeapqModel Cache.CacheSpec Cache.CacheModel.
Require Extraction.
Require Import ExtrOcamlBasic.
Extraction "cache_model.ml" CacheModel.run_Z CacheModel.safe_Z CacheModel.size_mode CacheModel.cache_len CacheModel.cache_size
  HeapqModel.pinned HeapqModel.repaired HeapqModel.current_variant
  CacheSpec.s2_run CacheSpec.s2_states CacheSpec.s1_states CacheSpec.s1_first_reject CacheSpec.total base_types.
