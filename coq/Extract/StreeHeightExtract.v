From Coq Require Import ZArith.
From Mds Require Import Common.ExtractBase Gen.StreeConst Gen.StreeNode Stree.StreeModel Stree.HeightModel.
Require Extraction.
Require Import ExtrOcamlBasic.
Extraction "stree_height_model.ml" StreeModel.step StreeModel.height StreeModel.size StreeModel.inorder
  StreeModel.Len HeightModel.limit_exact HeightModel.limit_capped HeightModel.lim_is HeightModel.lim_ok
  HeightModel.bound_okb HeightModel.get_count HeightModel.zcmp Z.log2 Z.mul Z.leb Z.ltb Z.add Z.sub Z.pow Z.max
  base_types.
