From Mds Require Import Common.ExtractBase Stree.StreeModel Stree.CursorModel Stree.CursorBig.
Require Extraction.
Require Import ExtrOcamlBasic.
Extraction "cursor_model.ml" CursorModel.tree_cursor CursorModel.tree_root CursorModel.clone
  CursorModel.valid CursorModel.key CursorModel.has_next CursorModel.has_prev CursorModel.has_left
  CursorModel.has_right CursorModel.has_parent CursorModel.step CursorModel.cinorder
  CursorModel.cinorder_all CursorModel.observe CursorModel.run StreeModel.inorder StreeModel.get
  CursorBig.big_new CursorBig.big_add CursorBig.big_remove CursorBig.big_root CursorBig.big_len
  CursorBig.big_replace CursorBig.big_clear CursorBig.big_clone CursorBig.big_min CursorBig.big_max
  CursorBig.big_cursor_clone CursorBig.big_is_empty CursorBig.big_inorder CursorBig.big_inorder_after base_types.
