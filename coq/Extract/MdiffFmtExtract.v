From Mds Require Import Common.ExtractBase Mdiff.FormatInst Mdiff.FormatPatchOk.
Require Extraction.
Require Import ExtrOcamlBasic.
Extraction "mdifffmt_model.ml" FormatInst.x_normal FormatInst.x_unified FormatInst.x_context
  FormatInst.x_read_normal FormatInst.x_read_unified FormatInst.x_read_git
  FormatInst.x_normal_normalise FormatInst.x_unified_normalise
  FormatInst.x_apply_normal FormatInst.x_apply_unified FormatInst.x_apply_context
  FormatPatchOk.patch_okb FormatInst.gen_facts_pinned FormatModel.pinned FormatModel.repaired base_types.
