From Mds Require Import Common.ExtractBase Gen.QueueIdx Queue.QueueModel Queue.QueueSpec.
Require Extraction.
Require Import ExtrOcamlBasic.
Extraction "queue_model.ml" QueueModel.mk_init QueueModel.step QueueModel.run_init QueueModel.hook_state
  QueueSpec.spec_step QueueSpec.spec_run base_types.
