From Mds Require Import Common.ExtractBase Gen.QueueIdx Queue.QueueModel Queue.QueueSpec Queue.QueueUnitModel.
Require Extraction.
Require Import ExtrOcamlBasic.
(* step64 / run_init64: the model at Go's 64-bit int width (QueueModel.wrap64), calling the C17
   loop model of slice.Rotate; this is what the correspondence replays against the real package.
   ustep64 / ustep_ideal: the same model on a zero-size element type (buffers = lengths; proved
   equal to the main model on unit elements, QueueUnitProofs) at both widths, for the U lines. *)
Extraction "queue_model.ml" QueueModel.mk_init QueueModel.step64 QueueModel.run_init64 QueueModel.hook_state
  QueueSpec.spec_step QueueSpec.spec_run
  QueueUnitModel.umk_init QueueUnitModel.ustep64 QueueUnitModel.ustep_ideal QueueUnitModel.uhook_state base_types.
