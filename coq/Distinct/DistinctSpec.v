(* Reference for C19: what a distinct-elements counter is supposed to estimate.
   [seen ops] is the set of values passed to Add since construction or the last Reset, in order
   of first appearance, however often each was repeated; [distinct ops] is its size. *)
From Coq Require Import List Bool.
Import ListNotations.
From Mds Require Import Distinct.DistinctModel.

Section Spec.
  Variable T : Type.
  Variable eqb : T -> T -> bool.

  Fixpoint seen_from (acc : list T) (ops : list (op T)) : list T :=
    match ops with
    | [] => acc
    | OAdd v _ :: r => seen_from (insert T eqb v acc) r
    | OReset :: r => seen_from [] r
    end.
  Definition seen (ops : list (op T)) : list T := seen_from [] ops.
  Definition distinct (ops : list (op T)) : nat := length (seen ops).

  (* the number of Add calls of a history *)
  Fixpoint nadds (ops : list (op T)) : nat :=
    match ops with [] => O | OAdd _ _ :: r => S (nadds r) | OReset :: r => nadds r end.

  (* a stream of Adds without oracle *)
  Definition adds (vs : list T) : list (op T) := map (fun v => OAdd v None) vs.
End Spec.
