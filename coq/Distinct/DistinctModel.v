(* Model of distinct/distinct.go (Counter: NewCounter, Add, Count, Len, Reset).  Definitions only.

   ONE monad-generic program [add] (Section Prog) follows Counter.Add statement by statement:
   the coin against the threshold, Remove on failure, buf.Add, the halving statement (an [if] in the
   pinned tree = known finding F8, a [for] in the repaired variant; the switch [single] is read from
   Gen.DistinctConst.cvm_halving_is_loop), the range loop with its refill/bit test/shift, and the
   threshold shift.  Every condition, shift amount and constant in it is a definition of
   Gen/DistinctConst.v, regenerated from the Go source on every run.

   It is instantiated three times:
   * D, the BIT-READER monad: deterministic given the list of 64-bit words the random source will
     return (and, as a validated oracle, which elements survived the pass: Go's map iteration order
     decides that and is not observable).  Extracted and replayed against the implementation.
   * E with IDEAL coins, the EXPECTATION monad (A -> Q) -> Q: the coin passes with probability
     exactly 2^-k (k = number of halvings, a ghost field of the state), words are 64 independent
     fair bits, the map order is an arbitrary function [ord] of the buffer.
   * E with the REAL coin (Rcoin/Rrun): the same monad, but the coin is the code's own
     (real_coin, shared with D): a 64-bit word drawn when the threshold is below MaxUint64 and
     compared with it by the generated condition. *)
From Coq Require Import ZArith List Bool QArith.
Import ListNotations.
From Mds Require Import Gen.DistinctConst.
Local Open Scope Z_scope.

Definition two64 : Z := 2 ^ 64.
Definition maxu : Z := two64 - 1.                       (* math.MaxUint64 *)
Definition wrap64 (x : Z) : Z := x mod two64.           (* uint64 arithmetic *)
(* bits.LeadingZeros64 on a 64-bit word: 64 minus the bit length *)
Definition lz64 (p : Z) : Z := if p <=? 0 then 64 else 63 - Z.log2 p.
(* the pinned value of the F8 switch *)
Definition cvm_single_halving_pass : bool := negb cvm_halving_is_loop.

Section Model.
  Variable T : Type.
  Variable eqb : T -> T -> bool.

  (* mapset.Set as a duplicate-free list *)
  Definition memb (x : T) (l : list T) : bool := existsb (eqb x) l.
  Definition remove (x : T) (l : list T) : list T := filter (fun y => negb (eqb x y)) l.
  Definition insert (x : T) (l : list T) : list T := if memb x l then l else l ++ [x].

  (* k is a GHOST field: the number of halving passes since construction/Reset.  The code keeps
     only p; DistinctProofs.run_inv proves p = MaxUint64 >> k on every run. *)
  Record st := mkst { buf : list T; p : Z; k : nat }.
  Inductive outcome := Done (s : st) | Fuel (s : st).   (* Fuel: the repaired loop ran out of fuel *)

  Definition init : st := mkst [] (init_p maxu) O.              (* NewCounter: p: math.MaxUint64 *)
  Definition reset (s : st) : st := mkst [] (reset_p maxu) O.   (* Reset *)
  Definition len (s : st) : Z := Z.of_nat (length (buf s)).     (* Len *)
  Definition count (s : st) : Z :=                              (* Count *)
    wrap64 (count_ret (len s) (wrap64 (count_p2k (lz64 (p s))))).

  Section Prog.
    Variable M : Type -> Type.
    Variable ret : forall A, A -> M A.
    Variable bind : forall A B, M A -> (A -> M B) -> M B.
    Variable coin : Z -> nat -> M bool.      (* true = "c.p < MaxUint64 && c.rng.Uint64() >= c.p" *)
    Variable word : M Z.                     (* c.rng.Uint64() *)
    Variable order : list T -> M (list T).   (* the order in which range visits the map *)
    Arguments ret {A}. Arguments bind {A B}.

    (* the coin of the code, word for word: "c.p < math.MaxUint64 && c.rng.Uint64() >= c.p".  Go's &&
       draws the word only when the first conjunct holds (DistinctProofs.coin_fail_shape pins the
       shape of the generated condition); true = the coin FAILED.  Both the bit-reader instance
       (dcoin) and the real-coin expectation instance (Rcoin) are this definition. *)
    Definition real_coin (p : Z) (k : nat) : M bool :=
      if p <? maxu then bind word (fun w => ret (coin_fail p maxu w)) else ret false.

    (* for elt := range c.buf { if nb == 0 { rnd = Uint64(); nb = 64 }; if rnd&1 == 0 { Remove(elt) }; rnd >>= 1; nb-- } *)
    Fixpoint pass (elts : list T) (b : list T) (nb rnd : Z) : M (list T) :=
      match elts with
      | [] => ret b
      | e :: rest =>
        let body := fun nb rnd =>
          pass rest (if drop_bit rnd then remove e b else b) (nb_dec nb) (rnd_shift rnd) in
        if nb_is_zero nb then bind word (fun w => body refill_nb w) else body nb rnd
      end.

    (* var nb, rnd uint64; the range loop *)
    Definition halve1 (b : list T) : M (list T) := bind (order b) (fun o => pass o b 0 0).

    (* repaired variant: for c.buf.Len() >= c.cap { pass; c.p >>= 1 } *)
    Fixpoint loop (fuel : nat) (cap : Z) (b : list T) (p : Z) (k : nat) : M outcome :=
      if full_cond (Z.of_nat (length b)) cap then
        match fuel with
        | O => ret (Fuel (mkst b p k))
        | S f => bind (halve1 b) (fun b' => loop f cap b' (halve_p p) (S k))
        end
      else ret (Done (mkst b p k)).

    Definition add (single : bool) (fuel : nat) (cap : Z) (s : st) (v : T) : M outcome :=
      bind (coin (p s) (k s)) (fun failed =>
        if failed then ret (Done (mkst (remove v (buf s)) (p s) (k s)))
        else
          let b := insert v (buf s) in
          if single then
            (* pinned: if c.buf.Len() >= c.cap { pass; c.p >>= 1 } *)
            if full_cond (Z.of_nat (length b)) cap
            then bind (halve1 b) (fun b' => ret (Done (mkst b' (halve_p (p s)) (S (k s)))))
            else ret (Done (mkst b (p s) (k s)))
          else loop fuel cap b (p s) (k s)).
  End Prog.

  (* ------------------------------------------------------------------ histories *)
  (* [OAdd v o]: Add(v); o is the oracle for the map order: the buffer observed after the call
     (None: visit the buffer in list order). *)
  Inductive op := OAdd (v : T) (o : option (list T)) | OReset.

  (* ------------------------------------------------------------------ D: bit reader *)
  Inductive err := NoWords | BadWord | BadOracle | OutOfFuel.
  Record tape := mktape { words : list Z; orc : option (list T) }.
  Inductive dres (A : Type) := DOk (a : A) (t : tape) | DErr (e : err).
  Arguments DOk {A}. Arguments DErr {A}.
  Definition D (A : Type) := tape -> dres A.
  Definition dret (A : Type) (a : A) : D A := fun t => DOk a t.
  Definition dbind (A B : Type) (m : D A) (g : A -> D B) : D B :=
    fun t => match m t with DOk a t' => g a t' | DErr e => DErr e end.
  Definition dword : D Z := fun t =>
    match words t with
    | [] => DErr NoWords
    | w :: r => if (0 <=? w) && (w <? two64) then DOk w (mktape r (orc t)) else DErr BadWord
    end.
  Definition dcoin : Z -> nat -> D bool := real_coin D dret dbind dword.

  (* which of the next n visits will drop their element, read off the upcoming words *)
  Fixpoint peek_drops (n : nat) (ws : list Z) (nb rnd : Z) : list bool :=
    match n with
    | O => []
    | S m =>
      if nb_is_zero nb then
        match ws with
        | [] => []
        | w :: r => drop_bit w :: peek_drops m r (nb_dec refill_nb) (rnd_shift w)
        end
      else drop_bit rnd :: peek_drops m ws (nb_dec nb) (rnd_shift rnd)
    end.
  (* an order of visits that puts [gone] at the dropping positions and [keep] at the others *)
  Fixpoint arrange (drops : list bool) (keep gone : list T) : list T :=
    match drops with
    | [] => []
    | true :: r => match gone with g :: gs => g :: arrange r keep gs | [] => [] end
    | false :: r => match keep with x :: ks => x :: arrange r ks gone | [] => [] end
    end.
  Fixpoint nodupb (l : list T) : bool :=
    match l with [] => true | x :: r => negb (memb x r) && nodupb r end.

  (* The oracle sv is the buffer after the whole Add.  It is validated against the specification of
     a map range (every element exactly once, order free): sv must be a duplicate-free subset of
     the buffer and no larger than the number of keeping bits about to be consumed; the visit order
     is then one that keeps sv (plus, in the repaired variant where further passes follow, as many
     other elements as the bits demand).  If the implementation dropped a different NUMBER of
     elements than there are dropping bits, the model's buffer differs from sv and Len/Count/dump
     disagree. *)
  Definition dorder (b : list T) : D (list T) := fun t =>
    match orc t with
    | None => DOk b t
    | Some sv =>
      let drops := peek_drops (length b) (words t) 0 0 in
      if negb (Nat.eqb (length drops) (length b)) then DOk b t   (* the pass will report NoWords *)
      else
        let ones := length (filter negb drops) in
        if forallb (fun x => memb x b) sv && nodupb sv && Nat.leb (length sv) ones then
          let keep := sv ++ firstn (ones - length sv) (filter (fun x => negb (memb x sv)) b) in
          let gone := filter (fun x => negb (memb x keep)) b in
          DOk (arrange drops keep gone) t
        else DErr BadOracle
    end.

  Definition dadd := add D dret dbind dcoin dword dorder.

  Inductive rres := ROk (s : st) (ws : list Z) | RErr (e : err).

  Definition step (single : bool) (fuel : nat) (cap : Z) (s : st) (ws : list Z) (o : op) : rres :=
    match o with
    | OReset => ROk (reset s) ws
    | OAdd v sv =>
      match dadd single fuel cap s v (mktape ws sv) with
      | DOk (Done s') t => ROk s' (words t)
      | DOk (Fuel _) _ => RErr OutOfFuel
      | DErr e => RErr e
      end
    end.

  Fixpoint run (single : bool) (fuel : nat) (cap : Z) (s : st) (ws : list Z) (ops : list op) : rres :=
    match ops with
    | [] => ROk s ws
    | o :: r => match step single fuel cap s ws o with
                | ROk s' ws' => run single fuel cap s' ws' r
                | RErr e => RErr e
                end
    end.

  (* the same run, recording what the harness observes after every operation: Len, Count, p and
     the number of words the operation drew from the source *)
  Fixpoint run_obs (single : bool) (fuel : nat) (cap : Z) (s : st) (ws : list Z) (ops : list op)
    : list (Z * Z * Z * Z) * rres :=
    match ops with
    | [] => ([], ROk s ws)
    | o :: r => match step single fuel cap s ws o with
                | ROk s' ws' =>
                  let '(obs, fin) := run_obs single fuel cap s' ws' r in
                  ((len s', count s', p s', Z.of_nat (length ws - length ws')) :: obs, fin)
                | RErr e => ([], RErr e)
                end
    end.

  (* ------------------------------------------------------------------ E: expectation, ideal coins *)
  Definition E (A : Type) := (A -> Q) -> Q.
  Definition Eret (A : Type) (a : A) : E A := fun f => f a.
  Definition Ebind (A B : Type) (m : E A) (g : A -> E B) : E B := fun f => m (fun a => g a f).
  Definition pw (n : nat) : Q := inject_Z (2 ^ Z.of_nat n).
  (* ideal coin: passes (false) with probability 2^-k, fails (true) otherwise *)
  Definition Ecoin (p : Z) (k : nat) : E bool :=
    fun f => ((1 - 1 / pw k) * f true + (1 / pw k) * f false)%Q.
  (* a uniform n-bit word, lowest bit first: n independent fair bits *)
  Fixpoint Ebits (n : nat) : E Z :=
    fun f => match n with
             | O => f 0
             | S m => ((1 # 2) * Ebits m (fun w => f (2 * w)%Z) + (1 # 2) * Ebits m (fun w => f (2 * w + 1)%Z))%Q
             end.
  Definition Eword : E Z := Ebits 64.

  Section Exp.
    Variable ord : list T -> list T.      (* the map order: any function of the buffer *)
    Definition Eorder (b : list T) : E (list T) := fun f => f (ord b).
    Definition Eadd := add E Eret Ebind Ecoin Eword Eorder.
    (* a whole history in the expectation monad (oracles ignored) *)
    Fixpoint Erun (single : bool) (fuel : nat) (cap : Z) (s : st) (ops : list op) : E outcome :=
      match ops with
      | [] => Eret _ (Done s)
      | OReset :: r => Erun single fuel cap (reset s) r
      | OAdd v _ :: r =>
        Ebind _ _ (Eadd single fuel cap s v)
              (fun o => match o with Done s' => Erun single fuel cap s' r | Fuel s' => Eret _ (Fuel s') end)
      end.

    (* ---- the same program with the REAL coin: a uniform 64-bit word is drawn exactly when the
       code draws one and compared with the threshold by the generated condition.  Nothing ideal is
       left but the independence and uniformity of the 64 bits of every word drawn.  [Crun] is Erun
       with the coin as a parameter (DistinctProofsReal.Erun_is_Crun). *)
    Definition Rcoin : Z -> nat -> E bool := real_coin E Eret Ebind Eword.
    Definition Cadd (coin : Z -> nat -> E bool) := add E Eret Ebind coin Eword Eorder.
    Fixpoint Crun (coin : Z -> nat -> E bool) (single : bool) (fuel : nat) (cap : Z) (s : st) (ops : list op) : E outcome :=
      match ops with
      | [] => Eret _ (Done s)
      | OReset :: r => Crun coin single fuel cap (reset s) r
      | OAdd v _ :: r =>
        Ebind _ _ (Cadd coin single fuel cap s v)
              (fun o => match o with Done s' => Crun coin single fuel cap s' r | Fuel s' => Eret _ (Fuel s') end)
      end.
    Definition Rrun := Crun Rcoin.
  End Exp.
End Model.

Arguments DOk {T A}. Arguments DErr {T A}.
Arguments Done {T}. Arguments Fuel {T}.
Arguments OAdd {T}. Arguments OReset {T}.
Arguments ROk {T}. Arguments RErr {T}.
Arguments mkst {T}. Arguments buf {T}. Arguments p {T}. Arguments k {T}.

(* instance replayed against the implementation: elements are ints *)
Definition zrun_obs := run_obs Z Z.eqb.
Definition zinit : st Z := init Z.
