(* C19, deterministic part: theorems about the bit-reader instance of the model, for every list
   of words the source may return, every oracle, every history and BOTH values of the F8 switch. *)
From Coq Require Import ZArith List Bool Lia Arith Permutation.
Import ListNotations.
From Mds Require Import Gen.DistinctConst Distinct.DistinctModel Distinct.DistinctSpec.
Local Open Scope Z_scope.

(* ---- the shapes of the generated definitions the proofs rely on: a changed operator or
   constant in distinct.go breaks one of these (or a proof below) at make *)
Lemma coin_fail_shape p w : coin_fail p maxu w = (p <? maxu) && (w >=? p).
Proof. reflexivity. Qed.
Lemma full_cond_shape l c : full_cond l c = (l >=? c).
Proof. reflexivity. Qed.
Lemma halve_p_shape q : halve_p q = Z.shiftr q 1.
Proof. reflexivity. Qed.
Lemma reset_p_shape : reset_p maxu = maxu.
Proof. reflexivity. Qed.
Lemma count_p2k_shape lz : count_p2k lz = Z.shiftl 1 lz.
Proof. reflexivity. Qed.
Lemma count_ret_shape l x : count_ret l x = l * x.
Proof. reflexivity. Qed.
Lemma init_p_shape : init_p maxu = maxu.
Proof. reflexivity. Qed.

(* ---- the statement skeleton the model transcribes.  Everything the model copies by hand from
   distinct.go rather than through a generated expression is pinned here, so that an added guard, a
   dropped or reordered statement, a changed call argument breaks this lemma at make:
   Add is   if coin { Remove(v); return }; Add(v); if|for full { var nb, rnd; range buf { if nb == 0 {
   rnd = ..; nb = 64 }; if bit { Remove(elt) }; rnd >>= 1; nb-- }; p >>= 1 }   (skeleton digits: 1 if,
   2 for, 3 range, 4 return, 5 assignment, 6 call, 8 ++/--, 9 declaration, e/f braces); the halving
   statement is the [if] of the pinned tree or the [for] of the repair, as cvm_halving_is_loop says;
   two Remove calls (the first, on the failed coin, with v; the second, in the pass, with the range
   variable), one buf.Add (with v), two draws (coin, refill), the range is over the buffer itself,
   and the statements come in the order the model runs them; Reset is Clear then the threshold
   assignment; Count is an assignment and a return; Len returns buf.Len(). *)
Lemma gen_skeleton :
  skel_add = (if cvm_halving_is_loop then 286361825443241882880568798541311 else 286361825367684019154654475122175) /\
  skel_reset = 58975 /\ skel_count = 58703 /\ skel_len = 3663 /\
  n_remove = 2 /\ n_bufadd = 1 /\ n_word = 2 /\ n_clear = 1 /\
  (forall v, remove_failed_arg v = v) /\ (forall v, bufadd_arg v = v) /\ (forall e, remove_pass_arg e = e) /\
  (forall b, range_over b = b) /\ (forall l, len_ret l = l) /\ (forall sz, init_cap sz = sz) /\
  ord_remove_failed < ord_bufadd < ord_refill /\ ord_refill < ord_remove_pass < ord_shift /\
  ord_shift < ord_dec < ord_halve.
Proof. repeat split; try reflexivity; vm_compute; reflexivity. Qed.

(* ---- 64-bit arithmetic *)
Lemma lz64_shiftr_maxu (j : nat) : (j <= 64)%nat -> lz64 (Z.shiftr maxu (Z.of_nat j)) = Z.of_nat j.
Proof.
  intros H.
  do 65 (destruct j as [|j]; [vm_compute; reflexivity|]).
  lia.
Qed.

Lemma shiftr_maxu_big (j : nat) : (64 <= j)%nat -> Z.shiftr maxu (Z.of_nat j) = 0.
Proof.
  intros H. apply Z.shiftr_eq_0.
  - vm_compute. discriminate.
  - replace (Z.log2 maxu) with 63 by (vm_compute; reflexivity). lia.
Qed.

Lemma wrap_p2k (j : nat) :
  wrap64 (count_p2k (lz64 (Z.shiftr maxu (Z.of_nat j)))) = 2 ^ Z.of_nat j mod two64.
Proof.
  destruct (le_lt_dec j 64) as [H|H].
  - rewrite lz64_shiftr_maxu by assumption. rewrite count_p2k_shape, Z.shiftl_1_l. reflexivity.
  - rewrite shiftr_maxu_big by lia.
    replace (wrap64 (count_p2k (lz64 0))) with 0 by (vm_compute; reflexivity).
    replace (Z.of_nat j) with (64 + (Z.of_nat j - 64)) by lia.
    rewrite Z.pow_add_r by lia. change (2 ^ 64) with two64.
    rewrite Z.mul_comm, Z_mod_mult. reflexivity.
Qed.

Section Det.
  Variable T : Type.
  Variable eqb : T -> T -> bool.
  Hypothesis eqb_spec : forall x y, reflect (x = y) (eqb x y).

  Notation memb := (memb T eqb).
  Notation remove := (remove T eqb).
  Notation insert := (insert T eqb).
  Notation st := (st T).
  Notation dpass := (pass T eqb (D T) (dret T) (dbind T) (dword T)).
  Notation dhalve1 := (halve1 T eqb (D T) (dret T) (dbind T) (dword T) (dorder T eqb)).
  Notation dloop := (loop T eqb (D T) (dret T) (dbind T) (dword T) (dorder T eqb)).
  Notation dadd := (dadd T eqb).
  Notation step := (step T eqb).
  Notation run := (run T eqb).
  Notation seen_from := (seen_from T eqb).
  Notation seen := (seen T eqb).
  Notation distinct := (distinct T eqb).
  Notation count := (count T).
  Notation len := (len T).
  Notation init := (init T).
  Notation reset := (reset T).

  (* ---- sets as duplicate-free lists *)
  Lemma memb_In x l : memb x l = true <-> In x l.
  Proof.
    unfold DistinctModel.memb. rewrite existsb_exists. split.
    - intros [y [Hy He]]. destruct (eqb_spec x y); [subst; assumption|discriminate].
    - intros H. exists x. split; [assumption|]. destruct (eqb_spec x x); congruence.
  Qed.

  Lemma memb_false x l : memb x l = false <-> ~ In x l.
  Proof. rewrite <- memb_In. destruct (memb x l); split; congruence. Qed.

  Lemma In_remove x y l : In y (remove x l) <-> In y l /\ y <> x.
  Proof.
    unfold DistinctModel.remove. rewrite filter_In.
    destruct (eqb_spec x y); cbn; split; intros [H1 H2]; split; congruence.
  Qed.

  Lemma remove_length x l : (length (remove x l) <= length l)%nat.
  Proof.
    unfold DistinctModel.remove. induction l as [|y l IH]; cbn; [lia|].
    destruct (negb (eqb x y)); cbn; lia.
  Qed.

  Lemma NoDup_remove x l : NoDup l -> NoDup (remove x l).
  Proof. apply NoDup_filter. Qed.

  Lemma In_insert x y l : In y (insert x l) <-> y = x \/ In y l.
  Proof.
    unfold DistinctModel.insert. destruct (memb x l) eqn:Hm.
    - apply memb_In in Hm. split; [tauto|]. intros [->|H]; assumption.
    - rewrite in_app_iff. cbn. split; intros H; intuition.
  Qed.

  Lemma NoDup_insert x l : NoDup l -> NoDup (insert x l).
  Proof.
    intros H. unfold DistinctModel.insert. destruct (memb x l) eqn:Hm; [assumption|].
    apply memb_false in Hm.
    apply NoDup_rev in H. rewrite <- (rev_involutive (l ++ [x])). apply NoDup_rev.
    rewrite rev_app_distr. cbn. constructor; [rewrite <- in_rev; assumption|assumption].
  Qed.

  Lemma insert_length x l : (length l <= length (insert x l) <= S (length l))%nat.
  Proof.
    unfold DistinctModel.insert. destruct (memb x l); [lia|]. rewrite app_length. cbn. lia.
  Qed.

  (* ---- the pass and the halving statement in the bit-reader monad *)
  Lemma dpass_ok : forall elts b nb rnd t b' t',
    dpass elts b nb rnd t = DOk b' t' ->
    (length b' <= length b)%nat /\ incl b' b /\ (NoDup b -> NoDup b').
  Proof.
    induction elts as [|e rest IH]; intros b nb rnd t b' t' H.
    - cbn in H. unfold dret in H. inversion H; subst. split; [lia|]. split; [apply incl_refl|tauto].
    - cbn [pass] in H.
      assert (Hstep : forall (d : bool) nb1 rnd1 t1, dpass rest (if d then remove e b else b) nb1 rnd1 t1 = DOk b' t' ->
                (length b' <= length b)%nat /\ incl b' b /\ (NoDup b -> NoDup b')).
      { intros d nb1 rnd1 t1 H1. apply IH in H1. destruct H1 as [Hl [Hi Hn]].
        destruct d.
        - pose proof (remove_length e b). split; [lia|]. split.
          + intros y Hy. apply Hi in Hy. apply In_remove in Hy. tauto.
          + intros Hb. apply Hn. apply NoDup_remove. assumption.
        - tauto. }
      destruct (nb_is_zero nb).
      + unfold dbind at 1 in H. destruct (dword T t) as [w t1|]; [|discriminate].
        cbv beta in H. eapply Hstep. exact H.
      + cbv beta in H. eapply Hstep. exact H.
  Qed.

  Lemma dhalve1_ok b t b' t' :
    dhalve1 b t = DOk b' t' -> (length b' <= length b)%nat /\ incl b' b /\ (NoDup b -> NoDup b').
  Proof.
    unfold halve1, dbind. destruct (dorder T eqb b t) as [o t1|]; [|discriminate].
    apply dpass_ok.
  Qed.

  (* ---- the invariant of every run *)
  Definition Inv (s : st) : Prop := NoDup (buf s) /\ p s = Z.shiftr maxu (Z.of_nat (k s)).

  Lemma Inv_init : Inv init.
  Proof. split; [constructor|reflexivity]. Qed.
  Lemma Inv_reset s : Inv (reset s).
  Proof. split; [constructor|reflexivity]. Qed.

  Lemma halve_p_inv q (j : nat) : q = Z.shiftr maxu (Z.of_nat j) -> halve_p q = Z.shiftr maxu (Z.of_nat (S j)).
  Proof.
    intros ->. rewrite halve_p_shape, Z.shiftr_shiftr by lia. f_equal. lia.
  Qed.

  Lemma dloop_ok : forall fuel cap b q j t s' t',
    dloop fuel cap b q j t = DOk (Done s') t' ->
    NoDup b -> q = Z.shiftr maxu (Z.of_nat j) ->
    Inv s' /\ (j <= k s')%nat /\ full_cond (len s') cap = false /\ incl (buf s') b.
  Proof.
    induction fuel as [|f IH]; intros cap b q j t s' t' H Hnd Hq; cbn [loop] in H;
      destruct (full_cond (Z.of_nat (length b)) cap) eqn:Hc.
    - discriminate.
    - unfold dret in H. inversion H; subst. cbn. repeat split; try assumption; try lia. apply incl_refl.
    - unfold dbind at 1 in H. destruct (dhalve1 b t) as [b1 t1|] eqn:Hh; [|discriminate].
      apply dhalve1_ok in Hh. destruct Hh as [_ [Hi Hn]].
      apply IH in H; [|tauto|apply halve_p_inv; assumption].
      destruct H as [HI [Hk [Hf Hin]]]. split; [assumption|]. split; [lia|]. split; [assumption|].
      eapply incl_tran; eassumption.
    - unfold dret in H. inversion H; subst. cbn. repeat split; try assumption; try lia. apply incl_refl.
  Qed.

  (* what one Add does, in terms of the state before and after *)
  Lemma dcoin_cases q j t failed t' :
    dcoin T q j t = DOk failed t' ->
    (q >= maxu /\ failed = false /\ t' = t) \/
    (q < maxu /\ exists w, 0 <= w < two64 /\ words T t = w :: words T t' /\ orc T t' = orc T t /\ failed = (w >=? q)).
  Proof.
    unfold dcoin, real_coin. destruct (q <? maxu) eqn:Hq.
    - apply Z.ltb_lt in Hq. unfold dbind, dword. destruct (words T t) as [|w r] eqn:Hw; [discriminate|].
      destruct ((0 <=? w) && (w <? two64)) eqn:Hr; [|discriminate].
      unfold dret. intros H. inversion H; subst. right. split; [assumption|]. exists w.
      apply andb_true_iff in Hr. destruct Hr as [H1 H2]. apply Z.leb_le in H1. apply Z.ltb_lt in H2.
      cbn. rewrite coin_fail_shape. replace (q <? maxu) with true by (symmetry; apply Z.ltb_lt; assumption).
      repeat split; try assumption; reflexivity.
    - apply Z.ltb_ge in Hq. unfold dret. intros H. inversion H; subst. left. repeat split. lia.
  Qed.

  Inductive add_shape (single : bool) (cap : Z) (s : st) (v : T) (s' : st) : Prop :=
  | AS_failed : p s < maxu -> buf s' = remove v (buf s) -> p s' = p s -> k s' = k s ->
                add_shape single cap s v s'
  | AS_plain : full_cond (Z.of_nat (length (insert v (buf s)))) cap = false ->
               buf s' = insert v (buf s) -> p s' = p s -> k s' = k s ->
               add_shape single cap s v s'
  | AS_halved : full_cond (Z.of_nat (length (insert v (buf s)))) cap = true ->
                (exists w, 0 <= w < p s) \/ p s >= maxu ->
                (length (buf s') <= length (insert v (buf s)))%nat -> incl (buf s') (insert v (buf s)) ->
                NoDup (buf s') -> (k s < k s')%nat -> (single = true -> k s' = S (k s)) ->
                (single = false -> full_cond (len s') cap = false) ->
                p s' = Z.shiftr maxu (Z.of_nat (k s')) ->
                add_shape single cap s v s'.

  Lemma dadd_shape single fuel cap s v t s' t' :
    Inv s -> dadd single fuel cap s v t = DOk (Done s') t' -> add_shape single cap s v s'.
  Proof.
    intros [Hnd Hp] H. unfold DistinctModel.dadd, add in H. unfold dbind at 1 in H.
    destruct (dcoin T (p s) (k s) t) as [failed t1|] eqn:Hc; [|discriminate].
    apply dcoin_cases in Hc.
    assert (Hpass : failed = false -> (exists w, 0 <= w < p s) \/ p s >= maxu).
    { intros Hf. destruct Hc as [[H1 _]|[H1 [w [Hw [_ [_ He]]]]]]; [right; assumption|].
      left. exists w. rewrite He in Hf. rewrite Z.geb_leb in Hf. apply Z.leb_gt in Hf. lia. }
    destruct failed.
    - unfold dret in H. inversion H; subst. apply AS_failed; cbn; try reflexivity.
      destruct Hc as [[_ [Hf _]]|[H1 _]]; [discriminate|assumption].
    - specialize (Hpass eq_refl).
      pose proof (NoDup_insert v (buf s) Hnd) as Hnb.
      destruct single.
      + destruct (full_cond (Z.of_nat (length (insert v (buf s)))) cap) eqn:Hfc.
        * unfold dbind at 1 in H. destruct (dhalve1 (insert v (buf s)) t1) as [b1 t2|] eqn:Hh; [|discriminate].
          unfold dret in H. inversion H; subst. apply dhalve1_ok in Hh. destruct Hh as [Hl [Hi Hn]].
          apply AS_halved; cbn; try tauto; try lia; try discriminate.
          apply halve_p_inv. assumption.
        * unfold dret in H. inversion H; subst. apply AS_plain; cbn; try reflexivity. assumption.
      + destruct (full_cond (Z.of_nat (length (insert v (buf s)))) cap) eqn:Hfc.
        * destruct fuel as [|f]; cbn [loop] in H; rewrite Hfc in H; [discriminate|].
          unfold dbind at 1 in H. destruct (dhalve1 (insert v (buf s)) t1) as [b1 t2|] eqn:Hh; [|discriminate].
          apply dhalve1_ok in Hh. destruct Hh as [Hl [Hi Hn]].
          apply dloop_ok in H; [|tauto|apply halve_p_inv; assumption].
          destruct H as [[HI1 HI2] [Hk [Hf Hin]]].
          apply AS_halved; try tauto; try lia; try discriminate.
          -- apply NoDup_incl_length in Hin; [|assumption]. lia.
          -- eapply incl_tran; eassumption.
        * destruct fuel as [|f]; cbn [loop] in H; rewrite Hfc in H;
            unfold dret in H; inversion H; subst; apply AS_plain; cbn; try reflexivity; assumption.
  Qed.

  Lemma add_shape_Inv single cap s v s' : Inv s -> add_shape single cap s v s' -> Inv s' /\ (k s <= k s')%nat.
  Proof.
    intros [Hnd Hp] [H1 H2 H3 H4|H1 H2 H3 H4|H1 H2 H3 H4 H5 H6 H7 H8 H9]; unfold Inv.
    - rewrite H2, H3, H4. split; [split; [apply NoDup_remove|]; assumption|lia].
    - rewrite H2, H3, H4. split; [split; [apply NoDup_insert|]; assumption|lia].
    - split; [split; assumption|lia].
  Qed.

  (* ---- runs *)
  Lemma step_add_inv single fuel cap s ws v o s' ws' :
    step single fuel cap s ws (OAdd v o) = ROk s' ws' -> Inv s -> add_shape single cap s v s'.
  Proof.
    intros H HI. cbn in H.
    destruct (dadd single fuel cap s v (mktape T ws o)) as [[s1|s1] t1|] eqn:Hd; try discriminate.
    inversion H; subst. eapply dadd_shape; eassumption.
  Qed.

  Lemma step_Inv single fuel cap s ws o s' ws' :
    step single fuel cap s ws o = ROk s' ws' -> Inv s -> Inv s'.
  Proof.
    destruct o as [v o|].
    - intros H HI. eapply add_shape_Inv; [eassumption|]. eapply step_add_inv; eassumption.
    - cbn. intros H _. inversion H; subst. apply Inv_reset.
  Qed.

  Lemma run_app single fuel cap : forall ops1 ops2 s ws,
    run single fuel cap s ws (ops1 ++ ops2) =
    match run single fuel cap s ws ops1 with
    | ROk s1 ws1 => run single fuel cap s1 ws1 ops2
    | RErr e => RErr e
    end.
  Proof.
    induction ops1 as [|o r IH]; intros ops2 s ws; [reflexivity|].
    cbn [app DistinctModel.run]. destruct (step single fuel cap s ws o); [apply IH|reflexivity].
  Qed.

  Lemma run_Inv single fuel cap : forall ops s ws s' ws',
    run single fuel cap s ws ops = ROk s' ws' -> Inv s -> Inv s'.
  Proof.
    induction ops as [|o r IH]; intros s ws s' ws' H HI; cbn in H.
    - inversion H; subst. assumption.
    - destruct (step single fuel cap s ws o) as [s1 ws1|] eqn:Hs; [|discriminate].
      eapply IH; [eassumption|]. eapply step_Inv; eassumption.
  Qed.

  (* ---- Count = Len * 2^k (mod 2^64), for every k *)
  Lemma count_formula s : p s = Z.shiftr maxu (Z.of_nat (k s)) ->
    count s = (len s * 2 ^ Z.of_nat (k s)) mod two64.
  Proof.
    intros Hp. unfold DistinctModel.count. rewrite Hp, wrap_p2k, count_ret_shape. unfold wrap64.
    apply Z.mul_mod_idemp_r. vm_compute. discriminate.
  Qed.

  Theorem count_shape single fuel cap ws ops s ws' :
    run single fuel cap init ws ops = ROk s ws' ->
    p s = Z.shiftr maxu (Z.of_nat (k s)) /\
    count s = (len s * 2 ^ Z.of_nat (k s)) mod two64 /\
    NoDup (buf s).
  Proof.
    intros H. apply run_Inv in H; [|apply Inv_init]. destruct H as [H1 H2].
    split; [assumption|]. split; [apply count_formula; assumption|assumption].
  Qed.

  (* the exponent never decreases across an Add, grows by at most one per Add in the pinned
     variant, and Reset puts the counter back into its initial state *)
  Theorem k_monotone single fuel cap ws ops v o s ws1 s' ws2 :
    run single fuel cap init ws ops = ROk s ws1 ->
    step single fuel cap s ws1 (OAdd v o) = ROk s' ws2 ->
    (k s <= k s')%nat /\ (single = true -> (k s' <= S (k s))%nat) /\
    (k s' = k s -> p s' = p s).
  Proof.
    intros H Hs. apply run_Inv in H; [|apply Inv_init].
    pose proof (step_add_inv _ _ _ _ _ _ _ _ _ Hs H) as Hsh.
    destruct Hsh as [H1 H2 H3 H4|H1 H2 H3 H4|H1 H2 H3 H4 H5 H6 H7 H8 H9].
    - repeat split; intros; try lia; assumption.
    - repeat split; intros; try lia; assumption.
    - repeat split; intros; try lia. rewrite H7 by assumption. lia.
  Qed.

  Theorem reset_restores single fuel cap s ws :
    step single fuel cap s ws OReset = ROk init ws.
  Proof. reflexivity. Qed.

  (* ---- the exact regime *)
  Fixpoint has_reset (ops : list (op T)) : bool :=
    match ops with [] => false | OReset :: _ => true | OAdd _ _ :: r => has_reset r end.

  Lemma seen_from_reset : forall ops a a', has_reset ops = true -> seen_from a ops = seen_from a' ops.
  Proof.
    induction ops as [|[v o|] r IH]; intros a a' H; cbn in *; [discriminate|apply IH; assumption|reflexivity].
  Qed.

  Lemma seen_from_mono : forall ops a, has_reset ops = false -> (length a <= length (seen_from a ops))%nat.
  Proof.
    induction ops as [|[v o|] r IH]; intros a H; cbn in *; [lia| |discriminate].
    specialize (IH (insert v a) H). pose proof (insert_length v a). lia.
  Qed.

  Definition exact_state (s : st) : Prop := p s = maxu /\ k s = O.

  Lemma exact_run single fuel cap : forall ops s ws s' ws',
    run single fuel cap s ws ops = ROk s' ws' -> Inv s ->
    Z.of_nat (length (seen_from (buf s) ops)) < cap ->
    exact_state s \/ has_reset ops = true ->
    exact_state s' /\ buf s' = seen_from (buf s) ops.
  Proof.
    induction ops as [|o r IH]; intros s ws s' ws' H HI Hlen Hex; cbn [DistinctModel.run] in H.
    - inversion H; subst. destruct Hex as [Hex|Hex]; [|discriminate]. split; [assumption|reflexivity].
    - destruct (step single fuel cap s ws o) as [s1 ws1|] eqn:Hs; [|discriminate].
      pose proof (step_Inv _ _ _ _ _ _ _ _ Hs HI) as HI1.
      destruct o as [v o|].
      + cbn [DistinctSpec.seen_from] in *.
        destruct (has_reset r) eqn:Hr.
        * rewrite (seen_from_reset r _ (buf s1) Hr) in *.
          apply (IH _ _ _ _ H HI1 Hlen). right. reflexivity.
        * destruct Hex as [[Hp Hk]|Hex]; [|cbn in Hex; congruence].
          pose proof (step_add_inv _ _ _ _ _ _ _ _ _ Hs HI) as Hsh.
          pose proof (seen_from_mono r (insert v (buf s)) Hr) as Hm.
          destruct Hsh as [H1 H2 H3 H4|H1 H2 H3 H4|H1 H2 H3 H4 H5 H6 H7 H8 H9].
          -- lia.
          -- rewrite <- H2 in *. apply (IH _ _ _ _ H HI1 Hlen). left. split; congruence.
          -- rewrite full_cond_shape in H1. rewrite Z.geb_leb in H1. apply Z.leb_le in H1. lia.
      + cbn in Hs. inversion Hs; subst. cbn [DistinctSpec.seen_from] in *.
        apply (IH _ _ _ _ H HI1 Hlen). left. split; reflexivity.
  Qed.

  Theorem exact single fuel cap ws ops s ws' :
    cap <= two64 ->
    run single fuel cap init ws ops = ROk s ws' ->
    Z.of_nat (distinct ops) < cap ->
    count s = Z.of_nat (distinct ops) /\ len s = Z.of_nat (distinct ops) /\
    buf s = seen ops /\ k s = O /\ p s = maxu.
  Proof.
    intros Hcap H Hd.
    destruct (exact_run _ _ _ _ _ _ _ _ H Inv_init Hd) as [[Hp Hk] Hb].
    { left. split; reflexivity. }
    cbn in Hb. fold (seen ops) in Hb.
    assert (Hl : len s = Z.of_nat (distinct ops)).
    { unfold DistinctModel.len, DistinctSpec.distinct. rewrite Hb. reflexivity. }
    repeat split; try assumption.
    rewrite count_formula by (rewrite Hp, Hk; reflexivity).
    rewrite Hk, Hl. cbn [Z.of_nat Z.pow]. rewrite Z.mul_1_r. apply Z.mod_small. lia.
  Qed.

  (* ---- the buffer bound *)
  (* repaired variant (the halving statement is a loop): Len < cap after every completed run *)
  Theorem len_loop fuel cap ws ops s ws' :
    1 <= cap -> run false fuel cap init ws ops = ROk s ws' -> len s < cap.
  Proof.
    intros Hcap. revert s ws'. induction ops as [|o r IH] using rev_ind; intros s ws' H.
    - cbn in H. inversion H; subst. cbn. lia.
    - rewrite run_app in H. destruct (run false fuel cap init ws r) as [s1 ws1|] eqn:Hr; [|discriminate].
      specialize (IH _ _ eq_refl). pose proof (run_Inv _ _ _ _ _ _ _ _ Hr Inv_init) as HI.
      cbn [DistinctModel.run] in H.
      destruct (step false fuel cap s1 ws1 o) as [s2 ws2|] eqn:Hs; [|discriminate]. inversion H; subst.
      destruct o as [v o|].
      + pose proof (step_add_inv _ _ _ _ _ _ _ _ _ Hs HI) as Hsh.
        unfold DistinctModel.len in *.
        destruct Hsh as [H1 H2 H3 H4|H1 H2 H3 H4|H1 H2 H3 H4 H5 H6 H7 H8 H9].
        * rewrite H2. pose proof (remove_length v (buf s1)). lia.
        * rewrite H2. rewrite full_cond_shape, Z.geb_leb in H1. apply Z.leb_gt in H1. assumption.
        * specialize (H8 eq_refl). unfold DistinctModel.len in H8.
          rewrite full_cond_shape, Z.geb_leb in H8. apply Z.leb_gt in H8. assumption.
      + cbn in Hs. inversion Hs; subst. cbn. lia.
  Qed.

  (* pinned variant: Len < cap as long as every halving pass so far dropped at least one element *)
  Definition every_pass_dropped (single : bool) (fuel : nat) (cap : Z) (ws : list Z) (ops : list (op T)) : Prop :=
    forall ops1 v o ops2 s ws1 s' ws2,
      ops = ops1 ++ OAdd v o :: ops2 ->
      run single fuel cap init ws ops1 = ROk s ws1 ->
      step single fuel cap s ws1 (OAdd v o) = ROk s' ws2 ->
      (k s < k s')%nat ->
      (length (buf s') < length (insert v (buf s)))%nat.

  Theorem len_partial fuel cap ws ops s ws' :
    1 <= cap -> run true fuel cap init ws ops = ROk s ws' ->
    every_pass_dropped true fuel cap ws ops -> len s < cap.
  Proof.
    intros Hcap. revert s ws'. induction ops as [|o r IH] using rev_ind; intros s ws' H Hgood.
    - cbn in H. inversion H; subst. cbn. lia.
    - rewrite run_app in H. destruct (run true fuel cap init ws r) as [s1 ws1|] eqn:Hr; [|discriminate].
      assert (Hgood1 : every_pass_dropped true fuel cap ws r).
      { intros ops1 v1 o1 ops2 sa wsa sb wsb He. apply (Hgood ops1 v1 o1 (ops2 ++ [o])).
        rewrite He, <- app_assoc. reflexivity. }
      specialize (IH _ _ eq_refl Hgood1). pose proof (run_Inv _ _ _ _ _ _ _ _ Hr Inv_init) as HI.
      cbn [DistinctModel.run] in H.
      destruct (step true fuel cap s1 ws1 o) as [s2 ws2|] eqn:Hs; [|discriminate]. inversion H; subst.
      destruct o as [v o|].
      + pose proof (step_add_inv _ _ _ _ _ _ _ _ _ Hs HI) as Hsh.
        pose proof (Hgood r v o [] s1 ws1 s ws' eq_refl Hr Hs) as Hdrop.
        unfold DistinctModel.len in *.
        destruct Hsh as [H1 H2 H3 H4|H1 H2 H3 H4|H1 H2 H3 H4 H5 H6 H7 H8 H9].
        * rewrite H2. pose proof (remove_length v (buf s1)). lia.
        * rewrite H2. rewrite full_cond_shape, Z.geb_leb in H1. apply Z.leb_gt in H1. assumption.
        * specialize (Hdrop H6). pose proof (insert_length v (buf s1)). lia.
      + cbn in Hs. inversion Hs; subst. cbn. lia.
  Qed.

  (* even without that hypothesis, one Add lets the buffer grow by at most one element *)
  Theorem len_step single fuel cap ws ops v o s ws1 s' ws2 :
    run single fuel cap init ws ops = ROk s ws1 ->
    step single fuel cap s ws1 (OAdd v o) = ROk s' ws2 ->
    len s' <= len s + 1.
  Proof.
    intros H Hs. apply run_Inv in H; [|apply Inv_init].
    pose proof (step_add_inv _ _ _ _ _ _ _ _ _ Hs H) as Hsh. unfold DistinctModel.len.
    pose proof (insert_length v (buf s)) as Hil. pose proof (remove_length v (buf s)) as Hrl.
    destruct Hsh as [H1 H2 H3 H4|H1 H2 H3 H4|H1 H2 H3 H4 H5 H6 H7 H8 H9]; try rewrite H2; lia.
  Qed.
  (* pinned variant: the threshold reaches 0 after 64 halvings and then every coin fails (every
     word is >= 0), so nothing is inserted and no further pass happens: k <= 64 on every run *)
  Theorem k_bound fuel cap ws ops s ws' :
    run true fuel cap init ws ops = ROk s ws' -> (k s <= 64)%nat.
  Proof.
    revert s ws'. induction ops as [|o r IH] using rev_ind; intros s ws' H.
    - cbn in H. inversion H; subst. cbn. lia.
    - rewrite run_app in H. destruct (run true fuel cap init ws r) as [s1 ws1|] eqn:Hr; [|discriminate].
      specialize (IH _ _ eq_refl). pose proof (run_Inv _ _ _ _ _ _ _ _ Hr Inv_init) as HI.
      cbn [DistinctModel.run] in H.
      destruct (step true fuel cap s1 ws1 o) as [s2 ws2|] eqn:Hs; [|discriminate]. inversion H; subst.
      destruct o as [v o|].
      + pose proof (step_add_inv _ _ _ _ _ _ _ _ _ Hs HI) as Hsh.
        destruct Hsh as [H1 H2 H3 H4|H1 H2 H3 H4|H1 H2 H3 H4 H5 H6 H7 H8 H9]; try lia.
        rewrite (H7 eq_refl). destruct (Nat.eq_dec (k s1) 64) as [He|He]; [|lia].
        exfalso. destruct HI as [_ Hp]. rewrite He in Hp.
        replace (Z.shiftr maxu (Z.of_nat 64)) with 0 in Hp by (vm_compute; reflexivity).
        destruct H2 as [[w Hw]|Hge]; [lia|]. rewrite Hp in Hge. vm_compute in Hge. apply Hge. reflexivity.
      + cbn in Hs. inversion Hs; subst. cbn. lia.
  Qed.

  (* the reference count is the usual one: for a stream of Adds, [distinct] is the length of the
     standard library's duplicate-free version of the stream *)
  Lemma seen_adds_In : forall vs acc x,
    In x (seen_from acc (DistinctSpec.adds T vs)) <-> In x acc \/ In x vs.
  Proof.
    induction vs as [|v vs IH]; intros acc x; cbn; [tauto|].
    rewrite IH, In_insert. split; intros H; intuition.
  Qed.

  Lemma seen_from_NoDup_det : forall ops acc, NoDup acc -> NoDup (seen_from acc ops).
  Proof.
    induction ops as [|[v o|] r IH]; intros acc H; cbn; [assumption| |apply IH; constructor].
    apply IH. apply NoDup_insert. assumption.
  Qed.

  Theorem distinct_adds_nodup (dec : forall x y : T, {x = y} + {x <> y}) vs :
    distinct (DistinctSpec.adds T vs) = length (nodup dec vs).
  Proof.
    unfold DistinctSpec.distinct, DistinctSpec.seen.
    apply Permutation.Permutation_length. apply Permutation.NoDup_Permutation.
    - apply seen_from_NoDup_det. constructor.
    - apply NoDup_nodup.
    - intros x. rewrite seen_adds_In, nodup_In. cbn. tauto.
  Qed.
End Det.

(* ---- F8: the pinned single pass lets Len exceed the size.  Size 2; the pass after the second
   Add reads an all-ones word and keeps both elements; the third Add passes its coin (word 0),
   is inserted, and the pass keeps all three. *)
Definition f8_words : list Z := [maxu; 0; maxu].
Definition f8_ops : list (op Z) := [OAdd 1 None; OAdd 2 None; OAdd 3 None].

Lemma len_refuted :
  exists ws ops s ws', run Z Z.eqb true 10 2 (init Z) ws ops = ROk s ws' /\ len Z s = 3 /\ 2 < len Z s.
Proof.
  exists f8_words, f8_ops. eexists. eexists. split; [vm_compute; reflexivity|]. split; vm_compute; reflexivity.
Qed.

(* the same history in the repaired variant stays below the size (it needs one more word) *)
Lemma f8_repaired :
  exists s ws', run Z Z.eqb false 10 2 (init Z) [0; 0; 0; 0] f8_ops = ROk s ws' /\ len Z s < 2.
Proof. eexists. eexists. split; [vm_compute; reflexivity|]. vm_compute. reflexivity. Qed.
