(* C19, probabilistic part: the expectation instance of the model (ideal coins).
   For every element a, the quantity [a in buf] * 2^k is a martingale along every stream: its
   expectation is 1 once a has been added and 0 before.  Summed over the distinct values this gives
   E[Len * 2^k] = number of distinct values, exactly, for the pinned single pass, for every size
   and every map order.  No functional extensionality: continuations are compared pointwise
   through the explicit "support" lemmas below. *)
From Coq Require Import ZArith List Bool Lia Arith QArith Qfield Permutation.
Import ListNotations.
From Mds Require Import Gen.DistinctConst Distinct.DistinctModel Distinct.DistinctSpec Distinct.DistinctProofs.
Local Open Scope Q_scope.

(* ---- the expectation monad: pointwise equality on a support, additivity *)
Definition supp {A : Type} (m : E A) (P : A -> Prop) : Prop :=
  forall f g : A -> Q, (forall a, P a -> f a == g a) -> m f == m g.
Definition additive {A : Type} (m : E A) : Prop :=
  forall f g : A -> Q, m (fun a => f a + g a) == m f + m g.

Lemma supp_weaken {A} (m : E A) (P P' : A -> Prop) : supp m P -> (forall a, P a -> P' a) -> supp m P'.
Proof. intros H HP f g Hfg. apply H. intros a Ha. apply Hfg, HP, Ha. Qed.

Lemma supp_ret {A} (a : A) (P : A -> Prop) : P a -> supp (Eret A a) P.
Proof. intros Ha f g H. unfold Eret. apply H, Ha. Qed.

Lemma supp_bind {A B} (m : E A) (g : A -> E B) (P : A -> Prop) (R : B -> Prop) :
  supp m P -> (forall a, P a -> supp (g a) R) -> supp (Ebind A B m g) R.
Proof. intros Hm Hg f f' H. unfold Ebind. apply Hm. intros a Ha. apply (Hg a Ha). assumption. Qed.

Lemma supp_coin q j : supp (Ecoin q j) (fun _ => True).
Proof. intros f g H. unfold Ecoin. rewrite (H true I), (H false I). reflexivity. Qed.

Lemma supp_bits : forall n, supp (Ebits n) (fun _ => True).
Proof.
  induction n as [|n IH]; intros f g H; cbn [Ebits].
  - apply H. exact I.
  - rewrite (IH (fun w => f (2 * w)%Z) (fun w => g (2 * w)%Z)) by (intros; apply H; exact I).
    rewrite (IH (fun w => f (2 * w + 1)%Z) (fun w => g (2 * w + 1)%Z)) by (intros; apply H; exact I).
    reflexivity.
Qed.

Lemma additive_ret {A} (a : A) : additive (Eret A a).
Proof. intros f g. unfold Eret. reflexivity. Qed.

Lemma additive_bind {A B} (m : E A) (g : A -> E B) :
  supp m (fun _ => True) -> additive m -> (forall a, additive (g a)) -> additive (Ebind A B m g).
Proof.
  intros Hs Hm Hg f f'. unfold Ebind.
  rewrite (Hs _ (fun a => g a f + g a f')) by (intros a _; apply Hg).
  apply Hm.
Qed.

Lemma additive_coin q j : additive (Ecoin q j).
Proof. intros f g. unfold Ecoin. ring. Qed.

Lemma additive_bits : forall n, additive (Ebits n).
Proof.
  induction n as [|n IH]; intros f g; cbn [Ebits]; [reflexivity|].
  rewrite (IH (fun w => f (2 * w)%Z) (fun w => g (2 * w)%Z)).
  rewrite (IH (fun w => f (2 * w + 1)%Z) (fun w => g (2 * w + 1)%Z)). ring.
Qed.

Lemma Ebits_const : forall n c, Ebits n (fun _ => c) == c.
Proof. induction n as [|n IH]; intros c; cbn [Ebits]; [reflexivity|]. rewrite !IH. field. Qed.

(* powers of two *)
Lemma pw_S j : pw (S j) == 2 * pw j.
Proof.
  unfold pw. rewrite Nat2Z.inj_succ, Z.pow_succ_r by lia. rewrite inject_Z_mult. reflexivity.
Qed.
Lemma pw_pos j : 0 < pw j.
Proof.
  unfold pw. replace 0 with (inject_Z 0) by reflexivity. rewrite <- Zlt_Qlt. apply Z.pow_pos_nonneg; lia.
Qed.
Lemma pw_nz j : ~ pw j == 0.
Proof. intros H. pose proof (pw_pos j) as Hp. rewrite H in Hp. apply (Qlt_irrefl 0). exact Hp. Qed.

(* the bit manipulation of the pass, on the low-bit-first decomposition of a word *)
Lemma drop_bit_even w : drop_bit (2 * w) = true.
Proof.
  unfold drop_bit. apply Z.eqb_eq. change 1%Z with (Z.ones 1). rewrite Z.land_ones by lia.
  change (2 ^ 1)%Z with 2%Z. rewrite Z.mul_comm. apply Z_mod_mult.
Qed.
Lemma drop_bit_odd w : drop_bit (2 * w + 1) = false.
Proof.
  unfold drop_bit. apply Z.eqb_neq. change 1%Z with (Z.ones 1) at 2. rewrite Z.land_ones by lia.
  change (2 ^ 1)%Z with 2%Z. rewrite Z.add_comm, Z.mul_comm, Z_mod_plus_full. discriminate.
Qed.
Lemma rnd_shift_even w : rnd_shift (2 * w) = w.
Proof. unfold rnd_shift. rewrite Z.shiftr_div_pow2 by lia. change (2 ^ 1)%Z with 2%Z. rewrite Z.mul_comm. apply Z_div_mult. lia. Qed.
Lemma rnd_shift_odd w : rnd_shift (2 * w + 1) = w.
Proof.
  unfold rnd_shift. rewrite Z.shiftr_div_pow2 by lia. change (2 ^ 1)%Z with 2%Z.
  rewrite Z.add_comm, Z.mul_comm, Z_div_plus by lia. reflexivity.
Qed.
Lemma nb_dec_S (m : nat) : nb_dec (Z.of_nat (S m)) = Z.of_nat m.
Proof. unfold nb_dec. lia. Qed.
Lemma nb_is_zero_S (m : nat) : nb_is_zero (Z.of_nat (S m)) = false.
Proof. unfold nb_is_zero. apply Z.eqb_neq. lia. Qed.
Lemma nb_is_zero_0 : nb_is_zero (Z.of_nat 0) = true.
Proof. reflexivity. Qed.
Lemma refill_is_word : refill_nb = Z.of_nat 64.
Proof. reflexivity. Qed.

Lemma Ebind_unfold {A B} (m : E A) (g : A -> E B) (f : B -> Q) : Ebind A B m g f = m (fun a => g a f).
Proof. reflexivity. Qed.

Section Exp.
  Variable T : Type.
  Variable eqb : T -> T -> bool.
  Hypothesis eqb_spec : forall x y, reflect (x = y) (eqb x y).
  Variable ord : list T -> list T.
  Hypothesis ord_perm : forall l, Permutation (ord l) l.

  Notation memb := (memb T eqb).
  Notation remove := (remove T eqb).
  Notation insert := (insert T eqb).
  Notation st := (st T).
  Notation outcome := (outcome T).
  Notation Epass := (pass T eqb E Eret Ebind Eword).
  Notation Ehalve1 := (halve1 T eqb E Eret Ebind Eword (Eorder T ord)).
  Notation Eadd := (Eadd T eqb ord).
  Notation Erun := (Erun T eqb ord).
  Notation adds := (adds T).
  Notation seen_from := (seen_from T eqb).
  Notation seen := (seen T eqb).
  Notation distinct := (distinct T eqb).

  Definition ind (a : T) (b : list T) : Q := if memb a b then 1 else 0.
  Definition st_of (o : outcome) : st := match o with Done s => s | Fuel s => s end.
  (* the estimate without the 64-bit wrap: Len * 2^k *)
  Definition estimate (s : st) : Q := inject_Z (Z.of_nat (length (buf s))) * pw (k s).
  Definition phi (a : T) (s : st) : Q := ind a (buf s) * pw (k s).
  Definition done_with (P : st -> Prop) (o : outcome) : Prop :=
    match o with Done s => P s | Fuel _ => False end.

  Lemma memb_remove_same a l : memb a (remove a l) = false.
  Proof. apply (memb_false T eqb eqb_spec). rewrite (In_remove T eqb eqb_spec). tauto. Qed.
  Lemma memb_remove_other a e l : a <> e -> memb a (remove e l) = memb a l.
  Proof.
    intros Hne. destruct (memb a l) eqn:Hm.
    - apply (memb_In T eqb eqb_spec). apply (memb_In T eqb eqb_spec) in Hm. rewrite (In_remove T eqb eqb_spec). tauto.
    - apply (memb_false T eqb eqb_spec). apply (memb_false T eqb eqb_spec) in Hm. rewrite (In_remove T eqb eqb_spec). tauto.
  Qed.
  Lemma memb_insert a v l : memb a (insert v l) = eqb a v || memb a l.
  Proof.
    destruct (eqb_spec a v) as [->|Hne]; cbn [orb].
    - apply (memb_In T eqb eqb_spec). rewrite (In_insert T eqb eqb_spec). tauto.
    - destruct (memb a l) eqn:Hm.
      + apply (memb_In T eqb eqb_spec). apply (memb_In T eqb eqb_spec) in Hm. rewrite (In_insert T eqb eqb_spec). tauto.
      + apply (memb_false T eqb eqb_spec). apply (memb_false T eqb eqb_spec) in Hm. rewrite (In_insert T eqb eqb_spec). tauto.
  Qed.
  Lemma memb_perm a l l' : Permutation l l' -> memb a l = memb a l'.
  Proof.
    intros Hp. destruct (memb a l') eqn:Hm.
    - apply (memb_In T eqb eqb_spec). apply (memb_In T eqb eqb_spec) in Hm. eapply Permutation_in; [symmetry|]; eassumption.
    - apply (memb_false T eqb eqb_spec). apply (memb_false T eqb eqb_spec) in Hm. intros Hi. apply Hm. eapply Permutation_in; eassumption.
  Qed.

  (* ---- support and additivity of the program's pieces *)
  Lemma Epass_supp : forall elts b nb rnd, NoDup b ->
    supp (Epass elts b nb rnd) (fun b' => NoDup b' /\ incl b' b).
  Proof.
    induction elts as [|e rest IH]; intros b nb rnd Hnd; cbn [pass].
    - apply supp_ret. split; [assumption|apply incl_refl].
    - assert (Hbody : forall (d : bool) nb1 rnd1, supp (Epass rest (if d then remove e b else b) nb1 rnd1) (fun b' => NoDup b' /\ incl b' b)).
      { intros d nb1 rnd1. destruct d.
        - eapply supp_weaken; [apply IH; apply (NoDup_remove T eqb); assumption|].
          intros b' [H1 H2]. split; [assumption|]. intros y Hy. apply H2 in Hy.
          apply (In_remove T eqb eqb_spec) in Hy. tauto.
        - apply IH. assumption. }
      destruct (nb_is_zero nb).
      + eapply supp_bind; [apply supp_bits|]. intros w _. apply Hbody.
      + apply Hbody.
  Qed.

  Lemma Epass_ext : forall elts b nb rnd, supp (Epass elts b nb rnd) (fun _ => True).
  Proof.
    induction elts as [|e rest IH]; intros b nb rnd; cbn [pass].
    - apply supp_ret. exact I.
    - destruct (nb_is_zero nb).
      + eapply supp_bind; [apply supp_bits|]. intros w _. apply IH.
      + apply IH.
  Qed.

  Lemma Epass_additive : forall elts b nb rnd, additive (Epass elts b nb rnd).
  Proof.
    induction elts as [|e rest IH]; intros b nb rnd; cbn [pass].
    - apply additive_ret.
    - destruct (nb_is_zero nb).
      + apply additive_bind; [apply supp_bits|apply additive_bits|]. intros w. apply IH.
      + apply IH.
  Qed.

  Lemma Ehalve1_supp b : NoDup b -> supp (Ehalve1 b) (fun b' => NoDup b' /\ incl b' b).
  Proof.
    intros Hnd. unfold halve1. eapply supp_bind with (P := fun o => True).
    - intros f g H. unfold Eorder. apply H. exact I.
    - intros o _. apply Epass_supp. assumption.
  Qed.

  Lemma Ehalve1_ext b : supp (Ehalve1 b) (fun _ => True).
  Proof.
    unfold halve1. eapply supp_bind with (P := fun o => True).
    - intros f g H. unfold Eorder. apply H. exact I.
    - intros o _. apply Epass_ext.
  Qed.

  Lemma Ehalve1_additive b : additive (Ehalve1 b).
  Proof.
    unfold halve1. apply additive_bind.
    - intros f g H. unfold Eorder. apply H. exact I.
    - intros f g. unfold Eorder. reflexivity.
    - intros o. apply Epass_additive.
  Qed.

  (* ---- the halving lemma: with n fresh fair bits left in the register, every element of the
     visiting order that is in the buffer survives with probability 1/2, the others are untouched *)
  Lemma Epass_ind a alpha c : forall elts (n : nat) b, NoDup elts ->
    Ebits n (fun r => Epass elts b (Z.of_nat n) r (fun b' => alpha + c * ind a b')) ==
    alpha + c * (if memb a elts then (1 # 2) * ind a b else ind a b).
  Proof.
    induction elts as [|e rest IH]; intros n b Hnd.
    - cbn [pass]. unfold Eret. rewrite Ebits_const. reflexivity.
    - inversion Hnd as [|? ? Hnin Hnd']; subst.
      set (F := fun b' : list T => alpha + c * ind a b').
      set (X := fun b0 : list T => if memb a rest then (1 # 2) * ind a b0 else ind a b0).
      (* one visit with S m bits left *)
      assert (Hvisit : forall m,
        Ebits (S m) (fun r => Epass rest (if drop_bit r then remove e b else b) (nb_dec (Z.of_nat (S m))) (rnd_shift r) F)
        == (1 # 2) * (alpha + c * X (remove e b)) + (1 # 2) * (alpha + c * X b)).
      { intros m. cbn [Ebits].
        rewrite (supp_bits m _ (fun w => Epass rest (remove e b) (Z.of_nat m) w F)).
        2:{ intros w _. rewrite drop_bit_even, rnd_shift_even, nb_dec_S. reflexivity. }
        rewrite (supp_bits m (fun w => Epass rest (if drop_bit (2 * w + 1) then remove e b else b) _ _ F)
                            (fun w => Epass rest b (Z.of_nat m) w F)).
        2:{ intros w _. rewrite drop_bit_odd, rnd_shift_odd, nb_dec_S. reflexivity. }
        unfold F. rewrite !IH by assumption. reflexivity. }
      assert (Hall : Ebits n (fun r => Epass (e :: rest) b (Z.of_nat n) r F)
                     == (1 # 2) * (alpha + c * X (remove e b)) + (1 # 2) * (alpha + c * X b)).
      { destruct n as [|m].
        - cbn [Ebits]. cbn [pass]. rewrite nb_is_zero_0. rewrite Ebind_unfold.
          (* a refill is one 64-bit word; keep the 64 abstract so that nothing unfolds Ebits 64 *)
          assert (H64 : exists m, (forall f, Eword f = Ebits (S m) f) /\ refill_nb = Z.of_nat (S m))
            by (exists 63%nat; split; reflexivity).
          destruct H64 as [m [H64a H64b]]. rewrite H64a, H64b. apply (Hvisit m).
        - rewrite <- (Hvisit m). apply supp_bits. intros r _.
          cbn [pass]. rewrite nb_is_zero_S. reflexivity. }
      rewrite Hall. unfold X. cbn [DistinctModel.memb existsb].
      change (existsb (eqb a) rest) with (memb a rest).
      destruct (eqb_spec a e) as [->|Hne]; cbn [orb].
      + assert (Hr : memb e rest = false) by (apply (memb_false T eqb eqb_spec); assumption).
        rewrite Hr. unfold ind. rewrite memb_remove_same. destruct (memb e b); ring.
      + unfold ind. rewrite (memb_remove_other a e b Hne). destruct (memb a rest); destruct (memb a b); ring.
  Qed.

  Lemma Ehalve1_ind a alpha c b : NoDup b ->
    Ehalve1 b (fun b' => alpha + c * ind a b') == alpha + c * ((1 # 2) * ind a b).
  Proof.
    intros Hnd. unfold halve1, Ebind, Eorder.
    assert (Hno : NoDup (ord b)) by (eapply Permutation_NoDup; [symmetry; apply ord_perm|assumption]).
    pose proof (Epass_ind a alpha c (ord b) 0%nat b Hno) as H. cbn [Ebits Z.of_nat] in H.
    rewrite H. rewrite (memb_perm a (ord b) b (ord_perm b)).
    unfold ind. destruct (memb a b); ring.
  Qed.

  (* ---- one Add (pinned single pass): the martingale step *)
  Lemma Eadd_phi a alpha beta fuel cap s v : NoDup (buf s) ->
    Eadd true fuel cap s v (fun o => alpha + beta * phi a (st_of o)) ==
    alpha + beta * (if eqb a v then 1 else phi a s).
  Proof.
    intros Hnd. unfold DistinctModel.Eadd, add, Ebind, Ecoin, Eret. cbn [st_of].
    set (b := insert v (buf s)).
    assert (Hpass : (if full_cond (Z.of_nat (length b)) cap
                     then Ehalve1 b (fun b' => alpha + beta * phi a (mkst b' (halve_p (p s)) (S (k s))))
                     else alpha + beta * phi a (mkst b (p s) (k s)))
                    == alpha + beta * (ind a b * pw (k s))).
    { destruct (full_cond (Z.of_nat (length b)) cap).
      - rewrite (Ehalve1_supp b (NoDup_insert T eqb eqb_spec v _ Hnd) _
                  (fun b' => alpha + (beta * pw (S (k s))) * ind a b')).
        2:{ intros b' _. unfold phi. cbn [buf k]. ring. }
        rewrite Ehalve1_ind by (apply (NoDup_insert T eqb eqb_spec); assumption).
        rewrite pw_S. ring.
      - unfold phi. cbn [buf k]. reflexivity. }
    destruct (full_cond (Z.of_nat (length b)) cap) eqn:Hfc; cbn [st_of] in *; rewrite Hpass;
      unfold phi, ind, b; cbn [buf k]; rewrite memb_insert;
      (destruct (eqb_spec a v) as [->|Hne]; cbn [orb];
       [rewrite memb_remove_same; field; apply pw_nz
       |rewrite (memb_remove_other a v _ Hne); field; apply pw_nz]).
  Qed.

  Lemma Eadd_supp (P : st -> Prop) fuel cap s v :
    NoDup (buf s) ->
    (forall b' q j, NoDup b' -> incl b' (insert v (buf s)) -> P (mkst b' q j)) ->
    supp (Eadd true fuel cap s v) (done_with P).
  Proof.
    intros Hnd HP. unfold DistinctModel.Eadd, add.
    eapply supp_bind; [apply supp_coin|]. intros failed _. destruct failed.
    - apply supp_ret. cbn. apply HP; [apply (NoDup_remove T eqb); assumption|].
      intros y Hy. apply (In_remove T eqb eqb_spec) in Hy. apply (In_insert T eqb eqb_spec). tauto.
    - pose proof (NoDup_insert T eqb eqb_spec v _ Hnd) as Hnb.
      destruct (full_cond _ cap).
      + eapply supp_bind; [apply Ehalve1_supp; assumption|]. intros b' [H1 H2].
        apply supp_ret. cbn. apply HP; assumption.
      + apply supp_ret. cbn. apply HP; [assumption|apply incl_refl].
  Qed.

  Lemma Eadd_additive fuel cap s v : additive (Eadd true fuel cap s v).
  Proof.
    unfold DistinctModel.Eadd, add. apply additive_bind; [apply supp_coin|apply additive_coin|].
    intros failed. destruct failed; [apply additive_ret|].
    destruct (full_cond _ cap); [|apply additive_ret].
    apply additive_bind; [|apply Ehalve1_additive|intros; apply additive_ret].
    apply Ehalve1_ext.
  Qed.

  Lemma Eadd_ext fuel cap s v : supp (Eadd true fuel cap s v) (fun _ => True).
  Proof.
    unfold DistinctModel.Eadd, add.
    eapply supp_bind; [apply supp_coin|]. intros failed _. destruct failed; [apply supp_ret; exact I|].
    destruct (full_cond _ cap); [|apply supp_ret; exact I].
    eapply supp_bind; [apply Ehalve1_ext|]. intros b' _. apply supp_ret. exact I.
  Qed.

  (* ---- whole histories *)
  Notation has_reset := (has_reset T).

  Fixpoint allvals (ops : list (op T)) : list T :=
    match ops with
    | [] => []
    | OAdd v _ :: r => insert v (allvals r)
    | OReset :: r => allvals r
    end.

  Lemma allvals_NoDup ops : NoDup (allvals ops).
  Proof.
    induction ops as [|[v o|] r IH]; cbn; [constructor| |assumption].
    apply (NoDup_insert T eqb eqb_spec). assumption.
  Qed.
  Lemma allvals_In v o ops : In (OAdd v o) ops -> In v (allvals ops).
  Proof.
    induction ops as [|[v1 o1|] r IH]; cbn; [tauto| |].
    - intros [H|H]; apply (In_insert T eqb eqb_spec); [inversion H; subst; tauto|right; apply IH; assumption].
    - intros [H|H]; [discriminate|apply IH; assumption].
  Qed.
  Lemma seen_from_allvals : forall ops acc x, In x (seen_from acc ops) -> In x acc \/ In x (allvals ops).
  Proof.
    induction ops as [|[v o|] r IH]; intros acc x H; cbn in *; [tauto| |].
    - apply IH in H. destruct H as [H|H].
      + apply (In_insert T eqb eqb_spec) in H. destruct H as [->|H]; [right|tauto].
        apply (In_insert T eqb eqb_spec). tauto.
      + right. apply (In_insert T eqb eqb_spec). tauto.
    - apply IH in H. cbn in H. tauto.
  Qed.
  Lemma seen_from_NoDup : forall ops acc, NoDup acc -> NoDup (seen_from acc ops).
  Proof.
    induction ops as [|[v o|] r IH]; intros acc H; cbn; [assumption| |apply IH; constructor].
    apply IH. apply (NoDup_insert T eqb eqb_spec). assumption.
  Qed.

  Lemma Erun_supp (W : list T) fuel cap : forall ops s,
    NoDup (buf s) -> incl (buf s) W -> (forall v o, In (OAdd v o) ops -> In v W) ->
    supp (Erun true fuel cap s ops) (done_with (fun s' => NoDup (buf s') /\ incl (buf s') W)).
  Proof.
    induction ops as [|[v o|] r IH]; intros s Hnd Hin HW; cbn [DistinctModel.Erun].
    - apply supp_ret. cbn. tauto.
    - eapply supp_bind.
      + apply (Eadd_supp (fun s' => NoDup (buf s') /\ incl (buf s') W)); [assumption|].
        intros b' q j H1 H2. cbn. split; [assumption|]. intros y Hy. apply H2 in Hy.
        apply (In_insert T eqb eqb_spec) in Hy. destruct Hy as [->|Hy]; [|apply Hin; assumption].
        apply (HW v o). left. reflexivity.
      + intros [s'|s'] Hs'; cbn in Hs'; [|contradiction].
        apply IH; try tauto. intros v1 o1 H1. apply (HW v1 o1). right. assumption.
    - apply IH; cbn; [constructor|intros y []|].
      intros v1 o1 H1. apply (HW v1 o1). right. assumption.
  Qed.

  Lemma Erun_ext fuel cap : forall ops s, supp (Erun true fuel cap s ops) (fun _ => True).
  Proof.
    induction ops as [|[v o|] r IH]; intros s; cbn [DistinctModel.Erun].
    - apply supp_ret. exact I.
    - eapply supp_bind; [apply Eadd_ext|]. intros [s'|s'] _; [apply IH|apply supp_ret; exact I].
    - apply IH.
  Qed.

  Lemma Erun_additive fuel cap : forall ops s, additive (Erun true fuel cap s ops).
  Proof.
    induction ops as [|[v o|] r IH]; intros s; cbn [DistinctModel.Erun].
    - apply additive_ret.
    - apply additive_bind; [apply Eadd_ext|apply Eadd_additive|].
      intros [s'|s']; [apply IH|apply additive_ret].
    - apply IH.
  Qed.

  (* the value the martingale takes at the end of a history: 1 if a was added since the last
     Reset, 0 if it was not and a Reset happened, the initial weight otherwise *)
  Definition target (a : T) (s : st) (ops : list (op T)) : Q :=
    if memb a (seen ops) then 1 else if has_reset ops then 0 else phi a s.

  Lemma seen_from_memb a : forall r acc, has_reset r = false ->
    memb a (seen_from acc r) = memb a acc || memb a (seen_from [] r).
  Proof.
    induction r as [|[v o|] r IH]; intros acc H; cbn [DistinctSpec.seen_from DistinctProofs.has_reset] in *.
    - cbn. rewrite orb_false_r. reflexivity.
    - rewrite (IH (insert v acc) H), (IH (insert v []) H), !memb_insert.
      replace (memb a []) with false by reflexivity.
      destruct (eqb a v), (memb a acc); reflexivity.
    - discriminate.
  Qed.

  Lemma Erun_phi a alpha beta fuel cap : forall ops s, NoDup (buf s) ->
    Erun true fuel cap s ops (fun o => alpha + beta * phi a (st_of o)) == alpha + beta * target a s ops.
  Proof.
    induction ops as [|[v o|] r IH]; intros s Hnd; cbn [DistinctModel.Erun].
    - unfold Eret, target. cbn. reflexivity.
    - rewrite Ebind_unfold.
      rewrite (Eadd_supp (fun s' => NoDup (buf s')) fuel cap s v Hnd (fun b' q j H1 _ => H1) _
                 (fun o' => alpha + beta * target a (st_of o') r)).
      2:{ intros [s'|s'] Hs'; cbn in Hs'; [|contradiction]. cbn [st_of]. apply IH. assumption. }
      unfold target. unfold DistinctSpec.seen. cbn [DistinctSpec.seen_from has_reset].
      fold (seen r).
      destruct (has_reset r) eqn:Hr.
      + rewrite (seen_from_reset T eqb r (insert v []) [] Hr). fold (seen r).
        destruct (memb a (seen r)).
        * rewrite (Eadd_ext fuel cap s v _ (fun o' => (alpha + beta * 1) + 0 * phi a (st_of o'))) by (intros; ring).
          rewrite Eadd_phi by assumption. ring.
        * rewrite (Eadd_ext fuel cap s v _ (fun o' => (alpha + beta * 0) + 0 * phi a (st_of o'))) by (intros; ring).
          rewrite Eadd_phi by assumption. ring.
      + rewrite (seen_from_memb a r (insert v []) Hr). fold (seen r). rewrite memb_insert. cbn.
        rewrite orb_false_r.
        destruct (memb a (seen r)).
        * rewrite orb_true_r.
          rewrite (Eadd_ext fuel cap s v _ (fun o' => (alpha + beta * 1) + 0 * phi a (st_of o'))) by (intros; ring).
          rewrite Eadd_phi by assumption. ring.
        * rewrite orb_false_r. rewrite Eadd_phi by assumption. reflexivity.
    - rewrite IH by (cbn; constructor).
      unfold target. unfold DistinctSpec.seen. cbn [DistinctSpec.seen_from has_reset]. fold (seen r).
      destruct (memb a (seen r)); [reflexivity|].
      destruct (has_reset r); [reflexivity|]. unfold phi, ind. cbn. ring.
  Qed.

  (* ---- summing over the distinct values *)
  Fixpoint sumQ (f : T -> Q) (l : list T) : Q :=
    match l with [] => 0 | a :: r => f a + sumQ f r end.

  Lemma sumQ_ext f g l : (forall a, In a l -> f a == g a) -> sumQ f l == sumQ g l.
  Proof.
    induction l as [|x l IH]; intros H; cbn; [reflexivity|].
    rewrite (H x) by (left; reflexivity). rewrite IH; [reflexivity|]. intros a Ha. apply H. right. assumption.
  Qed.
  Lemma sumQ_scale f c l : sumQ (fun a => f a * c) l == sumQ f l * c.
  Proof. induction l as [|x l IH]; cbn; [ring|]. rewrite IH. ring. Qed.

  Lemma sum_ind : forall U b, NoDup U -> NoDup b -> incl b U ->
    sumQ (fun a => ind a b) U == inject_Z (Z.of_nat (length b)).
  Proof.
    induction U as [|x U IH]; intros b HU Hb Hin; cbn [sumQ].
    - destruct b as [|y b]; [reflexivity|]. exfalso. apply (Hin y). left. reflexivity.
    - inversion HU as [|? ? Hx HU']; subst.
      rewrite (sumQ_ext _ (fun a => ind a (remove x b))).
      2:{ intros a Ha. unfold ind. rewrite memb_remove_other; [reflexivity|]. intros ->. contradiction. }
      rewrite IH; [|assumption|apply (NoDup_remove T eqb); assumption|].
      2:{ intros y Hy. apply (In_remove T eqb eqb_spec) in Hy. destruct Hy as [H1 H2].
          apply Hin in H1. destruct H1; [congruence|assumption]. }
      unfold ind. destruct (memb x b) eqn:Hm.
      + assert (Hlen : length b = S (length (remove x b))).
        { clear - Hb Hm eqb_spec. apply (memb_In T eqb eqb_spec) in Hm.
          induction b as [|y b IHb]; [contradiction|]. inversion Hb as [|? ? Hy Hb']; subst.
          unfold DistinctModel.remove. cbn [filter]. destruct (eqb_spec x y) as [->|Hne]; cbn [negb].
          - f_equal. fold (remove y b). symmetry.
            assert (Hr : remove y b = b).
            { clear - Hy eqb_spec. induction b as [|z b IHb]; [reflexivity|].
              unfold DistinctModel.remove. cbn [filter]. destruct (eqb_spec y z) as [->|Hz]; cbn [negb].
              - exfalso. apply Hy. left. reflexivity.
              - f_equal. apply IHb. intros H. apply Hy. right. assumption. }
            rewrite Hr. reflexivity.
          - cbn [length]. f_equal. apply IHb; [assumption|]. destruct Hm; [congruence|assumption]. }
        rewrite Hlen, Nat2Z.inj_succ. unfold Z.succ. rewrite inject_Z_plus. ring.
      + assert (Hr : remove x b = b).
        { apply (memb_false T eqb eqb_spec) in Hm. clear - Hm eqb_spec. induction b as [|z b IHb]; [reflexivity|].
          unfold DistinctModel.remove. cbn [filter]. destruct (eqb_spec x z) as [->|Hz]; cbn [negb].
          - exfalso. apply Hm. left. reflexivity.
          - f_equal. apply IHb. intros H. apply Hm. right. assumption. }
        rewrite Hr. ring.
  Qed.

  Lemma E_zero {A} (m : E A) : supp m (fun _ => True) -> additive m -> m (fun _ => 0) == 0.
  Proof.
    intros Hs Ha. pose proof (Ha (fun _ => 0) (fun _ => 0)) as H.
    rewrite (Hs (fun _ => 0 + 0) (fun _ => 0)) in H by (intros; ring).
    assert (H2 : m (fun _ => 0) + 0 == m (fun _ => 0) + m (fun _ => 0)) by (rewrite <- H; ring).
    apply Qplus_inj_l in H2. symmetry. exact H2.
  Qed.

  Lemma Erun_sum fuel cap ops s (h : T -> outcome -> Q) : forall U,
    Erun true fuel cap s ops (fun o => sumQ (fun a => h a o) U) ==
    sumQ (fun a => Erun true fuel cap s ops (h a)) U.
  Proof.
    induction U as [|x U IH]; cbn [sumQ].
    - apply E_zero; [apply Erun_ext|apply Erun_additive].
    - rewrite (Erun_additive fuel cap ops s (h x) (fun o => sumQ (fun a => h a o) U)). rewrite IH. reflexivity.
  Qed.

  (* ---- the theorems *)
  (* for every element: E[ [a in buf] * 2^k ] is 1 once a has been added (since the last Reset)
     and 0 before *)
  Theorem unbiased_elem a fuel cap ops :
    Erun true fuel cap (init T) ops (fun o => phi a (st_of o)) ==
    (if memb a (seen ops) then 1 else 0).
  Proof.
    rewrite (Erun_ext fuel cap ops (init T) _ (fun o => 0 + 1 * phi a (st_of o))) by (intros; ring).
    rewrite Erun_phi by (cbn; constructor). unfold target.
    destruct (memb a (seen ops)); [ring|]. destruct (has_reset ops); [ring|]. unfold phi, ind. cbn. ring.
  Qed.

  (* E[Len * 2^k] = the number of distinct values added since construction / the last Reset *)
  Theorem unbiased fuel cap ops :
    Erun true fuel cap (init T) ops (fun o => estimate (st_of o)) ==
    inject_Z (Z.of_nat (distinct ops)).
  Proof.
    set (W := allvals ops).
    assert (HW : NoDup W) by apply allvals_NoDup.
    rewrite (Erun_supp W fuel cap ops (init T) (NoDup_nil T) (incl_nil_l W)
               (fun v o H => allvals_In v o ops H) _
               (fun o => sumQ (fun a => phi a (st_of o)) W)).
    2:{ intros [s'|s'] Hs'; cbn in Hs'; [|contradiction]. destruct Hs' as [H1 H2]. cbn [st_of].
        unfold estimate, phi. rewrite sumQ_scale. rewrite sum_ind by assumption. reflexivity. }
    rewrite (Erun_sum fuel cap ops (init T) (fun a o => phi a (st_of o)) W).
    rewrite (sumQ_ext _ (fun a => ind a (seen ops))) by (intros a _; apply unbiased_elem).
    unfold DistinctSpec.distinct. apply sum_ind; [assumption|apply seen_from_NoDup; constructor|].
    intros x Hx. apply seen_from_allvals in Hx. destruct Hx as [[]|Hx]. exact Hx.
  Qed.
End Exp.

(* ---- the real coin against the ideal one.  After j halvings (1 <= j <= 64) the threshold is
   p = MaxUint64 >> j = 2^(64-j) - 1 and Add keeps going exactly when the word drawn is below p:
   p of the 2^64 words, i.e. probability 2^-j - 2^-64 instead of the ideal 2^-j.  (At j = 0 no word
   is drawn and the coin always passes: exact.  Beyond j = 64 the threshold is 0 and the real coin
   never passes, the ideal one with probability 2^-j < 2^-64.) *)
Lemma real_coin_rule q w : (q < maxu)%Z -> (coin_fail q maxu w = false <-> (w < q)%Z).
Proof.
  intros Hq. rewrite coin_fail_shape. replace (q <? maxu)%Z with true by (symmetry; apply Z.ltb_lt; assumption).
  cbn [andb]. rewrite Z.geb_leb. rewrite Z.leb_gt. tauto.
Qed.

Lemma real_coin_at_max w : coin_fail maxu maxu w = false.
Proof. rewrite coin_fail_shape. rewrite Z.ltb_irrefl. reflexivity. Qed.

Lemma real_coin_threshold (j : nat) : (1 <= j <= 64)%nat ->
  (Z.shiftr maxu (Z.of_nat j) < maxu)%Z /\ (Z.shiftr maxu (Z.of_nat j) + 1 = 2 ^ (64 - Z.of_nat j))%Z.
Proof.
  intros H. destruct j as [|j]; [lia|].
  do 64 (destruct j as [|j]; [vm_compute; split; reflexivity|]). lia.
Qed.

Lemma real_coin_gap (j : nat) : (1 <= j <= 64)%nat ->
  inject_Z (Z.shiftr maxu (Z.of_nat j)) / inject_Z two64 == 1 / pw j - 1 / inject_Z two64.
Proof.
  intros H. destruct j as [|j]; [lia|].
  do 64 (destruct j as [|j]; [vm_compute; reflexivity|]). lia.
Qed.

Lemma real_coin_all :
  forall j : nat, (1 <= j <= 64)%nat ->
    (Z.shiftr maxu (Z.of_nat j) < maxu)%Z /\
    (forall w : Z, coin_fail (Z.shiftr maxu (Z.of_nat j)) maxu w = false <-> (w < Z.shiftr maxu (Z.of_nat j))%Z) /\
    (Z.shiftr maxu (Z.of_nat j) + 1 = 2 ^ (64 - Z.of_nat j))%Z /\
    (inject_Z (Z.shiftr maxu (Z.of_nat j)) / inject_Z two64 == 1 / pw j - 1 / inject_Z two64) /\
    (forall w : Z, coin_fail maxu maxu w = false).
Proof.
  intros j H. destruct (real_coin_threshold j H) as [H1 H2].
  split; [exact H1|]. split; [intros w; apply real_coin_rule; exact H1|]. split; [exact H2|].
  split; [exact (real_coin_gap j H)|exact real_coin_at_max].
Qed.
