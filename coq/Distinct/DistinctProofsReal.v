(* C19, probabilistic part, second half: the REAL coin.

   DistinctProofsExp proves E[Len * 2^k] = distinct for IDEAL coins (pass probability exactly
   2^-k).  The code compares a uniform 64-bit word with the threshold MaxUint64 >> k = 2^(64-k) - 1:
   pass probability 2^-k - 2^-64.  Here the same program is run with exactly that coin (Rcoin =
   the model's real_coin in the expectation monad: a word of 64 independent fair bits, drawn when
   the code draws one, compared by the generated condition coin_fail) and the deficit is bounded
   over whole histories:

       distinct - distinct * adds / 2^64  <=  E_real[Len * 2^k]  <=  distinct

   (adds = number of Add calls of the history).  Two ingredients: per element a the martingale
   [a in buf] * 2^k loses exactly 2^k / 2^64 when a is (re-)added at exponent k and nothing
   otherwise, and 2^k - (number of Adds so far) is a supermartingale (a pass needs a won coin,
   probability <= 2^-k, and doubles 2^k), so E[2^k] <= 1 + adds.

   The development is generic in the coin (any C with C (MaxUint64>>j) j = a Bernoulli of pass
   probability pi j where 1 - 2^j eps <= pi j * 2^j <= 1); the ideal coin is the instance eps-free
   (pi j = 2^-j), the real one is proved to be an instance at the end. *)
From Coq Require Import ZArith List Bool Lia Arith QArith Qfield Lqa Permutation.
Import ListNotations.
From Mds Require Import Gen.DistinctConst Distinct.DistinctModel Distinct.DistinctSpec Distinct.DistinctProofs Distinct.DistinctProofsExp.
Local Open Scope Q_scope.

Definition eps : Q := 1 / inject_Z two64.
Definition sh (j : nat) : Z := Z.shiftr maxu (Z.of_nat j).

(* ---- monotonicity of the expectation monad on a support *)
Definition mono {A : Type} (m : E A) (P : A -> Prop) : Prop :=
  forall f g : A -> Q, (forall a, P a -> f a <= g a) -> m f <= m g.

Lemma mono_supp {A} (m : E A) P : mono m P -> supp m P.
Proof.
  intros H f g Hfg. apply Qle_antisym; apply H; intros a Ha; rewrite (Hfg a Ha); apply Qle_refl.
Qed.
Lemma mono_weaken {A} (m : E A) (P P' : A -> Prop) : mono m P -> (forall a, P a -> P' a) -> mono m P'.
Proof. intros H HP f g Hfg. apply H. intros a Ha. apply Hfg, HP, Ha. Qed.
Lemma mono_ret {A} (a : A) (P : A -> Prop) : P a -> mono (Eret A a) P.
Proof. intros Ha f g H. unfold Eret. apply H, Ha. Qed.
Lemma mono_bind {A B} (m : E A) (g : A -> E B) (P : A -> Prop) (R : B -> Prop) :
  mono m P -> (forall a, P a -> mono (g a) R) -> mono (Ebind A B m g) R.
Proof. intros Hm Hg f f' H. unfold Ebind. apply Hm. intros a Ha. apply (Hg a Ha). assumption. Qed.
Lemma mono_bits : forall n, mono (Ebits n) (fun _ => True).
Proof.
  induction n as [|n IH]; intros f g H; cbn [Ebits].
  - apply H. exact I.
  - apply Qplus_le_compat; (apply Qmult_le_l; [reflexivity|]); apply IH; intros; apply H; exact I.
Qed.

Lemma Qmult_le_compat_l' x y z : x <= y -> 0 <= z -> z * x <= z * y.
Proof. intros H1 H2. rewrite !(Qmult_comm z). apply Qmult_le_compat_r; assumption. Qed.

Lemma additive_bind_on {A B} (m : E A) (g : A -> E B) (P : A -> Prop) :
  supp m P -> additive m -> (forall a, P a -> additive (g a)) -> additive (Ebind A B m g).
Proof.
  intros Hs Hm Hg f f'. unfold Ebind.
  rewrite (Hs _ (fun a => g a f + g a f')) by (intros a Ha; apply (Hg a Ha)).
  apply Hm.
Qed.

(* a uniform n-bit word is below q with probability q / 2^n *)
Lemma Ebits_lt : forall (n : nat) (q : Z) (x y : Q), (0 <= q <= 2 ^ Z.of_nat n)%Z ->
  Ebits n (fun w => if (w <? q)%Z then x else y) ==
  (inject_Z q / pw n) * x + (1 - inject_Z q / pw n) * y.
Proof.
  induction n as [|n IH]; intros q x y Hq.
  - cbn [Ebits]. unfold pw. cbn [Z.of_nat Z.pow] in *.
    assert (Hc : q = 0%Z \/ q = 1%Z) by lia. destruct Hc as [->| ->]; cbn; field.
  - cbn [Ebits].
    assert (H2 : (2 ^ Z.of_nat (S n) = 2 * 2 ^ Z.of_nat n)%Z) by (rewrite Nat2Z.inj_succ, Z.pow_succ_r by lia; reflexivity).
    assert (Hpos : (0 < 2 ^ Z.of_nat n)%Z) by (apply Z.pow_pos_nonneg; lia).
    rewrite (supp_bits n _ (fun w => if (w <? (q + 1) / 2)%Z then x else y)).
    2:{ intros w _. destruct (2 * w <? q)%Z eqn:H1; destruct (w <? (q + 1) / 2)%Z eqn:H3; try reflexivity; exfalso.
        - apply Z.ltb_lt in H1. apply Z.ltb_ge in H3.
          pose proof (Z.div_mod (q + 1) 2 ltac:(lia)). pose proof (Z.mod_pos_bound (q + 1) 2 ltac:(lia)). lia.
        - apply Z.ltb_ge in H1. apply Z.ltb_lt in H3.
          pose proof (Z.div_mod (q + 1) 2 ltac:(lia)). pose proof (Z.mod_pos_bound (q + 1) 2 ltac:(lia)). lia. }
    rewrite (supp_bits n (fun w => if (2 * w + 1 <? q)%Z then x else y) (fun w => if (w <? q / 2)%Z then x else y)).
    2:{ intros w _. destruct (2 * w + 1 <? q)%Z eqn:H1; destruct (w <? q / 2)%Z eqn:H3; try reflexivity; exfalso.
        - apply Z.ltb_lt in H1. apply Z.ltb_ge in H3.
          pose proof (Z.div_mod q 2 ltac:(lia)). pose proof (Z.mod_pos_bound q 2 ltac:(lia)). lia.
        - apply Z.ltb_ge in H1. apply Z.ltb_lt in H3.
          pose proof (Z.div_mod q 2 ltac:(lia)). pose proof (Z.mod_pos_bound q 2 ltac:(lia)). lia. }
    assert (Hd1 : (0 <= (q + 1) / 2 <= 2 ^ Z.of_nat n)%Z).
    { pose proof (Z.div_mod (q + 1) 2 ltac:(lia)). pose proof (Z.mod_pos_bound (q + 1) 2 ltac:(lia)). lia. }
    assert (Hd2 : (0 <= q / 2 <= 2 ^ Z.of_nat n)%Z).
    { pose proof (Z.div_mod q 2 ltac:(lia)). pose proof (Z.mod_pos_bound q 2 ltac:(lia)). lia. }
    rewrite (IH _ x y Hd1), (IH _ x y Hd2).
    assert (Hsum : ((q + 1) / 2 + q / 2 = q)%Z).
    { pose proof (Z.div_mod (q + 1) 2 ltac:(lia)). pose proof (Z.mod_pos_bound (q + 1) 2 ltac:(lia)).
      pose proof (Z.div_mod q 2 ltac:(lia)). pose proof (Z.mod_pos_bound q 2 ltac:(lia)). lia. }
    assert (HsumQ : inject_Z ((q + 1) / 2) + inject_Z (q / 2) == inject_Z q)
      by (rewrite <- inject_Z_plus, Hsum; reflexivity).
    rewrite pw_S. pose proof (pw_nz n) as Hnz.
    setoid_replace (inject_Z q) with (inject_Z ((q + 1) / 2) + inject_Z (q / 2)) by (symmetry; exact HsumQ).
    field. exact Hnz.
Qed.

Section Coin.
  Variable T : Type.
  Variable eqb : T -> T -> bool.
  Hypothesis eqb_spec : forall x y, reflect (x = y) (eqb x y).
  Variable ord : list T -> list T.
  Hypothesis ord_perm : forall l, Permutation (ord l) l.

  Notation memb := (memb T eqb).
  Notation remove := (remove T eqb).
  Notation insert := (insert T eqb).
  Notation st := (st T).
  Notation outcome := (outcome T).
  Notation Epass := (pass T eqb E Eret Ebind Eword).
  Notation Ehalve1 := (halve1 T eqb E Eret Ebind Eword (Eorder T ord)).
  Notation seen_from := (seen_from T eqb).
  Notation seen := (seen T eqb).
  Notation distinct := (distinct T eqb).
  Notation has_reset := (has_reset T).
  Notation ind := (ind T eqb).
  Notation phi := (phi T eqb).
  Notation st_of := (st_of T).
  Notation estimate := (estimate T).
  Notation done_with := (done_with T).

  (* ---- the pass is monotone on its support (it contains no coin) *)
  Lemma Epass_mono : forall elts b nb rnd, NoDup b ->
    mono (Epass elts b nb rnd) (fun b' => NoDup b' /\ incl b' b).
  Proof.
    induction elts as [|e rest IH]; intros b nb rnd Hnd; cbn [pass].
    - apply mono_ret. split; [assumption|apply incl_refl].
    - assert (Hbody : forall (d : bool) nb1 rnd1, mono (Epass rest (if d then remove e b else b) nb1 rnd1) (fun b' => NoDup b' /\ incl b' b)).
      { intros d nb1 rnd1. destruct d.
        - eapply mono_weaken; [apply IH; apply (NoDup_remove T eqb); assumption|].
          intros b' [H1 H2]. split; [assumption|]. intros y Hy. apply H2 in Hy.
          apply (In_remove T eqb eqb_spec) in Hy. tauto.
        - apply IH. assumption. }
      destruct (nb_is_zero nb).
      + eapply mono_bind; [apply mono_bits|]. intros w _. apply Hbody.
      + apply Hbody.
  Qed.

  Lemma Ehalve1_mono b : NoDup b -> mono (Ehalve1 b) (fun b' => NoDup b' /\ incl b' b).
  Proof.
    intros Hnd. unfold halve1. eapply mono_bind with (P := fun o => True).
    - intros f g H. unfold Eorder. apply H. exact I.
    - intros o _. apply Epass_mono. assumption.
  Qed.

  Lemma Ehalve1_const (a : T) b c : NoDup b -> Ehalve1 b (fun _ => c) == c.
  Proof.
    intros Hnd.
    rewrite (Ehalve1_ext T eqb ord b _ (fun b' => c + 0 * ind a b')) by (intros; ring).
    rewrite (Ehalve1_ind T eqb eqb_spec ord ord_perm a c 0 b Hnd). ring.
  Qed.

  (* ---- a coin that, at threshold MaxUint64 >> j, passes with probability pi j *)
  Variable C : Z -> nat -> E bool.
  Variable pi : nat -> Q.
  Hypothesis C_def : forall j f, C (sh j) j f == (1 - pi j) * f true + pi j * f false.
  Hypothesis pi_lo : forall j, 0 <= pi j.
  Hypothesis pi_hi : forall j, pi j <= 1.
  Hypothesis pi_pw_hi : forall j, pi j * pw j <= 1.
  Hypothesis pi_pw_lo : forall j, 1 - pw j * eps <= pi j * pw j.

  Notation Cadd := (Cadd T eqb ord C).
  Notation Crun := (Crun T eqb ord C).

  Definition good (s : st) : Prop := NoDup (buf s) /\ p s = sh (k s).

  Lemma C_mono j : mono (C (sh j) j) (fun _ => True).
  Proof.
    intros f g H. rewrite !C_def. apply Qplus_le_compat.
    - apply Qmult_le_compat_l'; [apply H; exact I|]. pose proof (pi_hi j) as Hh.
      apply (Qplus_le_l _ _ (pi j)). ring_simplify. exact Hh.
    - apply Qmult_le_compat_l'; [apply H; exact I|apply pi_lo].
  Qed.
  Lemma C_additive j : additive (C (sh j) j).
  Proof. intros f g. rewrite !C_def. ring. Qed.

  (* what one Add computes, at a state whose threshold is MaxUint64 >> k *)
  Lemma Cadd_value fuel cap s v (F : outcome -> Q) : p s = sh (k s) ->
    Cadd true fuel cap s v F ==
      (1 - pi (k s)) * F (Done (mkst (remove v (buf s)) (p s) (k s)))
      + pi (k s) * (if full_cond (Z.of_nat (length (insert v (buf s)))) cap
                    then Ehalve1 (insert v (buf s)) (fun b' => F (Done (mkst b' (halve_p (p s)) (S (k s)))))
                    else F (Done (mkst (insert v (buf s)) (p s) (k s)))).
  Proof.
    intros Hp.
    assert (HC : forall f, C (p s) (k s) f == (1 - pi (k s)) * f true + pi (k s) * f false)
      by (intros f; rewrite Hp; apply C_def).
    unfold DistinctModel.Cadd, add, Ebind. rewrite HC. cbv beta iota.
    destruct (full_cond (Z.of_nat (length (insert v (buf s)))) cap); unfold Eret; reflexivity.
  Qed.

  Lemma good_failed s v : good s -> good (mkst (remove v (buf s)) (p s) (k s)).
  Proof. intros [H1 H2]. split; cbn; [apply (NoDup_remove T eqb); assumption|assumption]. Qed.
  Lemma good_plain s v : good s -> good (mkst (insert v (buf s)) (p s) (k s)).
  Proof. intros [H1 H2]. split; cbn; [apply (NoDup_insert T eqb eqb_spec); assumption|assumption]. Qed.
  Lemma good_halved s b' : good s -> NoDup b' -> good (mkst b' (halve_p (p s)) (S (k s))).
  Proof. intros [H1 H2] Hb. split; cbn; [assumption|]. apply halve_p_inv. exact H2. Qed.
  Lemma good_reset s : good (reset T s).
  Proof. split; cbn; [constructor|reflexivity]. Qed.
  Lemma good_init : good (init T).
  Proof. split; cbn; [constructor|reflexivity]. Qed.

  (* ---- one Add *)
  Lemma Cadd_mono (W : list T) fuel cap s v : good s -> incl (insert v (buf s)) W ->
    mono (Cadd true fuel cap s v) (done_with (fun s' => good s' /\ incl (buf s') W)).
  Proof.
    intros Hg HW f g H. destruct Hg as [Hnd Hp]. rewrite !Cadd_value by assumption.
    pose proof (pi_lo (k s)) as Hlo. pose proof (pi_hi (k s)) as Hhi.
    apply Qplus_le_compat.
    - apply Qmult_le_compat_l'; [|lra]. apply H. cbn. split; [apply good_failed; split; assumption|].
      intros y Hy. apply HW. apply (In_remove T eqb eqb_spec) in Hy. apply (In_insert T eqb eqb_spec). tauto.
    - apply Qmult_le_compat_l'; [|assumption].
      pose proof (NoDup_insert T eqb eqb_spec v _ Hnd) as Hnb.
      destruct (full_cond (Z.of_nat (length (insert v (buf s)))) cap).
      + apply (Ehalve1_mono _ Hnb). intros b' [H1 H2]. apply H. cbn. split; [apply good_halved; [split|]; assumption|].
        intros y Hy. apply HW, H2, Hy.
      + apply H. cbn. split; [apply good_plain; split; assumption|exact HW].
  Qed.

  Lemma Cadd_ext fuel cap s v : good s -> supp (Cadd true fuel cap s v) (fun _ => True).
  Proof.
    intros Hg. eapply supp_weaken; [apply mono_supp; apply (Cadd_mono (insert v (buf s)) fuel cap s v Hg); apply incl_refl|].
    intros; exact I.
  Qed.

  Lemma Cadd_additive fuel cap s v : good s -> additive (Cadd true fuel cap s v).
  Proof.
    intros [Hnd Hp] f g. rewrite !Cadd_value by assumption.
    destruct (full_cond (Z.of_nat (length (insert v (buf s)))) cap).
    - rewrite (Ehalve1_additive T eqb ord (insert v (buf s))
                 (fun b' => f (Done (mkst b' (halve_p (p s)) (S (k s)))))
                 (fun b' => g (Done (mkst b' (halve_p (p s)) (S (k s)))))). ring.
    - ring.
  Qed.

  (* the element's martingale across one Add: it moves only when a itself is (re-)added *)
  Lemma Cadd_phi a alpha beta fuel cap s v : good s ->
    Cadd true fuel cap s v (fun o => alpha + beta * phi a (st_of o)) ==
    alpha + beta * (if eqb a v then pi (k s) * pw (k s) else phi a s).
  Proof.
    intros [Hnd Hp]. rewrite Cadd_value by assumption. cbn [DistinctProofsExp.st_of].
    set (b := insert v (buf s)).
    assert (Hpass : (if full_cond (Z.of_nat (length b)) cap
                     then Ehalve1 b (fun b' => alpha + beta * phi a (mkst b' (halve_p (p s)) (S (k s))))
                     else alpha + beta * phi a (mkst b (p s) (k s)))
                    == alpha + beta * (ind a b * pw (k s))).
    { destruct (full_cond (Z.of_nat (length b)) cap).
      - rewrite (Ehalve1_supp T eqb eqb_spec ord b (NoDup_insert T eqb eqb_spec v _ Hnd) _
                  (fun b' => alpha + (beta * pw (S (k s))) * ind a b')).
        2:{ intros b' _. unfold DistinctProofsExp.phi. cbn [buf k]. ring. }
        rewrite (Ehalve1_ind T eqb eqb_spec ord ord_perm) by (apply (NoDup_insert T eqb eqb_spec); assumption).
        rewrite pw_S. ring.
      - unfold DistinctProofsExp.phi. cbn [buf k]. reflexivity. }
    rewrite Hpass. unfold DistinctProofsExp.phi, DistinctProofsExp.ind, b. cbn [buf k].
    rewrite (memb_insert T eqb eqb_spec).
    destruct (eqb_spec a v) as [->|Hne]; cbn [orb].
    - rewrite (memb_remove_same T eqb eqb_spec). ring.
    - rewrite (memb_remove_other T eqb eqb_spec a v _ Hne). ring.
  Qed.

  Lemma Cadd_const c fuel cap s v (a : T) : good s -> Cadd true fuel cap s v (fun _ => c) == c.
  Proof.
    intros Hg.
    rewrite (Cadd_ext fuel cap s v Hg _ (fun o => c + 0 * phi a (st_of o))) by (intros; ring).
    rewrite Cadd_phi by assumption. ring.
  Qed.

  (* 2^k - (number of Adds) is a supermartingale: a pass needs a won coin *)
  Lemma Cadd_pw alpha gamma fuel cap s v : good s -> 0 <= gamma ->
    alpha - gamma * (pw (k s) + 1) <=
    Cadd true fuel cap s v (fun o => alpha - gamma * pw (k (st_of o))).
  Proof.
    intros [Hnd Hp] Hga. rewrite Cadd_value by assumption. cbn [DistinctProofsExp.st_of k].
    pose proof (pi_lo (k s)) as Hlo. pose proof (pi_pw_hi (k s)) as Hhi.
    assert (H1 : gamma * (pi (k s) * pw (k s)) <= gamma * 1) by (apply Qmult_le_compat_l'; assumption).
    assert (H2 : 0 <= gamma * pi (k s)) by (apply Qmult_le_0_compat; assumption).
    destruct (full_cond (Z.of_nat (length (insert v (buf s)))) cap).
    - rewrite (Ehalve1_const v) by (apply (NoDup_insert T eqb eqb_spec); assumption).
      rewrite pw_S. lra.
    - lra.
  Qed.

  (* ---- whole histories *)
  Notation nadds := (nadds T).
  Notation allvals := (allvals T eqb).
  Notation sumQ := (sumQ T).
  Notation target := (target T eqb).

  Lemma Crun_mono (W : list T) fuel cap : forall ops s,
    good s -> incl (buf s) W -> (forall v o, In (OAdd v o) ops -> In v W) ->
    mono (Crun true fuel cap s ops) (done_with (fun s' => good s' /\ incl (buf s') W)).
  Proof.
    induction ops as [|[v o|] r IH]; intros s Hg Hin HW; cbn [DistinctModel.Crun].
    - apply mono_ret. cbn. tauto.
    - eapply mono_bind.
      + apply (Cadd_mono W fuel cap s v Hg).
        intros y Hy. apply (In_insert T eqb eqb_spec) in Hy. destruct Hy as [->|Hy]; [|apply Hin; assumption].
        apply (HW v o). left. reflexivity.
      + intros [s'|s'] Hs'; cbn in Hs'; [|contradiction]. destruct Hs' as [H1 H2].
        apply IH; try assumption. intros v1 o1 Hv. apply (HW v1 o1). right. assumption.
    - apply IH; [apply good_reset|cbn; intros y []|].
      intros v1 o1 Hv. apply (HW v1 o1). right. assumption.
  Qed.

  Lemma Crun_supp_good fuel cap ops s : good s -> supp (Crun true fuel cap s ops) (done_with good).
  Proof.
    intros Hg. set (W := buf s ++ allvals ops).
    eapply supp_weaken; [apply mono_supp; apply (Crun_mono W fuel cap ops s Hg)|].
    - intros y Hy. apply in_or_app. left. assumption.
    - intros v o Hv. apply in_or_app. right. apply (allvals_In T eqb eqb_spec v o ops Hv).
    - intros [s'|s']; cbn; tauto.
  Qed.

  Lemma Crun_ext fuel cap ops s : good s -> supp (Crun true fuel cap s ops) (fun _ => True).
  Proof. intros Hg. eapply supp_weaken; [apply Crun_supp_good; assumption|intros; exact I]. Qed.

  Lemma Crun_additive fuel cap : forall ops s, good s -> additive (Crun true fuel cap s ops).
  Proof.
    induction ops as [|[v o|] r IH]; intros s Hg; cbn [DistinctModel.Crun].
    - apply additive_ret.
    - apply (additive_bind_on _ _ (done_with good)).
      + eapply supp_weaken; [apply mono_supp; apply (Cadd_mono (insert v (buf s)) fuel cap s v Hg); apply incl_refl|].
        intros [s'|s']; cbn; tauto.
      + apply Cadd_additive. assumption.
      + intros [s'|s'] Hs'; cbn in Hs'; [apply IH; assumption|contradiction].
    - apply IH. apply good_reset.
  Qed.

  Lemma Crun_sum fuel cap ops s (h : T -> outcome -> Q) : good s -> forall U,
    Crun true fuel cap s ops (fun o => sumQ (fun a => h a o) U) ==
    sumQ (fun a => Crun true fuel cap s ops (h a)) U.
  Proof.
    intros Hg. induction U as [|x U IH]; cbn [DistinctProofsExp.sumQ].
    - apply E_zero; [apply Crun_ext; assumption|apply Crun_additive; assumption].
    - rewrite (Crun_additive fuel cap ops s Hg (h x) (fun o => sumQ (fun a => h a o) U)). rewrite IH. reflexivity.
  Qed.

  Lemma pw_ge1 j : 1 <= pw j.
  Proof.
    unfold pw. replace 1 with (inject_Z 1) by reflexivity. rewrite <- Zle_Qle.
    pose proof (Z.pow_pos_nonneg 2 (Z.of_nat j) ltac:(lia) ltac:(lia)). lia.
  Qed.
  Lemma eps_pos : 0 < eps.
  Proof. reflexivity. Qed.
  Lemma nQ_nonneg (n : nat) : 0 <= inject_Z (Z.of_nat n).
  Proof. replace 0 with (inject_Z 0) by reflexivity. rewrite <- Zle_Qle. lia. Qed.
  Lemma nQ_S (n : nat) : inject_Z (Z.of_nat (S n)) == inject_Z (Z.of_nat n) + 1.
  Proof. rewrite Nat2Z.inj_succ. unfold Z.succ. rewrite inject_Z_plus. reflexivity. Qed.

  (* the lower target: an element added at exponent k loses 2^k eps; E[2^k] grows by at most one per Add *)
  Definition ctarget (a : T) (s : st) (ops : list (op T)) : Q :=
    if memb a (seen ops) then 1 - eps * (pw (k s) + inject_Z (Z.of_nat (nadds ops)) - 1)
    else if has_reset ops then 0 else phi a s.

  Lemma Crun_lower a fuel cap : forall ops s, good s ->
    ctarget a s ops <= Crun true fuel cap s ops (fun o => phi a (st_of o)).
  Proof.
    induction ops as [|[v o|] r IH]; intros s Hg; cbn [DistinctModel.Crun].
    - unfold Eret, ctarget. cbn. apply Qle_refl.
    - rewrite Ebind_unfold.
      apply Qle_trans with (Cadd true fuel cap s v (fun o' => ctarget a (st_of o') r)).
      2:{ apply (Cadd_mono (insert v (buf s)) fuel cap s v Hg (incl_refl _)).
          intros [s'|s'] Hs'; cbn in Hs'; [|contradiction]. cbn [DistinctProofsExp.st_of]. apply IH. tauto. }
      pose proof eps_pos as He. pose proof (nQ_nonneg (nadds r)) as Hn. pose proof (pw_ge1 (k s)) as Hk.
      assert (Hen : 0 <= eps * inject_Z (Z.of_nat (nadds r))) by (apply Qmult_le_0_compat; lra).
      unfold ctarget. unfold DistinctSpec.seen. cbn [DistinctSpec.seen_from DistinctProofs.has_reset DistinctSpec.nadds].
      fold (seen r).
      destruct (has_reset r) eqn:Hr.
      + rewrite (seen_from_reset T eqb r (insert v []) [] Hr). fold (seen r).
        destruct (memb a (seen r)).
        * rewrite (Cadd_ext fuel cap s v Hg _
                    (fun o' => (1 - eps * (inject_Z (Z.of_nat (nadds r)) - 1)) - eps * pw (k (st_of o')))) by (intros; ring).
          eapply Qle_trans; [|apply Cadd_pw; [assumption|lra]]. rewrite nQ_S. lra.
        * rewrite (Cadd_const 0 fuel cap s v a Hg). apply Qle_refl.
      + rewrite (seen_from_memb T eqb eqb_spec a r (insert v []) Hr). fold (seen r).
        rewrite (memb_insert T eqb eqb_spec). cbn [DistinctModel.memb existsb]. rewrite orb_false_r.
        destruct (memb a (seen r)).
        * rewrite orb_true_r.
          rewrite (Cadd_ext fuel cap s v Hg _
                    (fun o' => (1 - eps * (inject_Z (Z.of_nat (nadds r)) - 1)) - eps * pw (k (st_of o')))) by (intros; ring).
          eapply Qle_trans; [|apply Cadd_pw; [assumption|lra]]. rewrite nQ_S. lra.
        * rewrite orb_false_r.
          rewrite (Cadd_ext fuel cap s v Hg _ (fun o' => 0 + 1 * phi a (st_of o'))) by (intros; ring).
          rewrite Cadd_phi by assumption.
          destruct (eqb a v).
          -- pose proof (pi_pw_lo (k s)) as Hlo. rewrite nQ_S. lra.
          -- lra.
    - eapply Qle_trans; [|apply IH; apply good_reset].
      pose proof eps_pos as He. pose proof (pw_ge1 (k s)) as Hk.
      assert (Hek : eps * 1 <= eps * pw (k s)) by (apply Qmult_le_compat_l'; lra).
      unfold ctarget. unfold DistinctSpec.seen. cbn [DistinctSpec.seen_from DistinctProofs.has_reset DistinctSpec.nadds].
      fold (seen r). destruct (memb a (seen r)).
      + cbn [DistinctModel.reset k]. change (pw 0) with 1. lra.
      + destruct (has_reset r); [apply Qle_refl|]. unfold DistinctProofsExp.phi, DistinctProofsExp.ind. cbn. lra.
  Qed.

  Lemma Crun_upper a fuel cap : forall ops s, good s ->
    Crun true fuel cap s ops (fun o => phi a (st_of o)) <= target a s ops.
  Proof.
    induction ops as [|[v o|] r IH]; intros s Hg; cbn [DistinctModel.Crun].
    - unfold Eret, DistinctProofsExp.target. cbn. apply Qle_refl.
    - rewrite Ebind_unfold.
      apply Qle_trans with (Cadd true fuel cap s v (fun o' => target a (st_of o') r)).
      { apply (Cadd_mono (insert v (buf s)) fuel cap s v Hg (incl_refl _)).
        intros [s'|s'] Hs'; cbn in Hs'; [|contradiction]. cbn [DistinctProofsExp.st_of]. apply IH. tauto. }
      unfold DistinctProofsExp.target. unfold DistinctSpec.seen. cbn [DistinctSpec.seen_from DistinctProofs.has_reset].
      fold (seen r).
      destruct (has_reset r) eqn:Hr.
      + rewrite (seen_from_reset T eqb r (insert v []) [] Hr). fold (seen r).
        destruct (memb a (seen r)).
        * rewrite (Cadd_const 1 fuel cap s v a Hg). apply Qle_refl.
        * rewrite (Cadd_const 0 fuel cap s v a Hg). apply Qle_refl.
      + rewrite (seen_from_memb T eqb eqb_spec a r (insert v []) Hr). fold (seen r).
        rewrite (memb_insert T eqb eqb_spec). cbn [DistinctModel.memb existsb]. rewrite orb_false_r.
        destruct (memb a (seen r)).
        * rewrite orb_true_r. rewrite (Cadd_const 1 fuel cap s v a Hg). apply Qle_refl.
        * rewrite orb_false_r.
          rewrite (Cadd_ext fuel cap s v Hg _ (fun o' => 0 + 1 * phi a (st_of o'))) by (intros; ring).
          rewrite Cadd_phi by assumption.
          destruct (eqb a v).
          -- pose proof (pi_pw_hi (k s)) as Hhi. lra.
          -- lra.
    - eapply Qle_trans; [apply IH; apply good_reset|].
      unfold DistinctProofsExp.target. unfold DistinctSpec.seen. cbn [DistinctSpec.seen_from DistinctProofs.has_reset].
      fold (seen r). destruct (memb a (seen r)); [apply Qle_refl|].
      destruct (has_reset r); [apply Qle_refl|]. unfold DistinctProofsExp.phi, DistinctProofsExp.ind. cbn. lra.
  Qed.

  Lemma sumQ_le f g l : (forall a, In a l -> f a <= g a) -> sumQ f l <= sumQ g l.
  Proof.
    induction l as [|x l IH]; intros H; cbn; [apply Qle_refl|].
    apply Qplus_le_compat; [apply H; left; reflexivity|apply IH; intros a Ha; apply H; right; assumption].
  Qed.

  (* ---- the estimate over a whole history, any coin within the gap *)
  Theorem coin_bias fuel cap ops :
    inject_Z (Z.of_nat (distinct ops)) * (1 - eps * inject_Z (Z.of_nat (nadds ops)))
      <= Crun true fuel cap (init T) ops (fun o => estimate (st_of o))
    /\ Crun true fuel cap (init T) ops (fun o => estimate (st_of o)) <= inject_Z (Z.of_nat (distinct ops)).
  Proof.
    set (W := allvals ops).
    assert (HW : NoDup W) by apply (allvals_NoDup T eqb eqb_spec).
    assert (Hsum : Crun true fuel cap (init T) ops (fun o => estimate (st_of o)) ==
                   sumQ (fun a => Crun true fuel cap (init T) ops (fun o => phi a (st_of o))) W).
    { rewrite (mono_supp _ _ (Crun_mono W fuel cap ops (init T) good_init (incl_nil_l W)
                 (fun v o H => allvals_In T eqb eqb_spec v o ops H)) _
                 (fun o => sumQ (fun a => phi a (st_of o)) W)).
      2:{ intros [s'|s'] Hs'; cbn in Hs'; [|contradiction]. destruct Hs' as [[H1 _] H2]. cbn [DistinctProofsExp.st_of].
          unfold DistinctProofsExp.estimate, DistinctProofsExp.phi. rewrite sumQ_scale.
          rewrite (sum_ind T eqb eqb_spec) by assumption. reflexivity. }
      apply (Crun_sum fuel cap ops (init T) (fun a o => phi a (st_of o)) good_init W). }
    assert (Hseen : NoDup (seen ops)) by (apply (seen_from_NoDup T eqb eqb_spec); constructor).
    assert (Hincl : incl (seen ops) W).
    { intros x Hx. apply (seen_from_allvals T eqb eqb_spec) in Hx. destruct Hx as [[]|Hx]. exact Hx. }
    rewrite Hsum. split.
    - apply Qle_trans with (sumQ (fun a => ind a (seen ops) * (1 - eps * inject_Z (Z.of_nat (nadds ops)))) W).
      + rewrite sumQ_scale. rewrite (sum_ind T eqb eqb_spec) by assumption. apply Qle_refl.
      + apply sumQ_le. intros a _. eapply Qle_trans; [|apply Crun_lower; apply good_init].
        unfold ctarget, DistinctProofsExp.ind. destruct (memb a (seen ops)).
        * cbn [DistinctModel.init k]. change (pw 0) with 1. lra.
        * destruct (has_reset ops); [lra|]. unfold DistinctProofsExp.phi, DistinctProofsExp.ind. cbn. lra.
    - apply Qle_trans with (sumQ (fun a => ind a (seen ops)) W).
      + apply sumQ_le. intros a _. eapply Qle_trans; [apply Crun_upper; apply good_init|].
        unfold DistinctProofsExp.target, DistinctProofsExp.ind. destruct (memb a (seen ops)); [apply Qle_refl|].
        destruct (has_reset ops); [apply Qle_refl|]. unfold DistinctProofsExp.phi, DistinctProofsExp.ind. cbn. lra.
      + rewrite (sum_ind T eqb eqb_spec) by assumption. apply Qle_refl.
  Qed.
End Coin.

(* ---- instance 1: the ideal coin.  Erun is the generic run with Ecoin (so the generic bounds,
   with pi j = 2^-j, contain C19_unbiased's upper half; kept as a consistency check of Crun) *)
Lemma Erun_is_Crun T eqb ord fuel cap : forall ops s f,
  Erun T eqb ord true fuel cap s ops f == Crun T eqb ord Ecoin true fuel cap s ops f.
Proof.
  induction ops as [|[v o|] r IH]; intros s f; cbn [DistinctModel.Erun DistinctModel.Crun].
  - reflexivity.
  - unfold Ebind. change (Cadd T eqb ord Ecoin true fuel cap s v) with (Eadd T eqb ord true fuel cap s v).
    apply Eadd_ext. intros [s'|s'] _; [apply IH|reflexivity].
  - apply IH.
Qed.

(* ---- instance 2: the real coin *)
Definition pi_real (j : nat) : Q := if (sh j <? maxu)%Z then inject_Z (sh j) / inject_Z two64 else 1.

Lemma sh_range j : (0 <= sh j <= maxu)%Z.
Proof.
  unfold sh. rewrite Z.shiftr_div_pow2 by lia.
  assert (Hp : (0 < 2 ^ Z.of_nat j)%Z) by (apply Z.pow_pos_nonneg; lia).
  assert (Hm : (0 <= maxu)%Z) by (vm_compute; discriminate).
  split; [apply Z.div_pos; assumption|]. apply Z.div_le_upper_bound; [assumption|]. nia.
Qed.

Lemma two64_pos : 0 < inject_Z two64.
Proof. reflexivity. Qed.

Lemma Rcoin_def j f : Rcoin (sh j) j f == (1 - pi_real j) * f true + pi_real j * f false.
Proof.
  unfold Rcoin, real_coin, pi_real. destruct (sh j <? maxu)%Z eqn:H.
  - unfold Ebind, Eret, Eword.
    rewrite (supp_bits 64 _ (fun w => if (w <? sh j)%Z then f false else f true)).
    2:{ intros w _. rewrite coin_fail_shape, H. cbn [andb]. rewrite Z.geb_leb.
        destruct (Z.ltb_spec w (sh j)); destruct (Z.leb_spec (sh j) w); try reflexivity; lia. }
    rewrite Ebits_lt.
    2:{ pose proof (sh_range j) as Hr. apply Z.ltb_lt in H. change (2 ^ Z.of_nat 64)%Z with two64. unfold maxu in *. lia. }
    change (pw 64) with (inject_Z two64). ring.
  - unfold Eret. ring.
Qed.

Lemma pi_real_lo j : 0 <= pi_real j.
Proof.
  unfold pi_real. destruct (sh j <? maxu)%Z; [|discriminate].
  apply Qle_shift_div_l; [apply two64_pos|]. rewrite Qmult_0_l.
  replace 0 with (inject_Z 0) by reflexivity. rewrite <- Zle_Qle. apply sh_range.
Qed.

Lemma pi_real_hi j : pi_real j <= 1.
Proof.
  unfold pi_real. destruct (sh j <? maxu)%Z; [|apply Qle_refl].
  apply Qle_shift_div_r; [apply two64_pos|]. rewrite Qmult_1_l. rewrite <- Zle_Qle.
  pose proof (sh_range j). unfold maxu in *. lia.
Qed.

Lemma eps_two64 : eps * inject_Z two64 == 1.
Proof. reflexivity. Qed.

(* the gap: pi * 2^j is 1 at j = 0, 1 - 2^j / 2^64 for 1 <= j <= 64, 0 beyond *)
Lemma pi_real_pw j : 1 - pw j * eps <= pi_real j * pw j /\ pi_real j * pw j <= 1.
Proof.
  pose proof (pw_pos j) as Hpw. pose proof (pw_nz j) as Hnz.
  destruct (Nat.eq_dec j 0) as [->|Hj0].
  - unfold pi_real. change (sh 0) with maxu. rewrite Z.ltb_irrefl. change (pw 0) with 1. split; [|apply Qle_refl].
    unfold eps. vm_compute. discriminate.
  - destruct (le_lt_dec j 64) as [Hj|Hj].
    + assert (H : (1 <= j <= 64)%nat) by lia.
      destruct (real_coin_threshold j H) as [Hlt _]. pose proof (real_coin_gap j H) as Hgap.
      unfold pi_real. fold (sh j) in Hlt, Hgap.
      replace (sh j <? maxu)%Z with true by (symmetry; apply Z.ltb_lt; exact Hlt).
      rewrite Hgap. fold eps.
      assert (He : (1 / pw j - eps) * pw j == 1 - pw j * eps) by (field; exact Hnz).
      rewrite He. split; [apply Qle_refl|].
      assert (0 <= pw j * eps) by (apply Qmult_le_0_compat; [lra|discriminate]). lra.
    + assert (Hz : sh j = 0%Z) by (apply shiftr_maxu_big; lia).
      unfold pi_real. rewrite Hz. change (0 <? maxu)%Z with true. cbv iota.
      assert (H0 : inject_Z 0 / inject_Z two64 * pw j == 0) by (unfold Qdiv; change (inject_Z 0) with 0; ring).
      rewrite H0. split; [|discriminate].
      assert (Hbig : inject_Z two64 <= pw j).
      { unfold pw. rewrite <- Zle_Qle. change two64 with (2 ^ 64)%Z. apply Z.pow_le_mono_r; lia. }
      assert (H1 : inject_Z two64 * eps <= pw j * eps) by (apply Qmult_le_compat_r; [assumption|discriminate]).
      assert (H2 : inject_Z two64 * eps == 1) by reflexivity.
      lra.
Qed.

(* E_real[Len * 2^k] over a whole history of the pinned code, every size, every map order *)
Theorem real_bias (T : Type) (eqb : T -> T -> bool) (eqb_spec : forall x y, reflect (x = y) (eqb x y))
        (ord : list T -> list T) (ord_perm : forall l, Permutation (ord l) l) fuel cap ops :
  inject_Z (Z.of_nat (distinct T eqb ops)) * (1 - eps * inject_Z (Z.of_nat (nadds T ops)))
    <= Rrun T eqb ord true fuel cap (init T) ops (fun o => estimate T (st_of T o))
  /\ Rrun T eqb ord true fuel cap (init T) ops (fun o => estimate T (st_of T o))
    <= inject_Z (Z.of_nat (distinct T eqb ops)).
Proof.
  unfold Rrun.
  apply (coin_bias T eqb eqb_spec ord ord_perm Rcoin pi_real Rcoin_def pi_real_lo pi_real_hi
           (fun j => proj2 (pi_real_pw j)) (fun j => proj1 (pi_real_pw j))).
Qed.

(* ---- the deficit is real: size 1, Add 1, Add 2.  The first Add fills the buffer and halves
   (k = 1 whatever the pass drops); the second value then wins its coin with probability
   (2^63 - 1) / 2^64 and weighs 2: its expected weight is 1 - 2/2^64, not 1. *)
Lemma real_coin_biased_witness :
  Rrun Z Z.eqb (fun l => l) true 0 1 (init Z) [OAdd 1%Z None; OAdd 2%Z None]
       (fun o => phi Z Z.eqb 2%Z (st_of Z o)) == 1 - 2 * eps.
Proof.
  set (idp := fun l : list Z => Permutation_refl l).
  pose proof (Cadd_phi Z Z.eqb Z.eqb_spec (fun l => l) idp Rcoin pi_real Rcoin_def) as Hphi.
  pose proof (Cadd_mono Z Z.eqb Z.eqb_spec (fun l => l) Rcoin pi_real Rcoin_def pi_real_lo pi_real_hi) as Hmono.
  pose proof (Cadd_value Z Z.eqb (fun l => l) Rcoin pi_real Rcoin_def) as Hval.
  unfold Rrun. cbn [DistinctModel.Crun]. rewrite !Ebind_unfold.
  assert (Hg0 : good Z (init Z)) by apply good_init.
  (* the second Add, at any state the first can produce *)
  rewrite (mono_supp _ _ (Hmono [1%Z] 0%nat 1%Z (init Z) 1%Z Hg0 (incl_refl _)) _
             (fun o => pi_real (k (st_of Z o)) * pw (k (st_of Z o)))).
  2:{ intros [s'|s'] Hs'; cbn in Hs'; [|contradiction]. destruct Hs' as [Hg' _]. cbn [DistinctProofsExp.st_of].
      rewrite Ebind_unfold.
      rewrite (Cadd_ext Z Z.eqb Z.eqb_spec (fun l => l) Rcoin pi_real Rcoin_def pi_real_lo pi_real_hi 0%nat 1%Z s' 2%Z Hg' _
                 (fun o' => 0 + 1 * phi Z Z.eqb 2%Z (st_of Z o'))).
      2:{ intros [s2|s2] _; cbn [DistinctModel.Crun]; unfold Eret; ring. }
      rewrite (Hphi 2%Z 0 1 0%nat 1%Z s' 2%Z Hg'). cbn [Z.eqb Pos.eqb]. ring. }
  (* the first Add: the coin is not drawn, the buffer is full, one pass *)
  rewrite (Hval 0%nat 1%Z (init Z) 1%Z _ eq_refl).
  cbn [DistinctModel.init buf p k DistinctModel.insert DistinctModel.memb existsb app length DistinctProofsExp.st_of].
  replace (full_cond (Z.of_nat 1) 1) with true by reflexivity.
  rewrite (Ehalve1_const Z Z.eqb Z.eqb_spec (fun l => l) idp 1%Z [1%Z] _) by (constructor; [intros []|constructor]).
  assert (H0 : pi_real 0 == 1) by reflexivity.
  assert (H1 : pi_real 1 * pw 1 == 1 - 2 * eps) by (vm_compute; reflexivity).
  rewrite H0, H1. ring.
Qed.
