(* C09 — the locking discipline of cache.Cache, as a small-step model.

   Threads run programs (lists of method calls) against one shared sequential object
   [seq : S -> O -> S * R].  A call goes through
       call     (emit the invocation)
       acquire  (only when the mutex is free; methods that are not lock-wrapped skip it)
       read     (first micro-step of the body: take a snapshot of the shared state)
       write    (second micro-step: store the state computed from the snapshot, fix the result)
       release  (lock-wrapped methods free the mutex)
       return   (emit the response).
   The two micro-steps of a method need the mutex iff the method is lock-wrapped ([locked o]);
   a method that is not may run them whenever it likes, in particular between another method's
   read and write — which is how a dropped Lock shows up in this model (lost updates).

   The full trace records invocations, responses and, at every write, a linearization event.
   Theorem [all_locked_linearizable]: if every method is lock-wrapped then, for every schedule and
   every prefix, the history (trace without the linearization events) is linearizable in the
   linearization-point form: there is a placement of one point per call (the trace itself) such
   that (1) the calls in the order of their points, with the results they returned, are a legal
   sequential run of the object from its initial state, and (2) every thread's events are
   invocation, point, response, in that order, call after call (so each point lies between its
   call's invocation and response; the order of points therefore respects real-time order). *)
From Coq Require Import List Arith Bool Lia.
Import ListNotations.

Section Conc.
Variables S O R : Type.
Variable seq : S -> O -> S * R.
Variable locked : O -> bool.
Variable init : S.

Inductive phase :=
| Idle
| Invoked (o : O)
| Acquired (o : O)
| Read (o : O) (snap : S)
| Written (o : O) (r : R)
| Released (o : O) (r : R).

Inductive ev :=
| EInv (t : nat) (o : O)
| ELin (t : nat) (o : O) (r : R)
| ERes (t : nat) (o : O) (r : R).

Record config := {
  shared : S;
  lock : option nat;
  ph : nat -> phase;
  prog : nat -> list O;
  trace : list ev            (* oldest first *)
}.

Definition upd {A} (f : nat -> A) (t : nat) (x : A) : nat -> A := fun u => if Nat.eqb u t then x else f u.

(* may thread t run a micro-step of method o now? *)
Definition may_touch (c : config) (t : nat) (o : O) : Prop := locked o = false \/ lock c = Some t.

Inductive cstep : config -> config -> Prop :=
| s_call t o rest c : ph c t = Idle -> prog c t = o :: rest ->
    cstep c {| shared := shared c; lock := lock c; ph := upd (ph c) t (Invoked o);
               prog := upd (prog c) t rest; trace := trace c ++ [EInv t o] |}
| s_acquire t o c : ph c t = Invoked o -> locked o = true -> lock c = None ->
    cstep c {| shared := shared c; lock := Some t; ph := upd (ph c) t (Acquired o);
               prog := prog c; trace := trace c |}
| s_nolock t o c : ph c t = Invoked o -> locked o = false ->
    cstep c {| shared := shared c; lock := lock c; ph := upd (ph c) t (Acquired o);
               prog := prog c; trace := trace c |}
| s_read t o c : ph c t = Acquired o -> may_touch c t o ->
    cstep c {| shared := shared c; lock := lock c; ph := upd (ph c) t (Read o (shared c));
               prog := prog c; trace := trace c |}
| s_write t o snap c : ph c t = Read o snap -> may_touch c t o ->
    cstep c {| shared := fst (seq snap o); lock := lock c; ph := upd (ph c) t (Written o (snd (seq snap o)));
               prog := prog c; trace := trace c ++ [ELin t o (snd (seq snap o))] |}
| s_release t o r c : ph c t = Written o r ->
    cstep c {| shared := shared c; lock := if locked o then None else lock c; ph := upd (ph c) t (Released o r);
               prog := prog c; trace := trace c |}
| s_return t o r c : ph c t = Released o r ->
    cstep c {| shared := shared c; lock := lock c; ph := upd (ph c) t Idle;
               prog := prog c; trace := trace c ++ [ERes t o r] |}.

Definition start (progs : nat -> list O) : config :=
  {| shared := init; lock := None; ph := fun _ => Idle; prog := progs; trace := [] |}.

(* every schedule, every prefix *)
Inductive reach (progs : nat -> list O) : config -> Prop :=
| reach_start : reach progs (start progs)
| reach_step c c' : reach progs c -> cstep c c' -> reach progs c'.

(* ---- reading a trace ---- *)
(* the calls in the order of their linearization points, with their results *)
Fixpoint lins (T : list ev) : list (O * R) :=
  match T with
  | [] => []
  | ELin _ o r :: T' => (o, r) :: lins T'
  | _ :: T' => lins T'
  end.

(* the history proper: invocations and responses *)
Fixpoint history (T : list ev) : list ev :=
  match T with
  | [] => []
  | ELin _ _ _ :: T' => history T'
  | e :: T' => e :: history T'
  end.

Fixpoint run_seq (s : S) (L : list (O * R)) : S :=
  match L with
  | [] => s
  | (o, _) :: L' => run_seq (fst (seq s o)) L'
  end.

(* a legal sequential run: every call returns what the object returns in the state it finds *)
Fixpoint legal (s : S) (L : list (O * R)) : Prop :=
  match L with
  | [] => True
  | (o, r) :: L' => snd (seq s o) = r /\ legal (fst (seq s o)) L'
  end.

(* one thread's view of the trace *)
Inductive lev := LInv (o : O) | LLin (o : O) (r : R) | LRes (o : O) (r : R).

Fixpoint proj (t : nat) (T : list ev) : list lev :=
  match T with
  | [] => []
  | EInv u o :: T' => if Nat.eqb u t then LInv o :: proj t T' else proj t T'
  | ELin u o r :: T' => if Nat.eqb u t then LLin o r :: proj t T' else proj t T'
  | ERes u o r :: T' => if Nat.eqb u t then LRes o r :: proj t T' else proj t T'
  end.

(* completed calls: invocation, linearization point, response *)
Fixpoint triples (ds : list (O * R)) : list lev :=
  match ds with
  | [] => []
  | (o, r) :: ds' => LInv o :: LLin o r :: LRes o r :: triples ds'
  end.

(* what a thread's current call has contributed so far *)
Definition pend (p : phase) : list lev :=
  match p with
  | Idle => []
  | Invoked o | Acquired o | Read o _ => [LInv o]
  | Written o r | Released o r => [LInv o; LLin o r]
  end.

(* a pending call: nothing, an invocation, or an invocation and its point *)
Definition pending_shape (p : list lev) : Prop :=
  p = [] \/ (exists o, p = [LInv o]) \/ (exists o r, p = [LInv o; LLin o r]).

(* linearizability of a history H, linearization-point form *)
Definition linearizable (H : list ev) : Prop :=
  exists T, history T = H /\ legal init (lins T) /\
            forall t, exists ds p, proj t T = triples ds ++ p /\ pending_shape p.

(* ---- proof ---- *)
Definition holding (p : phase) : Prop :=
  match p with Acquired _ | Read _ _ | Written _ _ => True | _ => False end.

Definition lock_inv (c : config) : Prop :=
  match lock c with
  | None => forall t, ~ holding (ph c t)
  | Some h => holding (ph c h) /\ forall t, t <> h -> ~ holding (ph c t)
  end.

Definition inv (c : config) : Prop :=
  shared c = run_seq init (lins (trace c)) /\
  legal init (lins (trace c)) /\
  (forall t, exists ds, proj t (trace c) = triples ds ++ pend (ph c t)) /\
  lock_inv c /\
  (forall t o snap, ph c t = Read o snap -> snap = shared c).

Lemma lins_app T1 T2 : lins (T1 ++ T2) = lins T1 ++ lins T2.
Proof. induction T1 as [|[u o|u o r|u o r] T1 IH]; cbn; [reflexivity|exact IH|rewrite IH; reflexivity|exact IH]. Qed.

Lemma proj_app t T1 T2 : proj t (T1 ++ T2) = proj t T1 ++ proj t T2.
Proof.
  induction T1 as [|[u o|u o r|u o r] T1 IH]; cbn; [reflexivity| | |]; destruct (Nat.eqb u t); cbn; rewrite IH; reflexivity.
Qed.

Lemma run_seq_snoc s L o r : run_seq s (L ++ [(o, r)]) = fst (seq (run_seq s L) o).
Proof. revert s. induction L as [|[o' r'] L IH]; intros s; cbn; [reflexivity|apply IH]. Qed.

Lemma legal_snoc s L o r : legal s L -> snd (seq (run_seq s L) o) = r -> legal s (L ++ [(o, r)]).
Proof.
  revert s. induction L as [|[o' r'] L IH]; intros s; cbn.
  - intros _ H. split; [exact H|exact I].
  - intros [H1 H2] H3. split; [exact H1|]. apply IH; assumption.
Qed.

Lemma triples_snoc ds o r : triples ds ++ [LInv o; LLin o r; LRes o r] = triples (ds ++ [(o, r)]).
Proof. induction ds as [|[o' r'] ds IH]; cbn; [reflexivity|]. rewrite IH. reflexivity. Qed.

Lemma upd_same {A} (f : nat -> A) t x : upd f t x t = x.
Proof. unfold upd. rewrite Nat.eqb_refl. reflexivity. Qed.

Lemma upd_other {A} (f : nat -> A) t u x : u <> t -> upd f t x u = f u.
Proof. intro H. unfold upd. destruct (Nat.eqb_spec u t); [contradiction|reflexivity]. Qed.

Hypothesis all_locked : forall o, locked o = true.

Lemma inv_start progs : inv (start progs).
Proof.
  unfold inv, start, lock_inv; cbn. split; [reflexivity|]. split; [exact I|].
  split; [intro t; exists []; reflexivity|]. split; [intros t H; exact H|]. intros t o snap H. discriminate.
Qed.

(* the lock holder is the only thread in a holding phase *)
Lemma holder_is c t : lock_inv c -> holding (ph c t) -> lock c = Some t.
Proof.
  unfold lock_inv. destruct (lock c) as [h|].
  - intros [Hh Ho] Ht. destruct (Nat.eq_dec t h) as [->|N]; [reflexivity|]. exfalso. exact (Ho t N Ht).
  - intros Hn Ht. exfalso. exact (Hn t Ht).
Qed.

Lemma proj_other t u e T : (match e with EInv x _ | ELin x _ _ | ERes x _ _ => x end) = u -> t <> u ->
  proj t (T ++ [e]) = proj t T.
Proof.
  intros He N. rewrite proj_app. destruct e; cbn in *; subst; destruct (Nat.eqb_spec u t); try congruence; apply app_nil_r.
Qed.

Lemma inv_step c c' : inv c -> cstep c c' -> inv c'.
Proof.
  intros (Hs & Hl & Hp & Hk & Hr) St.
  destruct St as [t o rest c Hph Hpr|t o c Hph Hlo Hfree|t o c Hph Hlo|t o c Hph Hm|t o snap c Hph Hm|t o r c Hph|t o r c Hph];
    unfold inv; cbn [shared lock ph prog trace].
  - (* call *)
    rewrite lins_app. cbn [lins]. rewrite app_nil_r.
    split; [exact Hs|]. split; [exact Hl|]. split; [|split].
    + intro u. destruct (Nat.eq_dec u t) as [->|N].
      * rewrite upd_same. destruct (Hp t) as [ds Hd]. exists ds. rewrite proj_app, Hd, Hph. cbn. rewrite Nat.eqb_refl. rewrite app_nil_r. reflexivity.
      * rewrite (upd_other _ _ _ _ N). destruct (Hp u) as [ds Hd]. exists ds. rewrite (proj_other u t); [exact Hd|reflexivity|exact N].
    + unfold lock_inv in *. cbn [lock ph]. destruct (lock c) as [h|].
      * destruct Hk as [Hh Ho]. split.
        -- destruct (Nat.eq_dec h t) as [->|N]; [rewrite Hph in Hh; destruct Hh|rewrite (upd_other _ _ _ _ N); exact Hh].
        -- intros u Nu. destruct (Nat.eq_dec u t) as [->|N]; [rewrite upd_same; exact (fun x => x)|rewrite (upd_other _ _ _ _ N); exact (Ho u Nu)].
      * intro u. destruct (Nat.eq_dec u t) as [->|N]; [rewrite upd_same; exact (fun x => x)|rewrite (upd_other _ _ _ _ N); exact (Hk u)].
    + intros u o' snap H. destruct (Nat.eq_dec u t) as [->|N]; [rewrite upd_same in H; discriminate|].
      rewrite (upd_other _ _ _ _ N) in H. exact (Hr _ _ _ H).
  - (* acquire *)
    split; [exact Hs|]. split; [exact Hl|]. split; [|split].
    + intro u. destruct (Nat.eq_dec u t) as [->|N].
      * rewrite upd_same. destruct (Hp t) as [ds Hd]. exists ds. rewrite Hd, Hph. reflexivity.
      * rewrite (upd_other _ _ _ _ N). exact (Hp u).
    + unfold lock_inv in *. cbn [lock ph]. rewrite Hfree in Hk. split; [rewrite upd_same; exact I|].
      intros u N. rewrite (upd_other _ _ _ _ N). exact (Hk u).
    + intros u o' snap H. destruct (Nat.eq_dec u t) as [->|N]; [rewrite upd_same in H; discriminate|].
      rewrite (upd_other _ _ _ _ N) in H. exact (Hr _ _ _ H).
  - (* a method that is not lock-wrapped: excluded by the hypothesis *)
    rewrite all_locked in Hlo. discriminate.
  - (* read *)
    assert (Hlk : lock c = Some t) by (destruct Hm as [H|H]; [rewrite all_locked in H; discriminate|exact H]).
    split; [exact Hs|]. split; [exact Hl|]. split; [|split].
    + intro u. destruct (Nat.eq_dec u t) as [->|N].
      * rewrite upd_same. destruct (Hp t) as [ds Hd]. exists ds. rewrite Hd, Hph. reflexivity.
      * rewrite (upd_other _ _ _ _ N). exact (Hp u).
    + unfold lock_inv in *. cbn [lock ph]. rewrite Hlk in *. destruct Hk as [Hh Ho]. split; [rewrite upd_same; exact I|].
      intros u N. rewrite (upd_other _ _ _ _ N). exact (Ho u N).
    + intros u o' snap H. destruct (Nat.eq_dec u t) as [->|N].
      * rewrite upd_same in H. injection H as _ <-. reflexivity.
      * rewrite (upd_other _ _ _ _ N) in H. exact (Hr _ _ _ H).
  - (* write: the linearization point *)
    assert (Hlk : lock c = Some t) by (destruct Hm as [H|H]; [rewrite all_locked in H; discriminate|exact H]).
    assert (Hsn : snap = shared c) by exact (Hr _ _ _ Hph). subst snap.
    rewrite lins_app. cbn [lins].
    split; [rewrite run_seq_snoc, <- Hs; reflexivity|].
    split; [apply legal_snoc; [exact Hl|rewrite <- Hs; reflexivity]|].
    split; [|split].
    + intro u. destruct (Nat.eq_dec u t) as [->|N].
      * rewrite upd_same. destruct (Hp t) as [ds Hd]. exists ds. rewrite proj_app, Hd, Hph. cbn. rewrite Nat.eqb_refl.
        rewrite <- app_assoc. reflexivity.
      * rewrite (upd_other _ _ _ _ N). destruct (Hp u) as [ds Hd]. exists ds. rewrite (proj_other u t); [exact Hd|reflexivity|exact N].
    + unfold lock_inv in *. cbn [lock ph]. rewrite Hlk in *. destruct Hk as [Hh Ho]. split; [rewrite upd_same; exact I|].
      intros u N. rewrite (upd_other _ _ _ _ N). exact (Ho u N).
    + intros u o' snap H. destruct (Nat.eq_dec u t) as [->|N]; [rewrite upd_same in H; discriminate|].
      rewrite (upd_other _ _ _ _ N) in H. exfalso.
      unfold lock_inv in Hk. rewrite Hlk in Hk. destruct Hk as [_ Ho]. apply (Ho u N). rewrite H. exact I.
  - (* release *)
    rewrite all_locked.
    assert (Hlk : lock c = Some t) by (apply holder_is; [exact Hk|rewrite Hph; exact I]).
    split; [exact Hs|]. split; [exact Hl|]. split; [|split].
    + intro u. destruct (Nat.eq_dec u t) as [->|N].
      * rewrite upd_same. destruct (Hp t) as [ds Hd]. exists ds. rewrite Hd, Hph. reflexivity.
      * rewrite (upd_other _ _ _ _ N). exact (Hp u).
    + unfold lock_inv in *. cbn [lock ph]. rewrite Hlk in Hk. destruct Hk as [_ Ho].
      intro u. destruct (Nat.eq_dec u t) as [->|N]; [rewrite upd_same; exact (fun x => x)|rewrite (upd_other _ _ _ _ N); exact (Ho u N)].
    + intros u o' snap H. destruct (Nat.eq_dec u t) as [->|N]; [rewrite upd_same in H; discriminate|].
      rewrite (upd_other _ _ _ _ N) in H. exact (Hr _ _ _ H).
  - (* return *)
    rewrite lins_app. cbn [lins]. rewrite app_nil_r.
    split; [exact Hs|]. split; [exact Hl|]. split; [|split].
    + intro u. destruct (Nat.eq_dec u t) as [->|N].
      * rewrite upd_same. destruct (Hp t) as [ds Hd]. exists (ds ++ [(o, r)]). rewrite proj_app, Hd, Hph. cbn. rewrite Nat.eqb_refl.
        rewrite <- app_assoc. cbn. rewrite app_nil_r. apply triples_snoc.
      * rewrite (upd_other _ _ _ _ N). destruct (Hp u) as [ds Hd]. exists ds. rewrite (proj_other u t); [exact Hd|reflexivity|exact N].
    + unfold lock_inv in *. cbn [lock ph]. destruct (lock c) as [h|].
      * destruct Hk as [Hh Ho]. split.
        -- destruct (Nat.eq_dec h t) as [->|N]; [rewrite Hph in Hh; destruct Hh|rewrite (upd_other _ _ _ _ N); exact Hh].
        -- intros u Nu. destruct (Nat.eq_dec u t) as [->|N]; [rewrite upd_same; exact (fun x => x)|rewrite (upd_other _ _ _ _ N); exact (Ho u Nu)].
      * intro u. destruct (Nat.eq_dec u t) as [->|N]; [rewrite upd_same; exact (fun x => x)|rewrite (upd_other _ _ _ _ N); exact (Hk u)].
    + intros u o' snap H. destruct (Nat.eq_dec u t) as [->|N]; [rewrite upd_same in H; discriminate|].
      rewrite (upd_other _ _ _ _ N) in H. exact (Hr _ _ _ H).
Qed.

Lemma reach_inv progs c : reach progs c -> inv c.
Proof. induction 1 as [|c c' _ IH St]; [apply inv_start|exact (inv_step _ _ IH St)]. Qed.

Lemma pend_shape p : pending_shape (pend p).
Proof.
  destruct p; cbn; unfold pending_shape; eauto.
Qed.

(* for every schedule and every prefix: the points are a legal sequential run ending in the
   current shared state, and every thread's events are invocation-point-response triples followed
   by its pending call *)
Theorem all_locked_trace progs c : reach progs c ->
  legal init (lins (trace c)) /\
  shared c = run_seq init (lins (trace c)) /\
  forall t, exists ds, proj t (trace c) = triples ds ++ pend (ph c t).
Proof. intro H. destruct (reach_inv _ _ H) as (A & B & C & _). auto. Qed.

Theorem all_locked_linearizable progs c : reach progs c -> linearizable (history (trace c)).
Proof.
  intro H. destruct (all_locked_trace _ _ H) as (A & _ & C). exists (trace c).
  split; [reflexivity|]. split; [exact A|]. intro t. destruct (C t) as [ds Hd]. exists ds, (pend (ph c t)).
  split; [exact Hd|apply pend_shape].
Qed.

End Conc.
