(* C09 — the locking discipline of cache.Cache, as a small-step model.

   Threads run programs (lists of method calls) against one shared object.  A call of operation o
   makes the critical sections [shape o : list mode] in order; section k computes, from a snapshot
   of the shared state and the call's local state, a new shared state and a new local state
   ([sec o k l s]); the call returns [fin o l].  The small steps of a call:
       call     (emit the invocation; the call gets a fresh identifier)
       enter    (take the mutex in the section's mode: Excl needs no holder at all, Shar needs no
                 exclusive holder, Unl takes nothing)
       read     (take a snapshot of the shared state)
       write    (store the state computed from the snapshot; emit an "effect" event)
       leave    (give the mutex back)
       ... the next section, if any ...
       return   (emit the response).
   Between a call's read and write any other thread may take steps it is allowed to take: with an
   Unl section, or with two Shar sections, that includes another read/write (lost update); and
   between two sections of one call anything may happen (check-then-act).  The sequential meaning of
   an operation, [seq], is its sections run back to back.

   The history of a run is the list of invocation and response events (EInv, ERes).

   Definition [linearizable] is Herlihy and Wing's: there is a sequence Sq of calls, without
   repetition, containing every completed call of the history with the result it returned and
   otherwise only calls that were invoked (pending calls may be included, with some result), that
   is a legal sequential run of the object from its initial state, and that respects real-time
   order: a call whose response precedes another call's invocation in the history comes first.

   Theorem [atomic_linearizable]: if every operation is ONE critical section that is either
   exclusive, or shared and does not change the state, then for every schedule and every prefix the
   history is linearizable (witness: the calls in the order of their writes).
   The hypothesis is necessary: Cache/ConcRefute.v runs a check-then-act method (two exclusive
   sections) to a history that is not linearizable. *)
From Coq Require Import List Arith Bool Lia.
Import ListNotations.
From Mds Require Import Cache.ConcShape.

Section Conc.
Variables S O R L : Type.
Variable shape : O -> list mode.
Variable sec : O -> nat -> L -> S -> S * L.
Variable l0 : L.
Variable fin : O -> L -> R.
Variable init : S.

(* ---- the sequential object: the sections of a call run back to back ---- *)
Fixpoint run_secs (o : O) (k : nat) (ms : list mode) (l : L) (s : S) : S * L :=
  match ms with
  | [] => (s, l)
  | _ :: ms' => run_secs o (Datatypes.S k) ms' (snd (sec o k l s)) (fst (sec o k l s))
  end.

Definition seq (s : S) (o : O) : S * R :=
  (fst (run_secs o 0 (shape o) l0 s), fin o (snd (run_secs o 0 (shape o) l0 s))).

(* ---- configurations and steps ---- *)
Inductive phase :=
| Idle
| Between (n : nat) (o : O) (k : nat) (l : L)        (* call n of o: sections < k done, nothing held *)
| Holding (n : nat) (o : O) (k : nat) (l : L)        (* has entered section k *)
| Snapped (n : nat) (o : O) (k : nat) (l : L) (snap : S)
| Stored (n : nat) (o : O) (k : nat) (l : L).        (* section k has written; l is the new local state *)

Inductive ev :=
| EInv (t n : nat) (o : O)
| EEff (t n : nat) (o : O) (r : R)    (* a section of call n wrote; r = what the call would return now *)
| ERes (t n : nat) (o : O) (r : R).

Record config := {
  shared : S;
  wr : option nat;          (* the exclusive holder of the mutex *)
  rd : list nat;            (* the shared holders *)
  ph : nat -> phase;
  prog : nat -> list O;
  next : nat;               (* the next call identifier *)
  trace : list ev           (* oldest first *)
}.

Definition upd {A} (f : nat -> A) (t : nat) (x : A) : nat -> A := fun u => if Nat.eqb u t then x else f u.

Definition can_take (c : config) (m : mode) : Prop :=
  match m with
  | Excl => wr c = None /\ rd c = []
  | Shar => wr c = None
  | Unl => True
  end.

Definition take_wr (c : config) (t : nat) (m : mode) : option nat := match m with Excl => Some t | _ => wr c end.
Definition take_rd (c : config) (t : nat) (m : mode) : list nat := match m with Shar => t :: rd c | _ => rd c end.
Definition give_wr (c : config) (m : mode) : option nat := match m with Excl => None | _ => wr c end.
Definition give_rd (c : config) (t : nat) (m : mode) : list nat :=
  match m with Shar => remove Nat.eq_dec t (rd c) | _ => rd c end.

Inductive cstep : config -> config -> Prop :=
| s_call t o rest c : ph c t = Idle -> prog c t = o :: rest ->
    cstep c {| shared := shared c; wr := wr c; rd := rd c; ph := upd (ph c) t (Between (next c) o 0 l0);
               prog := upd (prog c) t rest; next := Datatypes.S (next c); trace := trace c ++ [EInv t (next c) o] |}
| s_enter t n o k l m c : ph c t = Between n o k l -> nth_error (shape o) k = Some m -> can_take c m ->
    cstep c {| shared := shared c; wr := take_wr c t m; rd := take_rd c t m; ph := upd (ph c) t (Holding n o k l);
               prog := prog c; next := next c; trace := trace c |}
| s_read t n o k l c : ph c t = Holding n o k l ->
    cstep c {| shared := shared c; wr := wr c; rd := rd c; ph := upd (ph c) t (Snapped n o k l (shared c));
               prog := prog c; next := next c; trace := trace c |}
| s_write t n o k l snap c : ph c t = Snapped n o k l snap ->
    cstep c {| shared := fst (sec o k l snap); wr := wr c; rd := rd c;
               ph := upd (ph c) t (Stored n o k (snd (sec o k l snap)));
               prog := prog c; next := next c; trace := trace c ++ [EEff t n o (fin o (snd (sec o k l snap)))] |}
| s_leave t n o k l m c : ph c t = Stored n o k l -> nth_error (shape o) k = Some m ->
    cstep c {| shared := shared c; wr := give_wr c m; rd := give_rd c t m; ph := upd (ph c) t (Between n o (Datatypes.S k) l);
               prog := prog c; next := next c; trace := trace c |}
| s_return t n o k l c : ph c t = Between n o k l -> nth_error (shape o) k = None ->
    cstep c {| shared := shared c; wr := wr c; rd := rd c; ph := upd (ph c) t Idle;
               prog := prog c; next := next c; trace := trace c ++ [ERes t n o (fin o l)] |}.

Definition start (progs : nat -> list O) : config :=
  {| shared := init; wr := None; rd := []; ph := fun _ => Idle; prog := progs; next := 0; trace := [] |}.

(* every schedule, every prefix *)
Inductive reach (progs : nat -> list O) : config -> Prop :=
| reach_start : reach progs (start progs)
| reach_step c c' : reach progs c -> cstep c c' -> reach progs c'.

(* ---- the same steps as a function: thread t takes its next step, if it can.  Used to run
        concrete schedules by computation; [sched_step_sound] ties it to [cstep]. ---- *)
Definition can_takeb (c : config) (m : mode) : bool :=
  match m with
  | Excl => match wr c, rd c with None, [] => true | _, _ => false end
  | Shar => match wr c with None => true | _ => false end
  | Unl => true
  end.

Definition sched_step (t : nat) (c : config) : option config :=
  match ph c t with
  | Idle =>
    match prog c t with
    | [] => None
    | o :: rest =>
      Some {| shared := shared c; wr := wr c; rd := rd c; ph := upd (ph c) t (Between (next c) o 0 l0);
              prog := upd (prog c) t rest; next := Datatypes.S (next c); trace := trace c ++ [EInv t (next c) o] |}
    end
  | Between n o k l =>
    match nth_error (shape o) k with
    | Some m =>
      if can_takeb c m then
        Some {| shared := shared c; wr := take_wr c t m; rd := take_rd c t m; ph := upd (ph c) t (Holding n o k l);
                prog := prog c; next := next c; trace := trace c |}
      else None
    | None =>
      Some {| shared := shared c; wr := wr c; rd := rd c; ph := upd (ph c) t Idle;
              prog := prog c; next := next c; trace := trace c ++ [ERes t n o (fin o l)] |}
    end
  | Holding n o k l =>
    Some {| shared := shared c; wr := wr c; rd := rd c; ph := upd (ph c) t (Snapped n o k l (shared c));
            prog := prog c; next := next c; trace := trace c |}
  | Snapped n o k l snap =>
    Some {| shared := fst (sec o k l snap); wr := wr c; rd := rd c;
            ph := upd (ph c) t (Stored n o k (snd (sec o k l snap)));
            prog := prog c; next := next c; trace := trace c ++ [EEff t n o (fin o (snd (sec o k l snap)))] |}
  | Stored n o k l =>
    match nth_error (shape o) k with
    | Some m =>
      Some {| shared := shared c; wr := give_wr c m; rd := give_rd c t m; ph := upd (ph c) t (Between n o (Datatypes.S k) l);
              prog := prog c; next := next c; trace := trace c |}
    | None => None
    end
  end.

(* a schedule = the list of threads that take a step, in order; None when one of them cannot *)
Fixpoint run_sched (sch : list nat) (c : config) : option config :=
  match sch with
  | [] => Some c
  | t :: sch' => match sched_step t c with Some c' => run_sched sch' c' | None => None end
  end.

Lemma can_takeb_sound c m : can_takeb c m = true -> can_take c m.
Proof.
  destruct m; cbn; [|destruct (wr c); [discriminate|reflexivity]|exact (fun _ => I)].
  destruct (wr c); [discriminate|]. destruct (rd c); [split; reflexivity|discriminate].
Qed.

Lemma sched_step_sound t c c' : sched_step t c = Some c' -> cstep c c'.
Proof.
  unfold sched_step. destruct (ph c t) as [|n o k l|n o k l|n o k l snap|n o k l] eqn:Hp.
  - destruct (prog c t) as [|o rest] eqn:Hq; [discriminate|]. intro H. injection H as <-. apply s_call; assumption.
  - destruct (nth_error (shape o) k) as [m|] eqn:Hn.
    + destruct (can_takeb c m) eqn:Hc; [|discriminate]. intro H. injection H as <-.
      eapply s_enter; [exact Hp|exact Hn|apply can_takeb_sound; exact Hc].
    + intro H. injection H as <-. eapply s_return; [exact Hp|exact Hn].
  - intro H. injection H as <-. apply s_read. exact Hp.
  - intro H. injection H as <-. apply s_write. exact Hp.
  - destruct (nth_error (shape o) k) as [m|] eqn:Hn; [|discriminate]. intro H. injection H as <-.
    eapply s_leave; [exact Hp|exact Hn].
Qed.

Lemma run_sched_reach progs sch : forall c c', reach progs c -> run_sched sch c = Some c' -> reach progs c'.
Proof.
  induction sch as [|t sch IH]; intros c c' HR H; cbn in H.
  - injection H as <-. exact HR.
  - destruct (sched_step t c) as [c1|] eqn:Hs; [|discriminate].
    apply (IH c1 c'); [|exact H]. eapply reach_step; [exact HR|]. apply (sched_step_sound _ _ _ Hs).
Qed.

(* the configuration a schedule leads to (the starting one if the schedule cannot be run) *)
Definition run_sched_or (sch : list nat) (c : config) : config :=
  match run_sched sch c with Some c' => c' | None => c end.

Lemma run_sched_or_reach progs sch c : reach progs c -> reach progs (run_sched_or sch c).
Proof.
  intro H. unfold run_sched_or. destruct (run_sched sch c) as [c'|] eqn:E; [|exact H].
  exact (run_sched_reach progs sch c c' H E).
Qed.

(* ---- reading a trace ---- *)
Definition ev_id (e : ev) : nat := match e with EInv _ n _ | EEff _ n _ _ | ERes _ n _ _ => n end.

(* the history proper: invocations and responses *)
Definition is_hist (e : ev) : bool := match e with EEff _ _ _ _ => false | _ => true end.
Definition history (T : list ev) : list ev := filter is_hist T.

Lemma history_in T e : In e (history T) -> In e T.
Proof. unfold history. intro H. apply filter_In in H. exact (proj1 H). Qed.

(* a call with its result *)
Record call := mk_call { c_thr : nat; c_id : nat; c_op : O; c_res : R }.

(* the calls in the order of their effects *)
Definition eff_call (e : ev) : list call := match e with EEff t n o r => [mk_call t n o r] | _ => [] end.
Definition calls (T : list ev) : list call := flat_map eff_call T.
Definition op_res (c : call) : O * R := (c_op c, c_res c).
Definition lins (T : list ev) : list (O * R) := map op_res (calls T).

Fixpoint run_seq (s : S) (l : list (O * R)) : S :=
  match l with
  | [] => s
  | (o, _) :: l' => run_seq (fst (seq s o)) l'
  end.

(* a legal sequential run: every call returns what the object returns in the state it finds *)
Fixpoint legal (s : S) (l : list (O * R)) : Prop :=
  match l with
  | [] => True
  | (o, r) :: l' => snd (seq s o) = r /\ legal (fst (seq s o)) l'
  end.

(* x occurs before y *)
Definition before {A} (x y : A) (l : list A) : Prop := exists l1 l2 l3, l = l1 ++ x :: l2 ++ y :: l3.

(* linearizability of a history (Herlihy and Wing) *)
Definition linearizable (H : list ev) : Prop :=
  exists Sq : list call,
    (* no call twice *)
    NoDup (map c_id Sq) /\
    (* every completed call is there, with the result it returned *)
    (forall t n o r, In (ERes t n o r) H -> In (mk_call t n o r) Sq) /\
    (* and otherwise only calls that were invoked (pending ones, with some result) *)
    (forall t n o r, In (mk_call t n o r) Sq -> In (EInv t n o) H) /\
    (* the sequence is a legal sequential run of the object *)
    legal init (map op_res Sq) /\
    (* real-time order: a call that returned before another was invoked comes first *)
    (forall t1 n1 o1 r1 t2 n2 o2 r2,
        before (ERes t1 n1 o1 r1) (EInv t2 n2 o2) H -> In (mk_call t2 n2 o2 r2) Sq ->
        before (mk_call t1 n1 o1 r1) (mk_call t2 n2 o2 r2) Sq).

(* the identifiers of a history name calls: no identifier is invoked twice *)
Definition inv_id (e : ev) : list nat := match e with EInv _ n _ => [n] | _ => [] end.
Definition ids_unique (H : list ev) : Prop := NoDup (flat_map inv_id H).

(* ---- list lemmas ---- *)
Lemma flat_map_snoc {A B} (f : A -> list B) l x : flat_map f (l ++ [x]) = flat_map f l ++ f x.
Proof. induction l as [|a l IH]; cbn; [apply app_nil_r|]. rewrite IH. apply app_assoc. Qed.

Lemma flat_map_app' {A B} (f : A -> list B) l1 l2 : flat_map f (l1 ++ l2) = flat_map f l1 ++ flat_map f l2.
Proof. induction l1 as [|a l IH]; cbn; [reflexivity|]. rewrite IH. apply app_assoc. Qed.

Lemma NoDup_snoc {A} (l : list A) x : NoDup l -> ~ In x l -> NoDup (l ++ [x]).
Proof.
  induction l as [|a l IH]; cbn; intros ND NI.
  - constructor; [exact (fun f => f)|constructor].
  - inversion ND as [|a' l' Na ND']; subst. constructor.
    + intro Hin. apply in_app_or in Hin. destruct Hin as [Hin|[->|[]]]; [exact (Na Hin)|]. apply NI. left. reflexivity.
    + apply IH; [exact ND'|]. intro Hx. apply NI. right. exact Hx.
Qed.

Lemma split_snoc {A} (T : list A) x P e Q : T ++ [x] = P ++ e :: Q ->
  (exists Q', Q = Q' ++ [x] /\ T = P ++ e :: Q') \/ (P = T /\ e = x /\ Q = []).
Proof.
  assert (HQ : Q = [] \/ exists Q' y, Q = Q' ++ [y]).
  { destruct Q as [|q Q]; [left; reflexivity|right].
    destruct (exists_last (l := q :: Q)) as (Q' & y & E); [discriminate|]. exists Q', y. exact E. }
  destruct HQ as [->|(Q' & y & ->)]; intro H.
  - right. change (P ++ [e]) with (P ++ [e]) in H. apply app_inj_tail in H. destruct H as [-> ->]. auto.
  - left. rewrite app_comm_cons, app_assoc in H. apply app_inj_tail in H. destruct H as [-> ->].
    exists Q'. split; reflexivity.
Qed.

Lemma before_filter {A} (f : A -> bool) x y l : before x y (filter f l) -> before x y l.
Proof.
  intros (l1 & l2 & l3 & H). revert l1 H. induction l as [|a l IH]; intros l1 H; cbn in H.
  - destruct l1; discriminate.
  - destruct (f a) eqn:Hf.
    + destruct l1 as [|b l1]; cbn in H.
      * injection H as -> H.
        (* x = a; y occurs in filter f l *)
        assert (Hy : In y l).
        { assert (Hin : In y (filter f l)) by (rewrite H; apply in_or_app; right; left; reflexivity).
          apply filter_In in Hin. exact (proj1 Hin). }
        apply in_split in Hy. destruct Hy as (m1 & m2 & ->). exists [], m1, m2. reflexivity.
      * injection H as -> H. destruct (IH l1 H) as (p1 & p2 & p3 & ->). exists (b :: p1), p2, p3. reflexivity.
    + destruct (IH l1 H) as (p1 & p2 & p3 & ->). exists (a :: p1), p2, p3. reflexivity.
Qed.

Lemma upd_same {A} (f : nat -> A) t x : upd f t x t = x.
Proof. unfold upd. rewrite Nat.eqb_refl. reflexivity. Qed.

Lemma upd_other {A} (f : nat -> A) t u x : u <> t -> upd f t x u = f u.
Proof. intro H. unfold upd. destruct (Nat.eqb_spec u t); [contradiction|reflexivity]. Qed.

Lemma calls_snoc T e : calls (T ++ [e]) = calls T ++ eff_call e.
Proof. unfold calls. rewrite flat_map_snoc. reflexivity. Qed.

Lemma in_calls t n o r T : In (mk_call t n o r) (calls T) <-> In (EEff t n o r) T.
Proof.
  unfold calls. rewrite in_flat_map. split.
  - intros (e & He & Hc). destruct e; cbn in Hc; try contradiction. destruct Hc as [Hc|[]]. injection Hc as -> -> -> ->. exact He.
  - intro H. exists (EEff t n o r). split; [exact H|left; reflexivity].
Qed.

Lemma run_seq_snoc s l o r : run_seq s (l ++ [(o, r)]) = fst (seq (run_seq s l) o).
Proof. revert s. induction l as [|[o' r'] l IH]; intros s; cbn; [reflexivity|apply IH]. Qed.

Lemma legal_snoc s l o r : legal s l -> snd (seq (run_seq s l) o) = r -> legal s (l ++ [(o, r)]).
Proof.
  revert s. induction l as [|[o' r'] l IH]; intros s; cbn.
  - intros _ H. split; [exact H|exact I].
  - intros [H1 H2] H3. split; [exact H1|]. apply IH; assumption.
Qed.

(* ---- the invariant ---- *)
(* what must hold of the trace before an event for the event to be in order *)
Definition ev_ok (P : list ev) (e : ev) : Prop :=
  match e with
  | EInv _ n _ => forall e', In e' P -> ev_id e' < n           (* a fresh identifier *)
  | EEff t n o _ => In (EInv t n o) P                          (* an effect of an invoked call *)
  | ERes t n o r => In (EEff t n o r) P                        (* the response follows the effect that fixed it *)
  end.

Definition split_ok (T : list ev) : Prop := forall P e Q, T = P ++ e :: Q -> ev_ok P e.

Lemma split_ok_snoc T x : split_ok T -> ev_ok T x -> split_ok (T ++ [x]).
Proof.
  intros HT Hx P e Q HE. destruct (split_snoc _ _ _ _ _ HE) as [(Q' & _ & HT')|(-> & -> & _)].
  - exact (HT _ _ _ HT').
  - exact Hx.
Qed.

Definition ph_call (p : phase) : option (nat * O) :=
  match p with
  | Idle => None
  | Between n o _ _ | Holding n o _ _ | Snapped n o _ _ _ | Stored n o _ _ => Some (n, o)
  end.

(* the local state of a call whose section has written *)
Definition ph_post (p : phase) : option L :=
  match p with
  | Stored _ _ _ l | Between _ _ (Datatypes.S _) l => Some l
  | _ => None
  end.

(* the mode in which a thread holds the mutex *)
Definition hmode (p : phase) : option mode :=
  match p with
  | Holding _ o k _ | Snapped _ o k _ _ | Stored _ o k _ => nth_error (shape o) k
  | _ => None
  end.

Definition phase_ok (p : phase) : Prop :=
  match p with
  | Idle => True
  | Between _ _ k l => (k = 0 /\ l = l0) \/ k = 1
  | Holding _ _ k l | Snapped _ _ k l _ => k = 0 /\ l = l0
  | Stored _ _ k _ => k = 0
  end.

Record inv (c : config) : Prop := {
  i_phase : forall t, phase_ok (ph c t);
  (* identifiers and the order of events *)
  i_idlt : forall e, In e (trace c) -> ev_id e < next c;
  i_phlt : forall t n o, ph_call (ph c t) = Some (n, o) -> n < next c;
  i_phne : forall t u n o n' o', t <> u -> ph_call (ph c t) = Some (n, o) -> ph_call (ph c u) = Some (n', o') -> n <> n';
  i_split : split_ok (trace c);
  i_nodup : NoDup (map c_id (calls (trace c)));
  i_invoked : forall t n o, ph_call (ph c t) = Some (n, o) -> In (EInv t n o) (trace c);
  i_pre : forall t n o, ph_call (ph c t) = Some (n, o) -> ph_post (ph c t) = None -> ~ In n (map c_id (calls (trace c)));
  i_post : forall t n o l, ph_call (ph c t) = Some (n, o) -> ph_post (ph c t) = Some l -> In (EEff t n o (fin o l)) (trace c);
  (* the mutex *)
  i_wr : forall t, wr c = Some t <-> hmode (ph c t) = Some Excl;
  i_rd : forall t, In t (rd c) <-> hmode (ph c t) = Some Shar;
  i_wrrd : wr c <> None -> rd c = [];
  (* the state *)
  i_snap : forall t n o k l snap, ph c t = Snapped n o k l snap -> snap = shared c;
  i_shared : shared c = run_seq init (lins (trace c));
  i_legal : legal init (lins (trace c))
}.

(* every operation is one critical section: exclusive, or shared and leaving the state alone *)
Hypothesis atomic : forall o,
  shape o = [Excl] \/ (shape o = [Shar] /\ forall s, fst (sec o 0 l0 s) = s).

Lemma shape_nth o k m : nth_error (shape o) k = Some m -> k = 0 /\ (m = Excl \/ m = Shar) /\ shape o = [m].
Proof.
  destruct (atomic o) as [H|[H _]]; rewrite H; destruct k as [|[|k]]; cbn; intro E; try discriminate;
    injection E as <-; auto.
Qed.

Lemma shape_none o k : nth_error (shape o) k = None -> k <> 0.
Proof. destruct (atomic o) as [H|[H _]]; rewrite H; destruct k; cbn; intro E; [discriminate|auto|discriminate|auto]. Qed.

Lemma seq_single o m s : shape o = [m] -> seq s o = (fst (sec o 0 l0 s), fin o (snd (sec o 0 l0 s))).
Proof. intro H. unfold seq. rewrite H. reflexivity. Qed.

Lemma inv_start progs : inv (start progs).
Proof.
  constructor; cbn; try (intros; discriminate); try (intros; contradiction); auto.
  - intros P e Q H. destruct P; discriminate.
  - constructor.
  - intro t. split; discriminate.
  - intro t. split; [contradiction|discriminate].
Qed.

(* phases of the other threads do not change *)
Ltac other_thread u t N := rewrite (upd_other _ _ _ _ N) in *.

Lemma lins_snoc_eff T t n o r : lins (T ++ [EEff t n o r]) = lins T ++ [(o, r)].
Proof. unfold lins. rewrite calls_snoc. cbn. rewrite map_app. reflexivity. Qed.

Lemma lins_snoc_inv T t n o : lins (T ++ [EInv t n o]) = lins T.
Proof. unfold lins. rewrite calls_snoc. cbn. rewrite app_nil_r. reflexivity. Qed.

Lemma lins_snoc_res T t n o r : lins (T ++ [ERes t n o r]) = lins T.
Proof. unfold lins. rewrite calls_snoc. cbn. rewrite app_nil_r. reflexivity. Qed.

Lemma calls_snoc_inv T t n o : calls (T ++ [EInv t n o]) = calls T.
Proof. rewrite calls_snoc. cbn. apply app_nil_r. Qed.

Lemma calls_snoc_res T t n o r : calls (T ++ [ERes t n o r]) = calls T.
Proof. rewrite calls_snoc. cbn. apply app_nil_r. Qed.

Lemma calls_id_lt c : inv c -> forall x, In x (calls (trace c)) -> c_id x < next c.
Proof.
  intros I [t n o r] Hx. apply in_calls in Hx. exact (i_idlt c I _ Hx).
Qed.

Lemma inv_step c c' : inv c -> cstep c c' -> inv c'.
Proof.
  intros I St.
  destruct St as [t o rest c Hph Hpr|t n o k l m c Hph Hn Hc|t n o k l c Hph|t n o k l snap c Hph|t n o k l m c Hph Hn|t n o k l c Hph Hn].
  - (* call *)
    constructor; cbn [shared wr rd ph prog next trace].
    + intro u. destruct (Nat.eq_dec u t) as [->|N]; [rewrite upd_same; cbn; auto|rewrite (upd_other _ _ _ _ N); apply (i_phase c I)].
    + intros e He. apply in_app_or in He. destruct He as [He|[<-|[]]]; [pose proof (i_idlt c I e He); lia|cbn; lia].
    + intros u n o'. destruct (Nat.eq_dec u t) as [->|N].
      * rewrite upd_same. cbn. intro E. injection E as <- _. lia.
      * rewrite (upd_other _ _ _ _ N). intro E. pose proof (i_phlt c I u n o' E). lia.
    + intros u v n o1 n' o2 Nuv. destruct (Nat.eq_dec u t) as [->|Nu]; destruct (Nat.eq_dec v t) as [->|Nv]; try congruence.
      * rewrite upd_same, (upd_other _ _ _ _ Nv). cbn. intros E1 E2. injection E1 as <- _. pose proof (i_phlt c I v n' o2 E2). lia.
      * rewrite upd_same, (upd_other _ _ _ _ Nu). cbn. intros E1 E2. injection E2 as <- _. pose proof (i_phlt c I u n o1 E1). lia.
      * rewrite (upd_other _ _ _ _ Nu), (upd_other _ _ _ _ Nv). apply (i_phne c I); exact Nuv.
    + apply split_ok_snoc; [apply (i_split c I)|]. cbn. intros e' He'. exact (i_idlt c I e' He').
    + rewrite calls_snoc_inv. apply (i_nodup c I).
    + intros u n o'. destruct (Nat.eq_dec u t) as [->|N].
      * rewrite upd_same. cbn. intro E. injection E as <- <-. apply in_or_app. right. left. reflexivity.
      * rewrite (upd_other _ _ _ _ N). intro E. apply in_or_app. left. exact (i_invoked c I u n o' E).
    + intros u n o'. rewrite calls_snoc_inv. destruct (Nat.eq_dec u t) as [->|N].
      * rewrite upd_same. cbn. intros E _ Hin. injection E as <- _. apply in_map_iff in Hin. destruct Hin as (x & Hx1 & Hx2).
        pose proof (calls_id_lt c I x Hx2). lia.
      * rewrite (upd_other _ _ _ _ N). apply (i_pre c I).
    + intros u n o' l'. destruct (Nat.eq_dec u t) as [->|N].
      * rewrite upd_same. cbn. discriminate.
      * rewrite (upd_other _ _ _ _ N). intros E1 E2. apply in_or_app. left. exact (i_post c I u n o' l' E1 E2).
    + intro u. destruct (Nat.eq_dec u t) as [->|N].
      * rewrite upd_same. cbn. split; [|discriminate]. intro E. apply (i_wr c I) in E. rewrite Hph in E. discriminate.
      * rewrite (upd_other _ _ _ _ N). apply (i_wr c I).
    + intro u. destruct (Nat.eq_dec u t) as [->|N].
      * rewrite upd_same. cbn. split; [|discriminate]. intro E. apply (i_rd c I) in E. rewrite Hph in E. discriminate.
      * rewrite (upd_other _ _ _ _ N). apply (i_rd c I).
    + apply (i_wrrd c I).
    + intros u n o' k l snap. destruct (Nat.eq_dec u t) as [->|N]; [rewrite upd_same; discriminate|].
      rewrite (upd_other _ _ _ _ N). apply (i_snap c I).
    + rewrite lins_snoc_inv. apply (i_shared c I).
    + rewrite lins_snoc_inv. apply (i_legal c I).
  - (* enter *)
    destruct (shape_nth _ _ _ Hn) as (-> & Hm & Hsh).
    assert (Hl : l = l0).
    { pose proof (i_phase c I t) as P. rewrite Hph in P. cbn in P. destruct P as [[_ P]|P]; [exact P|discriminate]. }
    subst l.
    constructor; cbn [shared wr rd ph prog next trace].
    + intro u. destruct (Nat.eq_dec u t) as [->|N]; [rewrite upd_same; cbn; auto|rewrite (upd_other _ _ _ _ N); apply (i_phase c I)].
    + apply (i_idlt c I).
    + intros u n1 o1. destruct (Nat.eq_dec u t) as [->|N].
      * rewrite upd_same. cbn. intro E. apply (i_phlt c I t n1 o1). rewrite Hph. exact E.
      * rewrite (upd_other _ _ _ _ N). apply (i_phlt c I).
    + intros u v n1 o1 n2 o2 Nuv. destruct (Nat.eq_dec u t) as [->|Nu]; destruct (Nat.eq_dec v t) as [->|Nv]; try congruence.
      * rewrite upd_same, (upd_other _ _ _ _ Nv). cbn. intros E1 E2. apply (i_phne c I t v n1 o1 n2 o2 Nuv); [rewrite Hph; exact E1|exact E2].
      * rewrite upd_same, (upd_other _ _ _ _ Nu). cbn. intros E1 E2. apply (i_phne c I u t n1 o1 n2 o2 Nuv); [exact E1|rewrite Hph; exact E2].
      * rewrite (upd_other _ _ _ _ Nu), (upd_other _ _ _ _ Nv). apply (i_phne c I); exact Nuv.
    + apply (i_split c I).
    + apply (i_nodup c I).
    + intros u n1 o1. destruct (Nat.eq_dec u t) as [->|N].
      * rewrite upd_same. cbn. intro E. apply (i_invoked c I). rewrite Hph. exact E.
      * rewrite (upd_other _ _ _ _ N). apply (i_invoked c I).
    + intros u n1 o1. destruct (Nat.eq_dec u t) as [->|N].
      * rewrite upd_same. cbn. intros E _. apply (i_pre c I t n1 o1); rewrite Hph; [exact E|reflexivity].
      * rewrite (upd_other _ _ _ _ N). apply (i_pre c I).
    + intros u n1 o1 l1. destruct (Nat.eq_dec u t) as [->|N].
      * rewrite upd_same. cbn. discriminate.
      * rewrite (upd_other _ _ _ _ N). apply (i_post c I).
    + intro u. destruct (Nat.eq_dec u t) as [->|N].
      * rewrite upd_same. cbn [hmode]. rewrite Hn. destruct Hm as [-> | ->]; cbn.
        -- split; reflexivity.
        -- cbn in Hc. rewrite Hc. split; discriminate.
      * rewrite (upd_other _ _ _ _ N). destruct Hm as [-> | ->]; cbn.
        -- cbn in Hc. destruct Hc as [Hw _]. split.
           ++ intro E. injection E as E. congruence.
           ++ intro E. apply (i_wr c I) in E. congruence.
        -- apply (i_wr c I).
    + intro u. destruct (Nat.eq_dec u t) as [->|N].
      * rewrite upd_same. cbn [hmode]. rewrite Hn. destruct Hm as [-> | ->]; cbn.
        -- cbn in Hc. destruct Hc as [_ Hr]. rewrite Hr. split; [contradiction|discriminate].
        -- split; [reflexivity|]. intros _. left. reflexivity.
      * rewrite (upd_other _ _ _ _ N). destruct Hm as [-> | ->]; cbn.
        -- apply (i_rd c I).
        -- split.
           ++ intros [E|E]; [congruence|apply (i_rd c I); exact E].
           ++ intro E. right. apply (i_rd c I). exact E.
    + destruct Hm as [-> | ->]; cbn.
      * intros _. cbn in Hc. exact (proj2 Hc).
      * cbn in Hc. intro E. contradiction.
    + intros u n1 o1 k1 l1 snap. destruct (Nat.eq_dec u t) as [->|N]; [rewrite upd_same; discriminate|].
      rewrite (upd_other _ _ _ _ N). apply (i_snap c I).
    + apply (i_shared c I).
    + apply (i_legal c I).
  - (* read *)
    pose proof (i_phase c I t) as P. rewrite Hph in P. cbn in P. destruct P as [-> ->].
    constructor; cbn [shared wr rd ph prog next trace].
    + intro u. destruct (Nat.eq_dec u t) as [->|N]; [rewrite upd_same; cbn; auto|rewrite (upd_other _ _ _ _ N); apply (i_phase c I)].
    + apply (i_idlt c I).
    + intros u n1 o1. destruct (Nat.eq_dec u t) as [->|N].
      * rewrite upd_same. cbn. intro E. apply (i_phlt c I t n1 o1). rewrite Hph. exact E.
      * rewrite (upd_other _ _ _ _ N). apply (i_phlt c I).
    + intros u v n1 o1 n2 o2 Nuv. destruct (Nat.eq_dec u t) as [->|Nu]; destruct (Nat.eq_dec v t) as [->|Nv]; try congruence.
      * rewrite upd_same, (upd_other _ _ _ _ Nv). cbn. intros E1 E2. apply (i_phne c I t v n1 o1 n2 o2 Nuv); [rewrite Hph; exact E1|exact E2].
      * rewrite upd_same, (upd_other _ _ _ _ Nu). cbn. intros E1 E2. apply (i_phne c I u t n1 o1 n2 o2 Nuv); [exact E1|rewrite Hph; exact E2].
      * rewrite (upd_other _ _ _ _ Nu), (upd_other _ _ _ _ Nv). apply (i_phne c I); exact Nuv.
    + apply (i_split c I).
    + apply (i_nodup c I).
    + intros u n1 o1. destruct (Nat.eq_dec u t) as [->|N].
      * rewrite upd_same. cbn. intro E. apply (i_invoked c I). rewrite Hph. exact E.
      * rewrite (upd_other _ _ _ _ N). apply (i_invoked c I).
    + intros u n1 o1. destruct (Nat.eq_dec u t) as [->|N].
      * rewrite upd_same. cbn. intros E _. apply (i_pre c I t n1 o1); rewrite Hph; [exact E|reflexivity].
      * rewrite (upd_other _ _ _ _ N). apply (i_pre c I).
    + intros u n1 o1 l1. destruct (Nat.eq_dec u t) as [->|N].
      * rewrite upd_same. cbn. discriminate.
      * rewrite (upd_other _ _ _ _ N). apply (i_post c I).
    + intro u. destruct (Nat.eq_dec u t) as [->|N].
      * rewrite upd_same. cbn [hmode]. pose proof (i_wr c I t) as W. rewrite Hph in W. exact W.
      * rewrite (upd_other _ _ _ _ N). apply (i_wr c I).
    + intro u. destruct (Nat.eq_dec u t) as [->|N].
      * rewrite upd_same. cbn [hmode]. pose proof (i_rd c I t) as W. rewrite Hph in W. exact W.
      * rewrite (upd_other _ _ _ _ N). apply (i_rd c I).
    + apply (i_wrrd c I).
    + intros u n1 o1 k1 l1 snap. destruct (Nat.eq_dec u t) as [->|N].
      * rewrite upd_same. intro E. injection E as _ _ _ _ <-. reflexivity.
      * rewrite (upd_other _ _ _ _ N). apply (i_snap c I).
    + apply (i_shared c I).
    + apply (i_legal c I).
  - (* write *)
    pose proof (i_phase c I t) as P. rewrite Hph in P. cbn in P. destruct P as [-> ->].
    assert (Hsn : snap = shared c) by exact (i_snap c I _ _ _ _ _ _ Hph). subst snap.
    assert (Hmode : exists m, nth_error (shape o) 0 = Some m /\ shape o = [m]).
    { destruct (atomic o) as [H|[H _]]; rewrite H; cbn; eauto. }
    destruct Hmode as (m & Hn & Hsh).
    constructor; cbn [shared wr rd ph prog next trace].
    + intro u. destruct (Nat.eq_dec u t) as [->|N]; [rewrite upd_same; cbn; auto|rewrite (upd_other _ _ _ _ N); apply (i_phase c I)].
    + intros e He. apply in_app_or in He. destruct He as [He|[<-|[]]]; [exact (i_idlt c I e He)|].
      cbn. apply (i_phlt c I t n o). rewrite Hph. reflexivity.
    + intros u n1 o1. destruct (Nat.eq_dec u t) as [->|N].
      * rewrite upd_same. cbn. intro E. apply (i_phlt c I t n1 o1). rewrite Hph. exact E.
      * rewrite (upd_other _ _ _ _ N). apply (i_phlt c I).
    + intros u v n1 o1 n2 o2 Nuv. destruct (Nat.eq_dec u t) as [->|Nu]; destruct (Nat.eq_dec v t) as [->|Nv]; try congruence.
      * rewrite upd_same, (upd_other _ _ _ _ Nv). cbn. intros E1 E2. apply (i_phne c I t v n1 o1 n2 o2 Nuv); [rewrite Hph; exact E1|exact E2].
      * rewrite upd_same, (upd_other _ _ _ _ Nu). cbn. intros E1 E2. apply (i_phne c I u t n1 o1 n2 o2 Nuv); [exact E1|rewrite Hph; exact E2].
      * rewrite (upd_other _ _ _ _ Nu), (upd_other _ _ _ _ Nv). apply (i_phne c I); exact Nuv.
    + apply split_ok_snoc; [apply (i_split c I)|]. cbn. apply (i_invoked c I). rewrite Hph. reflexivity.
    + rewrite calls_snoc. cbn [eff_call]. rewrite map_app. cbn [map c_id]. apply NoDup_snoc; [apply (i_nodup c I)|].
      apply (i_pre c I t n o); rewrite Hph; reflexivity.
    + intros u n1 o1. destruct (Nat.eq_dec u t) as [->|N].
      * rewrite upd_same. cbn. intro E. apply in_or_app. left. apply (i_invoked c I). rewrite Hph. exact E.
      * rewrite (upd_other _ _ _ _ N). intro E. apply in_or_app. left. exact (i_invoked c I u n1 o1 E).
    + intros u n1 o1. destruct (Nat.eq_dec u t) as [->|N].
      * rewrite upd_same. cbn. discriminate.
      * rewrite (upd_other _ _ _ _ N). intros E1 E2. rewrite calls_snoc. cbn [eff_call]. rewrite map_app. cbn [map c_id].
        intro Hin. apply in_app_or in Hin. destruct Hin as [Hin|[Hin|[]]].
        -- exact (i_pre c I u n1 o1 E1 E2 Hin).
        -- apply (i_phne c I t u n o n1 o1); [congruence|rewrite Hph; reflexivity|exact E1|exact Hin].
    + intros u n1 o1 l1. destruct (Nat.eq_dec u t) as [->|N].
      * rewrite upd_same. cbn. intros E1 E2. injection E1 as <- <-. injection E2 as <-. apply in_or_app. right. left. reflexivity.
      * rewrite (upd_other _ _ _ _ N). intros E1 E2. apply in_or_app. left. exact (i_post c I u n1 o1 l1 E1 E2).
    + intro u. destruct (Nat.eq_dec u t) as [->|N].
      * rewrite upd_same. cbn [hmode]. pose proof (i_wr c I t) as W. rewrite Hph in W. exact W.
      * rewrite (upd_other _ _ _ _ N). apply (i_wr c I).
    + intro u. destruct (Nat.eq_dec u t) as [->|N].
      * rewrite upd_same. cbn [hmode]. pose proof (i_rd c I t) as W. rewrite Hph in W. exact W.
      * rewrite (upd_other _ _ _ _ N). apply (i_rd c I).
    + apply (i_wrrd c I).
    + (* the snapshots of the other threads *)
      intros u n1 o1 k1 l1 snap. destruct (Nat.eq_dec u t) as [->|N]; [rewrite upd_same; discriminate|].
      rewrite (upd_other _ _ _ _ N). intro Hu. pose proof (i_snap c I _ _ _ _ _ _ Hu) as Hs. subst snap.
      destruct (atomic o) as [Hx|[Hx Hro]].
      * (* t is the exclusive holder: nobody else is inside a section *)
        exfalso. assert (Wt : wr c = Some t).
        { apply (i_wr c I). rewrite Hph. cbn. rewrite Hx. reflexivity. }
        pose proof (i_phase c I u) as Pu. rewrite Hu in Pu. cbn in Pu. destruct Pu as [-> _].
        destruct (atomic o1) as [Hy|[Hy _]].
        -- assert (Wu : wr c = Some u) by (apply (i_wr c I); rewrite Hu; cbn; rewrite Hy; reflexivity). congruence.
        -- assert (Ru : In u (rd c)) by (apply (i_rd c I); rewrite Hu; cbn; rewrite Hy; reflexivity).
           rewrite (i_wrrd c I) in Ru; [contradiction|congruence].
      * (* a shared section leaves the state as it is *)
        symmetry. apply Hro.
    + rewrite lins_snoc_eff, run_seq_snoc, <- (i_shared c I), (seq_single o m _ Hsh). reflexivity.
    + rewrite lins_snoc_eff. apply legal_snoc; [apply (i_legal c I)|].
      rewrite <- (i_shared c I), (seq_single o m _ Hsh). reflexivity.
  - (* leave *)
    destruct (shape_nth _ _ _ Hn) as (-> & Hm & Hsh).
    constructor; cbn [shared wr rd ph prog next trace].
    + intro u. destruct (Nat.eq_dec u t) as [->|N]; [rewrite upd_same; cbn; auto|rewrite (upd_other _ _ _ _ N); apply (i_phase c I)].
    + apply (i_idlt c I).
    + intros u n1 o1. destruct (Nat.eq_dec u t) as [->|N].
      * rewrite upd_same. cbn. intro E. apply (i_phlt c I t n1 o1). rewrite Hph. exact E.
      * rewrite (upd_other _ _ _ _ N). apply (i_phlt c I).
    + intros u v n1 o1 n2 o2 Nuv. destruct (Nat.eq_dec u t) as [->|Nu]; destruct (Nat.eq_dec v t) as [->|Nv]; try congruence.
      * rewrite upd_same, (upd_other _ _ _ _ Nv). cbn. intros E1 E2. apply (i_phne c I t v n1 o1 n2 o2 Nuv); [rewrite Hph; exact E1|exact E2].
      * rewrite upd_same, (upd_other _ _ _ _ Nu). cbn. intros E1 E2. apply (i_phne c I u t n1 o1 n2 o2 Nuv); [exact E1|rewrite Hph; exact E2].
      * rewrite (upd_other _ _ _ _ Nu), (upd_other _ _ _ _ Nv). apply (i_phne c I); exact Nuv.
    + apply (i_split c I).
    + apply (i_nodup c I).
    + intros u n1 o1. destruct (Nat.eq_dec u t) as [->|N].
      * rewrite upd_same. cbn. intro E. apply (i_invoked c I). rewrite Hph. exact E.
      * rewrite (upd_other _ _ _ _ N). apply (i_invoked c I).
    + intros u n1 o1. destruct (Nat.eq_dec u t) as [->|N].
      * rewrite upd_same. cbn. discriminate.
      * rewrite (upd_other _ _ _ _ N). apply (i_pre c I).
    + intros u n1 o1 l1. destruct (Nat.eq_dec u t) as [->|N].
      * rewrite upd_same. cbn. intros E1 E2. apply (i_post c I t n1 o1 l1); rewrite Hph; [exact E1|exact E2].
      * rewrite (upd_other _ _ _ _ N). apply (i_post c I).
    + assert (Ht : hmode (ph c t) = Some m) by (rewrite Hph; exact Hn).
      intro u. destruct (Nat.eq_dec u t) as [->|N].
      * rewrite upd_same. cbn [hmode]. destruct Hm as [-> | ->]; cbn; [split; discriminate|].
        split; [|discriminate]. intro E. apply (i_wr c I) in E. congruence.
      * rewrite (upd_other _ _ _ _ N). destruct Hm as [-> | ->]; cbn; [|apply (i_wr c I)].
        split; [discriminate|]. intro E. apply (i_wr c I) in E. apply (i_wr c I) in Ht. congruence.
    + assert (Ht : hmode (ph c t) = Some m) by (rewrite Hph; exact Hn).
      intro u. destruct (Nat.eq_dec u t) as [->|N].
      * rewrite upd_same. cbn [hmode]. destruct Hm as [-> | ->]; cbn.
        -- split; [|discriminate]. intro E. apply (i_rd c I) in E. congruence.
        -- split; [|discriminate]. intro E. exfalso. exact (remove_In _ _ _ E).
      * rewrite (upd_other _ _ _ _ N). destruct Hm as [-> | ->]; cbn; [apply (i_rd c I)|].
        split.
        -- intro E. apply in_remove in E. apply (i_rd c I). exact (proj1 E).
        -- intro E. apply in_in_remove; [exact N|]. apply (i_rd c I). exact E.
    + assert (Ht : hmode (ph c t) = Some m) by (rewrite Hph; exact Hn).
      destruct Hm as [-> | ->]; cbn; [intro E; congruence|].
      intro E. exfalso. apply (i_rd c I) in Ht. rewrite (i_wrrd c I E) in Ht. contradiction.
    + intros u n1 o1 k1 l1 snap. destruct (Nat.eq_dec u t) as [->|N]; [rewrite upd_same; discriminate|].
      rewrite (upd_other _ _ _ _ N). apply (i_snap c I).
    + apply (i_shared c I).
    + apply (i_legal c I).
  - (* return *)
    pose proof (shape_none _ _ Hn) as Hk. destruct k as [|k]; [congruence|].
    constructor; cbn [shared wr rd ph prog next trace].
    + intro u. destruct (Nat.eq_dec u t) as [->|N]; [rewrite upd_same; cbn; auto|rewrite (upd_other _ _ _ _ N); apply (i_phase c I)].
    + intros e He. apply in_app_or in He. destruct He as [He|[<-|[]]]; [exact (i_idlt c I e He)|].
      cbn. apply (i_phlt c I t n o). rewrite Hph. reflexivity.
    + intros u n1 o1. destruct (Nat.eq_dec u t) as [->|N].
      * rewrite upd_same. cbn. discriminate.
      * rewrite (upd_other _ _ _ _ N). apply (i_phlt c I).
    + intros u v n1 o1 n2 o2 Nuv. destruct (Nat.eq_dec u t) as [->|Nu]; destruct (Nat.eq_dec v t) as [->|Nv]; try congruence.
      * rewrite upd_same. cbn. discriminate.
      * rewrite upd_same, (upd_other _ _ _ _ Nu). cbn. discriminate.
      * rewrite (upd_other _ _ _ _ Nu), (upd_other _ _ _ _ Nv). apply (i_phne c I); exact Nuv.
    + apply split_ok_snoc; [apply (i_split c I)|]. cbn. apply (i_post c I t n o l); rewrite Hph; reflexivity.
    + rewrite calls_snoc_res. apply (i_nodup c I).
    + intros u n1 o1. destruct (Nat.eq_dec u t) as [->|N].
      * rewrite upd_same. cbn. discriminate.
      * rewrite (upd_other _ _ _ _ N). intro E. apply in_or_app. left. exact (i_invoked c I u n1 o1 E).
    + intros u n1 o1. rewrite calls_snoc_res. destruct (Nat.eq_dec u t) as [->|N].
      * rewrite upd_same. cbn. discriminate.
      * rewrite (upd_other _ _ _ _ N). apply (i_pre c I).
    + intros u n1 o1 l1. destruct (Nat.eq_dec u t) as [->|N].
      * rewrite upd_same. cbn. discriminate.
      * rewrite (upd_other _ _ _ _ N). intros E1 E2. apply in_or_app. left. exact (i_post c I u n1 o1 l1 E1 E2).
    + intro u. destruct (Nat.eq_dec u t) as [->|N].
      * rewrite upd_same. cbn. split; [|discriminate]. intro E. apply (i_wr c I) in E. rewrite Hph in E. discriminate.
      * rewrite (upd_other _ _ _ _ N). apply (i_wr c I).
    + intro u. destruct (Nat.eq_dec u t) as [->|N].
      * rewrite upd_same. cbn. split; [|discriminate]. intro E. apply (i_rd c I) in E. rewrite Hph in E. discriminate.
      * rewrite (upd_other _ _ _ _ N). apply (i_rd c I).
    + apply (i_wrrd c I).
    + intros u n1 o1 k1 l1 snap. destruct (Nat.eq_dec u t) as [->|N]; [rewrite upd_same; discriminate|].
      rewrite (upd_other _ _ _ _ N). apply (i_snap c I).
    + rewrite lins_snoc_res. apply (i_shared c I).
    + rewrite lins_snoc_res. apply (i_legal c I).
Qed.

Lemma reach_inv progs c : reach progs c -> inv c.
Proof. induction 1 as [|c c' _ IH St]; [apply inv_start|exact (inv_step _ _ IH St)]. Qed.

(* ---- the theorems ---- *)
(* for every schedule and every prefix: the calls in the order of their effects are a legal
   sequential run ending in the current shared state, and every response in the trace is the result
   of one of these calls *)
Theorem atomic_trace progs c : reach progs c ->
  legal init (lins (trace c)) /\
  shared c = run_seq init (lins (trace c)) /\
  forall t n o r, In (ERes t n o r) (trace c) -> In (o, r) (lins (trace c)).
Proof.
  intro H. pose proof (reach_inv _ _ H) as I. split; [apply (i_legal c I)|]. split; [apply (i_shared c I)|].
  intros t n o r Hin. apply in_split in Hin. destruct Hin as (P & Q & HE).
  pose proof (i_split c I P _ Q HE) as Hok. cbn in Hok.
  unfold lins. apply in_map_iff. exists (mk_call t n o r). split; [reflexivity|].
  apply in_calls. rewrite HE. apply in_or_app. left. exact Hok.
Qed.

Lemma calls_app T1 T2 : calls (T1 ++ T2) = calls T1 ++ calls T2.
Proof. apply flat_map_app'. Qed.

Lemma calls_before P1 t1 n1 o1 r1 P2 t2 n2 o2 r2 Q2 :
  before (mk_call t1 n1 o1 r1) (mk_call t2 n2 o2 r2) (calls (P1 ++ EEff t1 n1 o1 r1 :: P2 ++ EEff t2 n2 o2 r2 :: Q2)).
Proof.
  exists (calls P1), (calls P2), (calls Q2).
  rewrite calls_app. cbn [calls flat_map eff_call app]. f_equal. f_equal.
  change (flat_map eff_call (P2 ++ EEff t2 n2 o2 r2 :: Q2)) with (calls (P2 ++ EEff t2 n2 o2 r2 :: Q2)).
  rewrite calls_app. reflexivity.
Qed.

Theorem atomic_linearizable progs c : reach progs c -> linearizable (history (trace c)).
Proof.
  intro H. pose proof (reach_inv _ _ H) as I. exists (calls (trace c)).
  split; [apply (i_nodup c I)|]. split; [|split; [|split]].
  - (* completed calls *)
    intros t n o r Hin. apply filter_In in Hin. destruct Hin as [Hin _].
    apply in_split in Hin. destruct Hin as (P & Q & HE).
    pose proof (i_split c I P _ Q HE) as Hok. cbn in Hok.
    apply in_calls. rewrite HE. apply in_or_app. left. exact Hok.
  - (* only invoked calls *)
    intros t n o r Hin. apply in_calls in Hin. apply in_split in Hin. destruct Hin as (P & Q & HE).
    pose proof (i_split c I P _ Q HE) as Hok. cbn in Hok.
    apply filter_In. split; [|reflexivity]. rewrite HE. apply in_or_app. left. exact Hok.
  - apply (i_legal c I).
  - (* real-time order *)
    intros t1 n1 o1 r1 t2 n2 o2 r2 Hb Hin.
    apply before_filter in Hb. destruct Hb as (P & M & Q & HE).
    apply in_calls in Hin.
    (* the effect of the first call precedes its response *)
    pose proof (i_split c I P _ _ HE) as Hok1. cbn in Hok1.
    apply in_split in Hok1. destruct Hok1 as (P1 & P2 & HP).
    (* the effect of the second call follows its invocation *)
    assert (HQ : In (EEff t2 n2 o2 r2) Q).
    { rewrite HE in Hin. rewrite app_comm_cons, app_assoc in Hin. apply in_app_or in Hin. destruct Hin as [Hin|[Hin|Hin]].
      - exfalso. apply in_split in Hin. destruct Hin as (X1 & X2 & HX).
        assert (HT : trace c = X1 ++ EEff t2 n2 o2 r2 :: (X2 ++ EInv t2 n2 o2 :: Q)).
        { rewrite HE, app_comm_cons, app_assoc, HX, <- app_assoc. reflexivity. }
        pose proof (i_split c I _ _ _ HT) as HokE. cbn in HokE.
        assert (HT2 : trace c = (P ++ ERes t1 n1 o1 r1 :: M) ++ EInv t2 n2 o2 :: Q).
        { rewrite HE, app_comm_cons, app_assoc. reflexivity. }
        pose proof (i_split c I _ _ _ HT2) as HokI. cbn in HokI.
        assert (Hlt : ev_id (EInv t2 n2 o2) < n2).
        { apply HokI. rewrite HX. apply in_or_app. left. exact HokE. }
        cbn in Hlt. lia.
      - discriminate.
      - exact Hin. }
    apply in_split in HQ. destruct HQ as (Q1 & Q2 & HQ).
    assert (HT3 : trace c = P1 ++ EEff t1 n1 o1 r1 :: (P2 ++ ERes t1 n1 o1 r1 :: M ++ EInv t2 n2 o2 :: Q1) ++ EEff t2 n2 o2 r2 :: Q2).
    { rewrite HE, HP, HQ. repeat (first [rewrite <- app_assoc|rewrite <- app_comm_cons]). reflexivity. }
    rewrite HT3. apply calls_before.
Qed.

(* the call identifiers of the history are distinct *)
Theorem atomic_ids_unique progs c : reach progs c -> ids_unique (history (trace c)).
Proof.
  intro H. pose proof (reach_inv _ _ H) as I. unfold ids_unique.
  pose proof (i_split c I) as HS. revert HS. generalize (trace c). intro T.
  induction T as [|e T IH] using rev_ind; intro HS; [constructor|].
  assert (HS' : split_ok T).
  { intros P x Q HE. apply (HS P x (Q ++ [e])). rewrite HE, <- app_assoc. reflexivity. }
  unfold history. rewrite filter_app, flat_map_app'. cbn [filter].
  destruct e as [t n o|t n o r|t n o r]; cbn [is_hist flat_map inv_id app]; try (rewrite app_nil_r; exact (IH HS')).
  apply NoDup_snoc; [exact (IH HS')|].
  intro Hin. apply in_flat_map in Hin. destruct Hin as (e' & He' & Hn).
  apply filter_In in He'. destruct He' as [He' _].
  pose proof (HS T (EInv t n o) [] eq_refl) as Hok. cbn in Hok. specialize (Hok e' He').
  destruct e'; cbn in Hn; try contradiction. destruct Hn as [<-|[]]. cbn in Hok. lia.
Qed.

End Conc.
