(* Elementary facts: the association-list map of the model, and find/del/total of the specs. *)
From Coq Require Import ZArith List Bool Lia Permutation.
Import ListNotations.
From Mds Require Import Heapq.HeapqModel Cache.CacheSpec Cache.CacheModel.
Local Open Scope Z_scope.

Section Facts.
Variables K V : Type.
Variable keqb : K -> K -> bool.
Hypothesis keqb_spec : forall a b, keqb a b = true <-> a = b.
Variable sizeOf : V -> Z.

Lemma keqb_refl (k : K) : keqb k k = true.
Proof. apply keqb_spec. reflexivity. Qed.

Lemma keqb_neq (a b : K) : a <> b -> keqb a b = false.
Proof. intro H. destruct (keqb a b) eqn:E; [|reflexivity]. apply keqb_spec in E. contradiction. Qed.

Lemma keqb_dec (a b : K) : {a = b} + {a <> b}.
Proof.
  destruct (keqb a b) eqn:E.
  - left. apply keqb_spec. exact E.
  - right. intro H. apply keqb_spec in H. congruence.
Qed.

(* ---- pmap ---- *)
Notation map_get := (map_get K keqb).
Notation map_set := (map_set K keqb).
Notation map_del := (map_del K keqb).

Lemma map_get_set_same p k x : map_get (map_set p k x) k = Some x.
Proof.
  induction p as [|[k' y] r IH]; cbn.
  - rewrite keqb_refl. reflexivity.
  - destruct (keqb k' k) eqn:E; cbn; rewrite E; [reflexivity|exact IH].
Qed.

Lemma map_get_set_other p k k' x : k <> k' -> map_get (map_set p k x) k' = map_get p k'.
Proof.
  intro N. induction p as [|[k0 y] r IH]; cbn.
  - rewrite (keqb_neq _ _ N). reflexivity.
  - destruct (keqb k0 k) eqn:E; cbn.
    + apply keqb_spec in E. subst k0. rewrite (keqb_neq _ _ N). reflexivity.
    + destruct (keqb k0 k'); [reflexivity|exact IH].
Qed.

Lemma map_get_del_same p k : map_get (map_del p k) k = None.
Proof.
  induction p as [|[k0 y] r IH]; cbn; [reflexivity|].
  destruct (keqb k0 k) eqn:E; [exact IH|]. cbn. rewrite E. exact IH.
Qed.

Lemma map_get_del_other p k k' : k <> k' -> map_get (map_del p k) k' = map_get p k'.
Proof.
  intro N. induction p as [|[k0 y] r IH]; cbn; [reflexivity|].
  destruct (keqb k0 k) eqn:E.
  - apply keqb_spec in E. subst k0. rewrite (keqb_neq _ _ N). exact IH.
  - cbn. destruct (keqb k0 k'); [reflexivity|exact IH].
Qed.

(* ---- entries ---- *)
Notation find := (@find K V keqb).
Notation del := (@del K V keqb).
Notation total := (@total K V sizeOf).
Definition keys (l : entries K V) : list K := map fst l.

Lemma find_Some_In l k v : find l k = Some v -> In (k, v) l.
Proof.
  induction l as [|[k0 v0] r IH]; cbn; [discriminate|].
  destruct (keqb k0 k) eqn:E.
  - intro H. injection H as ->. apply keqb_spec in E. subst. left. reflexivity.
  - intro H. right. exact (IH H).
Qed.

Lemma find_None_notin l k : find l k = None <-> ~ In k (keys l).
Proof.
  induction l as [|[k0 v0] r IH]; cbn.
  - split; [intros _ []|reflexivity].
  - destruct (keqb k0 k) eqn:E.
    + apply keqb_spec in E. subst. split; [discriminate|]. intro H. exfalso. apply H. left. reflexivity.
    + rewrite IH. split.
      * intros H [H1|H1]; [subst; rewrite keqb_refl in E; discriminate|exact (H H1)].
      * intros H H1. apply H. right. exact H1.
Qed.

Lemma find_In l k v : NoDup (keys l) -> In (k, v) l -> find l k = Some v.
Proof.
  induction l as [|[k0 v0] r IH]; cbn; [intros _ []|].
  intros ND [H|H].
  - injection H as -> ->. rewrite keqb_refl. reflexivity.
  - inversion ND as [|? ? N1 N2]; subst.
    destruct (keqb k0 k) eqn:E.
    + apply keqb_spec in E. subst. exfalso. apply N1. exact (in_map fst _ _ H).
    + exact (IH N2 H).
Qed.

Lemma find_in_keys l k : In k (keys l) -> exists v, find l k = Some v.
Proof.
  intro H. destruct (find l k) eqn:E; [eauto|]. apply find_None_notin in E. contradiction.
Qed.

Lemma del_perm l k v : find l k = Some v -> Permutation l ((k, v) :: del l k).
Proof.
  induction l as [|[k0 v0] r IH]; cbn; [discriminate|].
  destruct (keqb k0 k) eqn:E.
  - intro H. injection H as ->. apply keqb_spec in E. subst. reflexivity.
  - intro H. rewrite perm_swap. constructor. exact (IH H).
Qed.

Lemma del_notin l k : find l k = None -> del l k = l.
Proof.
  induction l as [|[k0 v0] r IH]; cbn; [reflexivity|].
  destruct (keqb k0 k); [discriminate|]. intro H. rewrite (IH H). reflexivity.
Qed.

Lemma total_perm l l' : Permutation l l' -> total l = total l'.
Proof.
  induction 1 as [|[k v] l l' _ IH|[k v] [k' v'] l|l l' l'' _ IH1 _ IH2]; cbn; lia.
Qed.

Lemma total_app l l' : total (l ++ l') = total l + total l'.
Proof. induction l as [|[k v] r IH]; cbn; lia. Qed.

Lemma total_nonneg l : (forall v, 0 <= sizeOf v) -> 0 <= total l.
Proof. intro H. induction l as [|[k v] r IH]; cbn; [lia|]. specialize (H v). lia. Qed.

Lemma keys_perm l l' : Permutation l l' -> Permutation (keys l) (keys l').
Proof. apply Permutation_map. Qed.

Lemma nodup_keys_perm l l' : Permutation l l' -> NoDup (keys l) -> NoDup (keys l').
Proof. intros P. apply Permutation_NoDup. apply keys_perm. exact P. Qed.

Lemma find_perm l l' k : Permutation l l' -> NoDup (keys l) -> find l k = find l' k.
Proof.
  intros P ND. destruct (find l k) eqn:E.
  - symmetry. apply find_In; [exact (nodup_keys_perm _ _ P ND)|].
    apply (Permutation_in _ P). exact (find_Some_In _ _ _ E).
  - symmetry. apply find_None_notin. apply find_None_notin in E. intro H. apply E.
    apply (Permutation_in _ (Permutation_sym (keys_perm _ _ P))). exact H.
Qed.

(* removing the entry of k from both sides of a permutation *)
Lemma del_perm_inv l l' k v :
  NoDup (keys l) -> Permutation l ((k, v) :: l') -> Permutation (del l k) l'.
Proof.
  intros ND P.
  assert (F : find l k = Some v).
  { apply find_In; [exact ND|]. apply (Permutation_in _ (Permutation_sym P)). left. reflexivity. }
  apply del_perm in F. apply Permutation_cons_inv with (a := (k, v)).
  rewrite <- F. exact P.
Qed.

Lemma nodup_keys_cons_inv k v l : NoDup (keys ((k, v) :: l)) -> ~ In k (keys l) /\ NoDup (keys l).
Proof. cbn. intro H. inversion H; subst. split; assumption. Qed.

End Facts.

Arguments keys {K V} l.
