(* Reference semantics for C08.  Definitions only; independent of the model of the Go code.

   S2 — the reference LRU cache: a list of (key, value) in recency order, least recently used
        first.  Put and successful Get are uses (the entry moves to the end), Has is not.
   S1 — the policy-agnostic cache: the same, except that the victims of an eviction (and the
        order in which Clear reports the entries) are not chosen by the reference but taken from
        the observation, and checked: every victim is a present key, an eviction happens only
        while the new value does not fit, and the evictions stop only when it fits.

   Both report, for every call, the result and the calls of the eviction callback. *)
From Coq Require Import ZArith List Bool.
Import ListNotations.
Local Open Scope Z_scope.

Section Types.
Variables K V : Type.
Inductive op := OPut (k : K) (v : V) | OGet (k : K) | OHas (k : K) | ORemove (k : K) | OClear | OLen | OSize.
Inductive out :=
| RBool (b : bool)            (* Put, Has, Remove *)
| RGet (v : V) (ok : bool)    (* Get: (value, true) or (zero value, false) *)
| RUnit                       (* Clear *)
| RNum (n : Z).               (* Len, Size *)
Definition evlog := list (K * V).   (* OnEvict(key, value) calls, in order *)
End Types.
Arguments OPut {K V} k v.
Arguments OGet {K V} k.
Arguments OHas {K V} k.
Arguments ORemove {K V} k.
Arguments OClear {K V}.
Arguments OLen {K V}.
Arguments OSize {K V}.
Arguments RBool {V} b.
Arguments RGet {V} v ok.
Arguments RUnit {V}.
Arguments RNum {V} n.

Section Spec.
Variables K V : Type.
Variable keqb : K -> K -> bool.   (* == on keys *)
Variable vzero : V.               (* the zero Value *)
Variable sizeOf : V -> Z.
Variable limit : Z.

Definition entries := list (K * V).

Fixpoint find (l : entries) (k : K) : option V :=
  match l with
  | [] => None
  | (k', v) :: r => if keqb k' k then Some v else find r k
  end.

(* without the (first) entry for k *)
Fixpoint del (l : entries) (k : K) : entries :=
  match l with
  | [] => []
  | (k', v) :: r => if keqb k' k then r else (k', v) :: del r k
  end.

Fixpoint total (l : entries) : Z :=
  match l with
  | [] => 0
  | (_, v) :: r => sizeOf v + total r
  end.

(* ---------------- S2: reference LRU ---------------- *)

(* evict from the least recently used end while a value of size vs does not fit *)
Fixpoint make_room (l : entries) (vs : Z) : entries * evlog K V :=
  match l with
  | [] => ([], [])
  | e :: r =>
    if total l + vs >? limit then
      let (r', ev) := make_room r vs in (r', e :: ev)
    else (l, [])
  end.

Definition s2_step (l : entries) (o : op K V) : entries * (out V * evlog K V) :=
  match o with
  | OPut k v =>
    if sizeOf v >? limit then (l, (RBool false, []))           (* refused: nothing changes *)
    else
      let (l1, ev1) := match find l k with
                       | Some old => (del l k, [(k, old)])      (* replaced *)
                       | None => (l, [])
                       end in
      let (l2, ev2) := make_room l1 (sizeOf v) in
      (l2 ++ [(k, v)], (RBool true, ev1 ++ ev2))
  | OGet k =>
    match find l k with
    | Some v => (del l k ++ [(k, v)], (RGet v true, []))        (* a use *)
    | None => (l, (RGet vzero false, []))
    end
  | OHas k => (l, (RBool (match find l k with Some _ => true | None => false end), []))   (* not a use *)
  | ORemove k =>
    match find l k with
    | Some v => (del l k, (RBool true, [(k, v)]))
    | None => (l, (RBool false, []))
    end
  | OClear => ([], (RUnit, l))
  | OLen => (l, (RNum (Z.of_nat (length l)), []))
  | OSize => (l, (RNum (total l), []))
  end.

Fixpoint s2_run (l : entries) (ops : list (op K V)) : list (out V * evlog K V) :=
  match ops with
  | [] => []
  | o :: ops' => let (l', r) := s2_step l o in r :: s2_run l' ops'
  end.

(* ---- a condition on the history alone under which known finding F2 cannot show ----
   (used by C08_lru_settled_partial; evaluated on the reference, no knowledge of the heap needed)
   [hits l o]: the call finds its key present and so makes the store call heapq.Remove at an
   arbitrary offset (Get, Remove, and a Put that replaces).
   [settles l o]: Some true = afterwards the entry just stored/used is the most recent one and sits
   in the last heap slot (accepted Put, successful Get) or the cache is empty (Clear); Some false =
   a successful Remove (the last slot holds whatever was next to last); None = nothing changed.
   [settled top l ops]: every call that hits starts either right after a settling call (top), or
   with at most 5 entries present (a heap that small cannot be disordered by one removal). *)
Definition hits (l : entries) (o : op K V) : bool :=
  match o with
  | OPut k v => if sizeOf v >? limit then false else match find l k with Some _ => true | None => false end
  | OGet k | ORemove k => match find l k with Some _ => true | None => false end
  | _ => false
  end.

Definition settles (l : entries) (o : op K V) : option bool :=
  match o with
  | OPut k v => if sizeOf v >? limit then None else Some true
  | OGet k => match find l k with Some _ => Some true | None => None end
  | ORemove k => match find l k with Some _ => Some false | None => None end
  | OClear => Some true
  | _ => None
  end.

Fixpoint settled (top : bool) (l : entries) (ops : list (op K V)) : bool :=
  match ops with
  | [] => true
  | o :: ops' =>
    (negb (hits l o) || top || (Z.of_nat (length l) <=? 5)) &&
    settled (match settles l o with Some b => b | None => top end) (fst (s2_step l o)) ops'
  end.

(* the reference's state after every call *)
Fixpoint s2_states (l : entries) (ops : list (op K V)) : list entries :=
  match ops with
  | [] => []
  | o :: ops' => let (l', _) := s2_step l o in l' :: s2_states l' ops'
  end.

(* ---------------- S1: any present key may be the victim ---------------- *)

(* the observed victims ks, checked one by one: each eviction is needed and hits a present key;
   after the last one the value fits *)
Fixpoint s1_evict (l : entries) (vs : Z) (ks : list K) : option (entries * evlog K V) :=
  match ks with
  | [] => if total l + vs >? limit then None else Some (l, [])
  | k :: ks' =>
    if total l + vs >? limit then
      match find l k with
      | None => None
      | Some v =>
        match s1_evict (del l k) vs ks' with
        | None => None
        | Some (l', ev) => Some (l', (k, v) :: ev)
        end
      end
    else None
  end.

(* Clear: the observed keys are the present keys, each once, in any order *)
Fixpoint s1_clear (l : entries) (ks : list K) : option (evlog K V) :=
  match ks with
  | [] => match l with [] => Some [] | _ => None end
  | k :: ks' =>
    match find l k with
    | None => None
    | Some v =>
      match s1_clear (del l k) ks' with
      | None => None
      | Some ev => Some ((k, v) :: ev)
      end
    end
  end.

(* ks = the keys of the observed callback calls of this call.  None = the observation is not one
   a cache can make. *)
Definition s1_step (l : entries) (o : op K V) (ks : list K) : option (entries * (out V * evlog K V)) :=
  match o with
  | OPut k v =>
    if sizeOf v >? limit then Some (l, (RBool false, []))
    else
      let '(l1, ev1, ks1) := match find l k with
                             | Some old => (del l k, [(k, old)], tl ks)
                             | None => (l, [], ks)
                             end in
      match s1_evict l1 (sizeOf v) ks1 with
      | None => None
      | Some (l2, ev2) => Some (l2 ++ [(k, v)], (RBool true, ev1 ++ ev2))
      end
  | OClear =>
    match s1_clear l ks with
    | None => None
    | Some ev => Some ([], (RUnit, ev))
    end
  | OGet k =>
    match find l k with
    | Some v => Some (l, (RGet v true, []))
    | None => Some (l, (RGet vzero false, []))
    end
  | _ => Some (s2_step l o)      (* Has, Remove, Len, Size: as in S2 *)
  end.

(* a sequence of observations (result, callback log) is accepted when every call's result and
   log are the ones S1 gives for the observed victims *)
Fixpoint s1_accepts (l : entries) (ops : list (op K V)) (obs : list (out V * evlog K V)) : Prop :=
  match ops, obs with
  | [], [] => True
  | o :: ops', (r, log) :: obs' =>
    match s1_step l o (map fst log) with
    | Some (l', rl) => rl = (r, log) /\ s1_accepts l' ops' obs'
    | None => False
    end
  | _, _ => False
  end.

(* S1's states along an accepted observation (for Size <= limit and the driver) *)
Fixpoint s1_states (l : entries) (ops : list (op K V)) (obs : list (out V * evlog K V)) : list entries :=
  match ops, obs with
  | o :: ops', (r, log) :: obs' =>
    match s1_step l o (map fst log) with
    | Some (l', _) => l' :: s1_states l' ops' obs'
    | None => []
    end
  | _, _ => []
  end.

End Spec.

Arguments find {K V} keqb l k.
Arguments del {K V} keqb l k.
Arguments total {K V} sizeOf l.

(* executable form of s1_accepts for int keys and values (the driver's check of the implementation's
   own output): the index of the first call whose observation is not accepted *)
Fixpoint s1_first_reject (sizeOf : Z -> Z) (limit : Z) (l : entries Z Z) (ops : list (op Z Z))
         (obs : list (out Z * evlog Z Z)) (i : nat) : option nat :=
  match ops, obs with
  | [], [] => None
  | o :: ops', (r, log) :: obs' =>
    match s1_step Z Z Z.eqb 0 sizeOf limit l o (map fst log) with
    | Some (l', (r', log')) =>
      let same_out := match r, r' with
                      | RBool a, RBool b => Bool.eqb a b
                      | RGet v a, RGet w b => Z.eqb v w && Bool.eqb a b
                      | RUnit, RUnit => true
                      | RNum a, RNum b => Z.eqb a b
                      | _, _ => false
                      end in
      let same_log := (fix eq (x y : evlog Z Z) : bool :=
                         match x, y with
                         | [], [] => true
                         | (a, b) :: x', (c, d) :: y' => Z.eqb a c && Z.eqb b d && eq x' y'
                         | _, _ => false
                         end) log log' in
      if same_out && same_log then s1_first_reject sizeOf limit l' ops' obs' (S i) else Some i
    | None => Some i
    end
  | _, _ => Some i
  end.
