(* The full C08 property for every heap variant with both defect switches off, closed. *)
From Coq Require Import ZArith List Bool.
Import ListNotations.
From Mds Require Import Heapq.HeapqModel Cache.CacheSpec Cache.CacheModel Cache.CacheS2Proofs.
Local Open Scope Z_scope.

Theorem refines_S2_sound_heap :
  forall (K V : Type) (keqb : K -> K -> bool),
    (forall a b, keqb a b = true <-> a = b) ->
  forall (kzero : K) (vzero : V) (sizeOf : V -> Z),
    (forall v, 0 <= sizeOf v) ->
  forall (hv : variant), parent_halves hv = false -> pop_no_siftup hv = false ->
  forall (lim : Z) (ops : list (op K V)),
    0 < lim ->
    run_new K V keqb kzero vzero sizeOf hv lim ops = map ok_event (s2_run K V keqb vzero sizeOf lim [] ops).
Proof.
  intros K V keqb Hk kzero vzero sizeOf Hs hv H1 H2 lim ops Hl.
  exact (refines_S2 K V keqb Hk kzero vzero sizeOf Hs lim Hl hv H1 H2 ops).
Qed.

Theorem refines_S2_repaired :
  forall (K V : Type) (keqb : K -> K -> bool),
    (forall a b, keqb a b = true <-> a = b) ->
  forall (kzero : K) (vzero : V) (sizeOf : V -> Z),
    (forall v, 0 <= sizeOf v) ->
  forall (lim : Z) (ops : list (op K V)),
    0 < lim ->
    run_new K V keqb kzero vzero sizeOf repaired lim ops = map ok_event (s2_run K V keqb vzero sizeOf lim [] ops).
Proof. intros. apply refines_S2_sound_heap; auto. Qed.
