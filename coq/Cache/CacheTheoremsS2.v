(* The C08 theorems about the eviction ORDER (equality with the reference LRU, S2), closed.
   No assumption on the size function is needed for these (sizes may be zero or negative). *)
From Coq Require Import ZArith List Bool Lia.
Import ListNotations.
From Mds Require Import Gen.CacheIdx Gen.HeapqIdx Heapq.HeapqModel Heapq.HeapqSpec Cache.CacheSpec Cache.CacheModel
  Cache.CacheS2Proofs Cache.CacheHeapGuard Cache.CacheModel64 Cache.CacheInt.
Local Open Scope Z_scope.

Theorem refines_S2_sound_heap :
  forall (K V : Type) (keqb : K -> K -> bool),
    (forall a b, keqb a b = true <-> a = b) ->
  forall (kzero : K) (vzero : V) (sizeOf : V -> Z),
  forall (hv : variant), parent_halves hv = false -> pop_no_siftup hv = false ->
  forall (lim : Z) (ops : list (op K V)),
    0 < lim ->
    run_new K V keqb kzero vzero sizeOf hv lim ops = map ok_event (s2_run K V keqb vzero sizeOf lim [] ops).
Proof.
  intros K V keqb Hk kzero vzero sizeOf hv H1 H2 lim ops Hl.
  exact (refines_S2 K V keqb Hk kzero vzero sizeOf lim Hl hv ops (conj H1 H2)).
Qed.

Theorem refines_S2_repaired :
  forall (K V : Type) (keqb : K -> K -> bool),
    (forall a b, keqb a b = true <-> a = b) ->
  forall (kzero : K) (vzero : V) (sizeOf : V -> Z),
  forall (lim : Z) (ops : list (op K V)),
    0 < lim ->
    run_new K V keqb kzero vzero sizeOf repaired lim ops = map ok_event (s2_run K V keqb vzero sizeOf lim [] ops).
Proof. intros. apply refines_S2_sound_heap; auto. Qed.

(* the code as it is (and any heap whose pop never sifts up): every history none of whose calls
   starts a heapq.Remove that needs a sift-up *)
Theorem refines_S2_no_trigger :
  forall (K V : Type) (keqb : K -> K -> bool),
    (forall a b, keqb a b = true <-> a = b) ->
  forall (kzero : K) (vzero : V) (sizeOf : V -> Z),
  forall (hv : variant), pop_no_siftup hv = true ->
  forall (lim : Z) (ops : list (op K V)),
    0 < lim ->
    run_new_safe K V keqb kzero vzero sizeOf hv lim ops = true ->
    run_new K V keqb kzero vzero sizeOf hv lim ops = map ok_event (s2_run K V keqb vzero sizeOf lim [] ops).
Proof.
  intros K V keqb Hk kzero vzero sizeOf hv Hv lim ops Hl Hs.
  exact (refines_S2_safe K V keqb Hk kzero vzero sizeOf lim Hl hv ops Hv Hs).
Qed.

(* ... in particular every history that is [settled], a condition on the history and the reference alone *)
Theorem refines_S2_settled_history :
  forall (K V : Type) (keqb : K -> K -> bool),
    (forall a b, keqb a b = true <-> a = b) ->
  forall (kzero : K) (vzero : V) (sizeOf : V -> Z),
  forall (hv : variant), pop_no_siftup hv = true ->
  forall (lim : Z) (ops : list (op K V)),
    0 < lim ->
    settled K V keqb vzero sizeOf lim true [] ops = true ->
    run_new K V keqb kzero vzero sizeOf hv lim ops = map ok_event (s2_run K V keqb vzero sizeOf lim [] ops).
Proof.
  intros K V keqb Hk kzero vzero sizeOf hv Hv lim ops Hl Hs.
  exact (refines_S2_settled K V keqb Hk kzero vzero sizeOf lim Hl hv ops Hv Hs).
Qed.

(* the trigger condition is exact for "this removal keeps the heap a heap": on a valid heap of LRU
   entries, a removal at an offset where [rm_safe] is false leaves the moved entry strictly below
   (older than) its parent *)
Theorem trigger_breaks_heap :
  forall (K V : Type) (hv : variant), pop_no_siftup hv = true ->
  forall (d d' : list (prio K V)) (pos : Z) (m : moves (prio K V)) (out : prio K V),
    heap_ok (prio K V) (compare_prio K V) d -> 0 <= pos < len d -> rm_safe K V d pos = false ->
    pop (prio K V) hv (compare_prio K V) d pos = Ok (d', m, out) ->
    exists moved par, get d' ((pos - 1) / 2) = Some par /\ get d' pos = Some moved /\
                      lastAccess moved < lastAccess par /\ child ((pos - 1) / 2) pos.
Proof.
  intros K V hv Hv d d' pos m out Hh Hr Hs HP.
  assert (Hn : ~ no_siftup_needed (prio K V) (compare_prio K V) d pos).
  { intro N. unfold rm_safe in Hs. destruct N as [->|[N|(last & par & Hl & Hp & Hle)]].
    - discriminate.
    - apply Z.leb_le in N. rewrite N in Hs. rewrite orb_true_r in Hs. discriminate.
    - rewrite Hl, Hp in Hs. apply (cmpp_le K V) in Hle. apply Z.leb_le in Hle. rewrite Hle in Hs.
      rewrite orb_true_r in Hs. discriminate. }
  destruct (pop_breaks_order (prio K V) hv (compare_prio K V) (cmpp_tp K V) d pos d' m out Hv Hh Hr Hn HP)
    as (last & par & A & B & C & D).
  exists last, par. split; [exact A|]. split; [exact B|]. split; [|exact D].
  destruct (Z_lt_dec (lastAccess last) (lastAccess par)) as [|N]; [assumption|exfalso].
  assert (compare_prio K V par last <= 0) by (apply (cmpp_le K V); lia).
  pose proof (HeapqArray.cmp_flip_lt (prio K V) (compare_prio K V) (cmpp_tp K V) last par). lia.
Qed.

(* New's documented panic *)
Theorem new_bad_limit_panics :
  forall (K V : Type) (keqb : K -> K -> bool) (kzero : K) (vzero : V) (sizeOf : V -> Z) (hv : variant)
         (lim : Z) (ops : list (op K V)),
    lim <= 0 -> run_new K V keqb kzero vzero sizeOf hv lim ops = [EPanic PBadLimit].
Proof.
  intros. unfold run_new, cache_new, new_bad_limit. destruct (Z.leb_spec lim 0); [reflexivity|lia].
Qed.

(* the call shape of cache.go / lru.go that the model's hand-written skeleton assumes, computed on
   the regenerated Gen files *)
Theorem store_shape_ok : store_shape = true.
Proof. vm_compute. reflexivity. Qed.

(* machine integers: the 64-bit wrap-around model is the Z model, for every int64 limit > 0 and every
   size function with values in [0, 2^63), every variant, every history *)
Theorem model64_eq_model :
  forall (K V : Type) (keqb : K -> K -> bool),
    (forall a b, keqb a b = true <-> a = b) ->
  forall (kzero : K) (vzero : V) (sizeOf : V -> Z),
    (forall v, 0 <= sizeOf v < 2 ^ 63) ->
  forall (lim : Z), 0 < lim < 2 ^ 63 ->
  forall (hv : variant) (ops : list (op K V)),
    run_new_w K V keqb kzero vzero sizeOf hv wrap64 lim ops = run_new K V keqb kzero vzero sizeOf hv lim ops.
Proof.
  intros K V keqb Hk kzero vzero sizeOf Hs lim Hl hv ops.
  exact (run64_eq K V keqb Hk kzero vzero sizeOf Hs lim Hl hv ops).
Qed.

(* the wrap-parametrised copy instantiated with the identity is the model of CacheModel.v *)
Theorem model_w_id_is_model :
  forall (K V : Type) (keqb : K -> K -> bool) (kzero : K) (vzero : V) (sizeOf : V -> Z) (hv : variant)
         (c : cache K V) (ops : list (op K V)),
    run_w K V keqb kzero vzero sizeOf hv (fun z => z) c ops = run K V keqb kzero vzero sizeOf hv c ops.
Proof. intros. apply run_w_id. Qed.
