(* The known finding F2 seen through cache.Cache: a concrete history on which the model of the pinned
   code (heapq with parent i/2 and a pop that never sifts up) evicts an entry that is not the
   least recently used one.  Found by random search on the real package, minimised (15 calls,
   limit 7, unit sizes), and replayed on every run from corpus/C08. *)
From Coq Require Import ZArith List Bool.
Import ListNotations.
From Mds Require Import Heapq.HeapqModel Cache.CacheSpec Cache.CacheModel.
Local Open Scope Z_scope.



(* the cache of the harness: int keys and values, == on keys, zero values 0 *)
Definition runZ (hv : variant) (sizeOf : Z -> Z) (lim : Z) (ops : list (op Z Z)) : list (event Z Z) :=
  run_new Z Z Z.eqb 0 0 sizeOf hv lim ops.
Definition refZ (sizeOf : Z -> Z) (lim : Z) (ops : list (op Z Z)) : list (event Z Z) :=
  map ok_event (s2_run Z Z Z.eqb 0 sizeOf lim [] ops).

Definition unit_size (_ : Z) : Z := 1.

Definition f2_history : list (op Z Z) :=
  [OPut 0 10; OPut 1 11; OPut 2 12; OPut 3 13; OPut 4 14; OPut 5 15; OPut 6 16; OPut 7 17;
   OGet 4; ORemove 3; OGet 4; OPut 3 23; OPut 2 22; OPut 8 18; OPut 1 21].

(* the last call, Put(1,21): the pinned model evicts key 6 (last used by its Put, the 7th call);
   the least recently used entry is key 5 (6th call), which is what the reference evicts *)
Lemma f2_last_call :
  nth 14 (runZ pinned unit_size 7 f2_history) EFuel = EOk (RBool true) [(6, 16)] /\
  nth 14 (refZ unit_size 7 f2_history) EFuel = EOk (RBool true) [(5, 15)].
Proof. split; vm_compute; reflexivity. Qed.

Lemma f2_differs : runZ pinned unit_size 7 f2_history <> refZ unit_size 7 f2_history.
Proof. vm_compute. discriminate. Qed.

(* with the repaired heap the same history is answered as the reference does *)
Lemma f2_repaired_agrees : runZ repaired unit_size 7 f2_history = refZ unit_size 7 f2_history.
Proof. vm_compute. reflexivity. Qed.

Lemma victim_refuted :
  exists (lim : Z) (ops : list (op Z Z)),
    0 < lim /\ runZ pinned unit_size lim ops <> refZ unit_size lim ops.
Proof. exists 7, f2_history. split; [reflexivity | exact f2_differs]. Qed.
