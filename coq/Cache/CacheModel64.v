(* The size arithmetic of cache.go in 64-bit wrap-around arithmetic.  Definitions only.

   A copy of the Cache-level functions of CacheModel.v in which every result of an int64
   computation on sizes goes through [wrap]:
     c.size -= c.sizeOf(old)      (Put's replace branch, Remove, Clear, Put's eviction loop)
     c.limit - valSize            (the right operand of Put's loop test)
     c.size += valSize            (end of Put)
   With [wrap] = the identity this IS the model of CacheModel.v (CacheInt.run_w_id, proved), with
   [wrap] = [wrap64] it is what the Go code computes.  CacheInt.run64_eq shows the two agree for
   every int64 limit > 0 and every size function with values in [0, 2^63).
   Not wrapped (assumptions, stated in props.d): count (an int, bounded by the number of entries),
   the logical clock (an int64 incremented once per Put / successful Get). *)
From Coq Require Import ZArith List Bool.
Import ListNotations.
From Mds Require Import Gen.CacheIdx Gen.CacheLru Heapq.HeapqModel Cache.CacheSpec Cache.CacheModel.
Local Open Scope Z_scope.

Definition wrap64 (z : Z) : Z := (z + 2 ^ 63) mod 2 ^ 64 - 2 ^ 63.

Section Cache64.
Variables K V : Type.
Variable keqb : K -> K -> bool.
Variable kzero : K.
Variable vzero : V.
Variable sizeOf : V -> Z.
Variable hv : variant.
Variable wrap : Z -> Z.

Notation lru := (lru K V).
Notation cache := (cache K V).
Notation lru_check := (lru_check K V keqb vzero).
Notation lru_remove := (lru_remove K V keqb hv).
Notation lru_evict := (lru_evict K V keqb hv).
Notation lru_store := (lru_store K V keqb hv).
Notation fires := (fires K V).

(* the loop test c.size > c.limit-valSize with the subtraction made explicit *)
Definition put_continue_w (size lim valSize : Z) : bool := CacheIdx.put_evict_cmp size (wrap (lim - valSize)).

Fixpoint put_evict_loop_w (fuel : nat) (s : lru) (cnt size lim valSize : Z) (log : evlog K V) : cres (lru * Z * Z * evlog K V) :=
  match fuel with
  | O => CFuel
  | S f =>
    if put_continue_w size lim valSize then
      cdo (s', e) <- lru_evict s;
      put_evict_loop_w f s' (CacheIdx.put_evict_count cnt) (wrap (CacheIdx.put_evict_size size (sizeOf (snd e)))) lim valSize
                       (log ++ fires CacheIdx.put_ncalls_onEvict 2 e)
    else COk (s, cnt, size, log)
  end.

Definition cache_put_w (c : cache) (k : K) (val : V) : cres (cache * bool * evlog K V) :=
  let valSize := sizeOf val in
  if CacheIdx.put_refuse valSize (limit c) then COk (c, CacheIdx.put_refused_result, [])
  else
    cdo (old, ok) <- lru_check (store c) k;
    cdo (s1, size1, cnt1, log1) <-
      (if ok : bool then
         cdo s' <- lru_remove (store c) k;
         COk (s', wrap (CacheIdx.put_replace_size (csize c) (sizeOf old)), CacheIdx.put_replace_count (count c),
              fires CacheIdx.put_ncalls_onEvict 1 (k, old))
       else COk (store c, csize c, count c, []));
    cdo (s2, cnt2, size2, log2) <-
      put_evict_loop_w (S (length (data (access s1)))) s1 cnt1 size1 (limit c) valSize log1;
    cdo s3 <- lru_store s2 k val;
    COk ({| store := s3; csize := wrap (CacheIdx.put_final_size size2 valSize); count := CacheIdx.put_final_count cnt2; limit := limit c |},
         CacheIdx.put_stored_result, log2).

Definition cache_remove_w (c : cache) (k : K) : cres (cache * bool * evlog K V) :=
  cdo (old, ok) <- lru_check (store c) k;
  if ok : bool then
    cdo s' <- lru_remove (store c) k;
    COk ({| store := s'; csize := wrap (CacheIdx.remove_size (csize c) (sizeOf old)); count := CacheIdx.remove_count (count c); limit := limit c |},
         CacheIdx.remove_found_result, fires CacheIdx.remove_ncalls_onEvict 1 (k, old))
  else COk (c, CacheIdx.remove_absent_result, []).

Fixpoint clear_loop_w (fuel : nat) (s : lru) (size cnt : Z) (log : evlog K V) : cres (lru * Z * Z * evlog K V) :=
  match fuel with
  | O => CFuel
  | S f =>
    if CacheIdx.clear_continue cnt then
      cdo (s', e) <- lru_evict s;
      clear_loop_w f s' (wrap (CacheIdx.clear_size size (sizeOf (snd e)))) (CacheIdx.clear_count cnt)
                   (log ++ fires CacheIdx.clear_ncalls_onEvict 1 e)
    else COk (s, size, cnt, log)
  end.

Definition cache_clear_w (c : cache) : cres (cache * evlog K V) :=
  cdo (s, size, cnt, log) <- clear_loop_w (S (length (data (access (store c))))) (store c) (csize c) (count c) [];
  if CacheIdx.clear_inconsistent size cnt then CPanic PClearCheck
  else COk ({| store := s; csize := size; count := cnt; limit := limit c |}, log).

Definition step_w (c : cache) (o : op K V) : cres (cache * (out V * evlog K V)) :=
  match o with
  | OPut k v => cdo (c', b, log) <- cache_put_w c k v; COk (c', (RBool b, log))
  | OGet k => cdo (c', r) <- cache_get K V keqb kzero vzero hv c k; COk (c', (RGet (fst r) (snd r), []))
  | OHas k => cdo b <- cache_has K V keqb vzero c k; COk (c, (RBool b, []))
  | ORemove k => cdo (c', b, log) <- cache_remove_w c k; COk (c', (RBool b, log))
  | OClear => cdo (c', log) <- cache_clear_w c; COk (c', (RUnit, log))
  | OLen => COk (c, (RNum (cache_len K V c), []))
  | OSize => COk (c, (RNum (cache_size K V c), []))
  end.

Fixpoint run_w (c : cache) (ops : list (op K V)) : list (event K V) :=
  match ops with
  | [] => []
  | o :: ops' =>
    match step_w c o with
    | COk (c', (r, log)) => EOk r log :: run_w c' ops'
    | CPanic k => [EPanic k]
    | CFuel => [EFuel]
    end
  end.

Definition run_new_w (lim : Z) (ops : list (op K V)) : list (event K V) :=
  match cache_new K V lim with
  | COk c => run_w c ops
  | CPanic k => [EPanic k]
  | CFuel => [EFuel]
  end.

End Cache64.
