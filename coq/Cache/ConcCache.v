(* C09 — the small-step model of Conc.v instantiated with cache.Cache.

   The sequential object is the C08 model (one call = [CacheModel.step]).  The locking shape of every
   method is read from Gen/CacheLocks.v, which the translator's "cachelocks" generator rebuilds from
   cache/cache.go on every run: per method the list of parts of its body (ConcShape.v).
   A method whose parts are exactly [Body Excl] (resp. [Body Shar]) is ONE exclusive (resp. shared)
   critical section, and its section is the C08 step of the call.  For any other shape (a call of
   another locking method before the Lock, a Lock taken late, an explicit Unlock in the middle, no
   lock at all, ...) the C08 model has no description of the pieces; such a method is given the shape
   [Unl] — its body runs without any protection — and [all_atomic] is false, so none of the
   theorems below is available for that source.  (Conc.v itself runs operations with several
   sections; ConcRefute.v does so for a check-then-act Remove.)

   [all_atomic] demands, of the CURRENT source:
     - the mutex field is a sync.Mutex or a sync.RWMutex;
     - each of Put, Get, Has, Remove, Clear, Len, Size is one critical section, exclusive, or
       shared if the method is one of Has, Len, Size — the methods that the C08 model proves to
       leave the cache as it is ([read_only_ok]); Get is not among them: it moves the entry in the
       recency order ([get_changes_state]);
     - every other method of Cache that touches the receiver is one exclusive critical section. *)
From Coq Require Import ZArith List Bool Lia String.
Import ListNotations.
From Mds Require Import Gen.CacheLocks Heapq.HeapqModel Cache.CacheSpec Cache.CacheModel Cache.CacheLruProofs
  Cache.CacheTheorems Cache.CacheTheoremsS2 Cache.ConcShape Cache.Conc.
Local Open Scope Z_scope.

Definition meth_name {K V} (o : op K V) : string :=
  match o with
  | OPut _ _ => "Put" | OGet _ => "Get" | OHas _ => "Has" | ORemove _ => "Remove"
  | OClear => "Clear" | OLen => "Len" | OSize => "Size"
  end%string.

Fixpoint lookup (n : string) (l : list (string * list part)) : list part :=
  match l with
  | [] => []          (* a method the translator did not find: no critical section *)
  | (m, ps) :: r => if String.eqb m n then ps else lookup n r
  end.

(* the critical sections of a call in the current source *)
Definition method_shape {K V} (o : op K V) : list mode :=
  match one_section (lookup (meth_name o) cache_methods) with
  | Some m => [m]
  | None => [Unl]
  end.

(* the methods that may run under the shared lock *)
Definition read_only_name (n : string) : bool :=
  (String.eqb n "Has" || String.eqb n "Len" || String.eqb n "Size")%string.

Definition method_ok (n : string) (ps : list part) : bool :=
  match one_section ps with
  | Some Excl => true
  | Some Shar => read_only_name n
  | _ => false
  end.

Definition mutex_ok : bool :=
  (String.eqb cache_mutex_type "sync.Mutex" || String.eqb cache_mutex_type "sync.RWMutex")%string.

Definition modelled_methods : list string := ["Put"; "Get"; "Has"; "Remove"; "Clear"; "Len"; "Size"]%string.

Definition all_atomic : bool :=
  mutex_ok &&
  forallb (fun n => method_ok n (lookup n cache_methods)) modelled_methods &&
  forallb (fun nm => method_ok (fst nm) (snd nm)) cache_methods.

Lemma all_atomic_ops : all_atomic = true -> forall K V (o : op K V),
  method_shape o = [Excl] \/ (method_shape o = [Shar] /\ read_only_name (meth_name o) = true).
Proof.
  unfold all_atomic. intro H. apply andb_prop in H. destruct H as [H _]. apply andb_prop in H. destruct H as [_ H].
  unfold modelled_methods in H. cbn [forallb] in H.
  repeat (apply andb_prop in H; let H1 := fresh "M" in destruct H as [H1 H]).
  assert (G : forall n, method_ok n (lookup n cache_methods) = true ->
            forall sh, sh = match one_section (lookup n cache_methods) with Some m => [m] | None => [Unl] end ->
            sh = [Excl] \/ (sh = [Shar] /\ read_only_name n = true)).
  { intros n Hn sh ->. unfold method_ok in Hn. destruct (one_section (lookup n cache_methods)) as [[| |]|]; try discriminate; auto. }
  intros K V o. destruct o; unfold method_shape; cbn [meth_name]; eapply G; try reflexivity; assumption.
Qed.

Section Inst.
Variables K V : Type.
Variable keqb : K -> K -> bool.
Hypothesis keqb_spec : forall a b, keqb a b = true <-> a = b.
Variable kzero : K.
Variable vzero : V.
Variable sizeOf : V -> Z.
Variable hv : variant.
Variable lim : Z.
Hypothesis lim_pos : 0 < lim.

Notation step := (step K V keqb kzero vzero sizeOf hv).
Notation run := (run K V keqb kzero vzero sizeOf hv).
Notation exec := (exec K V keqb kzero vzero sizeOf hv).

Definition cres_t : Type := option (out V * evlog K V).

(* the sequential object: one call of the C08 model; None = the call panicked (never happens) *)
Definition cache_seq (c : cache K V) (o : op K V) : cache K V * cres_t :=
  match step c o with
  | COk (c', r) => (c', Some r)
  | _ => (c, None)
  end.

Definition cache_init : cache K V := {| store := lru_new K V; csize := 0; count := 0; limit := lim |}.

(* the one section of a call is the C08 step; a call returns what its section computed *)
Definition csec (o : op K V) (k : nat) (l : cres_t) (s : cache K V) : cache K V * cres_t := cache_seq s o.
Definition cfin (o : op K V) (l : cres_t) : cres_t := l.

Notation cseq := (seq (cache K V) (op K V) cres_t cres_t method_shape csec None cfin).
Notation creach := (reach (cache K V) (op K V) cres_t cres_t method_shape csec None cfin cache_init).
Notation clins := (lins (op K V) cres_t).
Notation clegal := (legal (cache K V) (op K V) cres_t cres_t method_shape csec None cfin).
Notation crun_seq := (run_seq (cache K V) (op K V) cres_t cres_t method_shape csec None cfin).
Notation ctrace := (trace (cache K V) (op K V) cres_t cres_t).

(* Has, Len and Size leave the cache as it is *)
Lemma read_only_ok (o : op K V) : read_only_name (meth_name o) = true -> forall s, fst (cache_seq s o) = s.
Proof.
  destruct o; cbn; try discriminate; intros _ s; unfold cache_seq; cbn [CacheModel.step].
  - destruct (cache_has K V keqb vzero s k); reflexivity.
  - reflexivity.
  - reflexivity.
Qed.

Hypothesis HA : all_atomic = true.

Lemma atomic_ops : forall o : op K V,
  method_shape o = [Excl] \/ (method_shape o = [Shar] /\ forall s, fst (csec o 0 None s) = s).
Proof.
  intro o. destruct (all_atomic_ops HA K V o) as [H|[H1 H2]]; [left; exact H|right].
  split; [exact H1|]. intro s. unfold csec. apply read_only_ok. exact H2.
Qed.

(* with one section per call, the sequential object of the small-step model is the C08 step *)
Lemma cseq_eq s o : cseq s o = cache_seq s o.
Proof.
  unfold seq. destruct (atomic_ops o) as [H|[H _]]; rewrite H; cbn; unfold csec, cfin; destruct (cache_seq s o); reflexivity.
Qed.

Lemma legal_run : forall L c obs,
  run c (map fst L) = map ok_event obs -> clegal c L ->
  map snd L = map Some obs /\ exec c (map fst L) = Some (crun_seq c L).
Proof.
  induction L as [|[o r] L IH]; intros c obs HR HL.
  - destruct obs; [split; reflexivity|discriminate].
  - cbn [map fst CacheModel.run CacheModel.exec] in *. cbn [legal run_seq] in *. rewrite cseq_eq in *. unfold cache_seq in *.
    destruct (step c o) as [[c' [r0 log]]|k|] eqn:HS.
    + destruct obs as [|[r1 log1] obs]; [discriminate|]. cbn [map ok_event fst snd] in HR.
      injection HR as E1 E2 HR. subst r1 log1. destruct HL as [Hr HL]. cbn [fst snd] in *.
      destruct (IH c' obs HR HL) as [A B]. split; [cbn [map snd]; rewrite <- Hr, A; reflexivity|exact B].
    + destruct obs as [|x [|y obs]]; discriminate.
    + destruct obs as [|x [|y obs]]; discriminate.
Qed.

Lemma legal_app_l : forall L1 L2 c, clegal c (L1 ++ L2) -> clegal c L1 /\ clegal (crun_seq c L1) L2.
Proof.
  induction L1 as [|[o r] L1 IH]; intros L2 c H; cbn in *; [split; [exact I|exact H]|].
  destruct H as [H1 H2]. destruct (IH _ _ H2) as [A B]. split; [split; assumption|exact B].
Qed.

(* ---- linearizability ---- *)
(* Every history of the model is linearizable (Herlihy and Wing) w.r.t. the C08 model *)
Theorem cache_linearizable :
  forall progs c, creach progs c ->
    linearizable (cache K V) (op K V) cres_t cres_t method_shape csec None cfin cache_init
      (history (op K V) cres_t (ctrace c)).
Proof.
  intros progs c HR. exact (atomic_linearizable _ _ _ _ method_shape csec None cfin cache_init atomic_ops progs c HR).
Qed.

Theorem cache_ids_unique :
  forall progs c, creach progs c -> ids_unique (op K V) cres_t (history (op K V) cres_t (ctrace c)).
Proof.
  intros progs c HR. exact (atomic_ids_unique _ _ _ _ method_shape csec None cfin cache_init atomic_ops progs c HR).
Qed.

(* legality w.r.t. the small-step model's sequential object is legality w.r.t. the C08 step, call by call *)
Theorem cache_legal_is_c08 : forall L c,
  clegal c L <->
  (fix lg (c : cache K V) (L : list (op K V * cres_t)) : Prop :=
     match L with
     | [] => True
     | (o, r) :: L' => snd (cache_seq c o) = r /\ lg (fst (cache_seq c o)) L'
     end) c L.
Proof.
  induction L as [|[o r] L IH]; intro c; cbn [legal]; [tauto|]. rewrite cseq_eq, IH. tauto.
Qed.

Hypothesis size_nonneg : forall v, 0 <= sizeOf v.

(* ---- what every legal sequential run (hence every linearization) looks like ---- *)
(* it is a behaviour of the policy-agnostic reference S1: no call panics, every departing entry is
   reported exactly once, answers and accounting are those of C08 *)
Theorem cache_legal_s1 : forall L, clegal cache_init L ->
  exists obs, map snd L = map Some obs /\ s1_accepts K V keqb vzero sizeOf lim [] (map fst L) obs.
Proof.
  intros L HL.
  destruct (refines_S1 K V keqb keqb_spec kzero vzero sizeOf size_nonneg hv lim (map fst L) lim_pos) as (obs & HRun & HAcc).
  unfold run_new in HRun. rewrite (cache_new_ok K V lim lim_pos) in HRun.
  exists obs. split; [|exact HAcc]. exact (proj1 (legal_run _ _ _ HRun HL)).
Qed.

(* the state in which a call of a legal run is made is a consistent cache *)
Lemma legal_call_state L o r : clegal cache_init L -> In (o, r) L ->
  exists c, consistent K V keqb sizeOf lim c /\ r = snd (cache_seq c o).
Proof.
  intros HL Hin. apply in_split in Hin. destruct Hin as (L1 & L2 & HE). rewrite HE in HL.
  destruct (legal_app_l _ _ _ HL) as [HL1 HL2]. cbn [legal] in HL2. destruct HL2 as [Hr _]. rewrite cseq_eq in Hr.
  destruct (refines_S1 K V keqb keqb_spec kzero vzero sizeOf size_nonneg hv lim (map fst L1) lim_pos) as (obs & HRun & _).
  unfold run_new in HRun. rewrite (cache_new_ok K V lim lim_pos) in HRun.
  destruct (legal_run _ _ _ HRun HL1) as [_ HEx].
  exists (crun_seq cache_init L1). split; [|symmetry; exact Hr].
  exact (reachable_consistent K V keqb keqb_spec kzero vzero sizeOf size_nonneg hv lim _ _ lim_pos HEx).
Qed.

(* ---- what the threads observe ---- *)
Lemma observed_in_lins progs c t n o r : creach progs c ->
  In (ERes (op K V) cres_t t n o r) (ctrace c) -> clegal cache_init (clins (ctrace c)) /\ In (o, r) (clins (ctrace c)).
Proof.
  intros HR Hin.
  destruct (atomic_trace _ _ _ _ method_shape csec None cfin cache_init atomic_ops progs c HR) as (HL & _ & HO).
  split; [exact HL|exact (HO t n o r Hin)].
Qed.

(* every Size observed by any thread is within the limit *)
Theorem cache_conc_size_le_limit :
  forall progs c t n r, creach progs c -> In (ERes (op K V) cres_t t n OSize r) (ctrace c) ->
    exists z, r = Some (RNum z, []) /\ 0 <= z <= lim.
Proof.
  intros progs c t n r HR Hin. destruct (observed_in_lins _ _ _ _ _ _ HR Hin) as [HL HI].
  destruct (legal_call_state _ _ _ HL HI) as (s & HC & ->).
  destruct HC as (_ & _ & _ & _ & _ & Hb & _).
  exists (cache_size K V s). split; [reflexivity|exact Hb].
Qed.

(* every Len observed by any thread is the number of entries of a consistent cache: never negative *)
Theorem cache_conc_len_nonneg :
  forall progs c t n r, creach progs c -> In (ERes (op K V) cres_t t n OLen r) (ctrace c) ->
    exists z, r = Some (RNum z, []) /\ 0 <= z.
Proof.
  intros progs c t n r HR Hin. destruct (observed_in_lins _ _ _ _ _ _ HR Hin) as [HL HI].
  destruct (legal_call_state _ _ _ HL HI) as (s & HC & ->).
  destruct HC as (_ & _ & _ & _ & Hlen & _).
  exists (cache_len K V s). split; [reflexivity|]. rewrite Hlen. unfold len. lia.
Qed.

End Inst.

(* under a heap without the two known defects (F1, F2) every legal sequential run, hence every
   linearization, returns exactly what the reference LRU returns: least recently used victims *)
Theorem cache_legal_s2_sound_heap :
  forall (K V : Type) (keqb : K -> K -> bool),
    (forall a b, keqb a b = true <-> a = b) ->
  forall (kzero : K) (vzero : V) (sizeOf : V -> Z) (hv : variant) (lim : Z),
    0 < lim -> all_atomic = true -> parent_halves hv = false -> pop_no_siftup hv = false ->
  forall L, legal (cache K V) (op K V) (cres_t K V) (cres_t K V) method_shape (csec K V keqb kzero vzero sizeOf hv) None (cfin K V)
              (cache_init K V lim) L ->
    map snd L = map Some (s2_run K V keqb vzero sizeOf lim [] (map fst L)).
Proof.
  intros K V keqb Hk kzero vzero sizeOf hv lim Hl HA H1 H2 L HL.
  pose proof (refines_S2_sound_heap K V keqb Hk kzero vzero sizeOf hv H1 H2 lim (map fst L) Hl) as HRun.
  unfold run_new in HRun. rewrite (cache_new_ok K V lim Hl) in HRun.
  exact (proj1 (legal_run K V keqb kzero vzero sizeOf hv HA _ _ _ HRun HL)).
Qed.

(* Get is not read-only: it may not run under the shared lock *)
Lemma get_changes_state :
  exists c : cache Z Z, fst (cache_seq Z Z Z.eqb 0 0 (fun _ => 1) pinned c (OGet 1)) <> c.
Proof.
  exists (fst (cache_seq Z Z Z.eqb 0 0 (fun _ => 1) pinned (cache_init Z Z 2) (OPut 1 10))).
  vm_compute. intro H. discriminate H.
Qed.
