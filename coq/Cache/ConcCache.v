(* C09 — the small-step model of Conc.v instantiated with cache.Cache: the sequential object is the
   C08 model, which methods are lock-wrapped is read from Gen/CacheLocks.v (regenerated from
   cache/cache.go on every run). *)
From Coq Require Import ZArith List Bool Lia String.
Import ListNotations.
From Mds Require Import Gen.CacheLocks Heapq.HeapqModel Cache.CacheSpec Cache.CacheModel Cache.CacheLruProofs
  Cache.CacheTheorems Cache.Conc.
Local Open Scope Z_scope.

Definition meth_name {K V} (o : op K V) : string :=
  match o with
  | OPut _ _ => "Put" | OGet _ => "Get" | OHas _ => "Has" | ORemove _ => "Remove"
  | OClear => "Clear" | OLen => "Len" | OSize => "Size"
  end%string.

Fixpoint lookup (n : string) (l : list (string * bool)) : bool :=
  match l with
  | [] => false      (* a method the translator did not find is not lock-wrapped *)
  | (m, b) :: r => if String.eqb m n then b else lookup n r
  end.

(* is the method of this call lock-wrapped in the current source? *)
Definition method_locked {K V} (o : op K V) : bool := lookup (meth_name o) cache_methods.

(* every public method of Cache that the model covers runs entirely under the mutex *)
Definition all_locked : bool :=
  forallb (fun n => lookup n cache_methods) ["Put"; "Get"; "Has"; "Remove"; "Clear"; "Len"; "Size"]%string.

Lemma all_locked_ops : all_locked = true -> forall K V (o : op K V), method_locked o = true.
Proof.
  unfold all_locked. cbn [forallb]. intro H.
  repeat (apply andb_prop in H; let H1 := fresh in destruct H as [H1 H]).
  intros K V o. destruct o; unfold method_locked; cbn [meth_name]; assumption.
Qed.

Section Inst.
Variables K V : Type.
Variable keqb : K -> K -> bool.
Hypothesis keqb_spec : forall a b, keqb a b = true <-> a = b.
Variable kzero : K.
Variable vzero : V.
Variable sizeOf : V -> Z.
Hypothesis size_nonneg : forall v, 0 <= sizeOf v.
Variable hv : variant.
Variable lim : Z.
Hypothesis lim_pos : 0 < lim.

Notation step := (step K V keqb kzero vzero sizeOf hv).
Notation run := (run K V keqb kzero vzero sizeOf hv).
Notation exec := (exec K V keqb kzero vzero sizeOf hv).

(* the sequential object: one call of the C08 model; None = the call panicked (never happens) *)
Definition cache_seq (c : cache K V) (o : op K V) : cache K V * option (out V * evlog K V) :=
  match step c o with
  | COk (c', r) => (c', Some r)
  | _ => (c, None)
  end.

Definition cache_init : cache K V := {| store := lru_new K V; csize := 0; count := 0; limit := lim |}.

Notation creach := (reach (cache K V) (op K V) (option (out V * evlog K V)) cache_seq method_locked cache_init).
Notation clins := (lins (op K V) (option (out V * evlog K V))).
Notation clegal := (legal (cache K V) (op K V) (option (out V * evlog K V)) cache_seq).
Notation crun_seq := (run_seq (cache K V) (op K V) (option (out V * evlog K V)) cache_seq).

Lemma legal_run : forall L c obs,
  run c (map fst L) = map ok_event obs -> clegal c L ->
  map snd L = map Some obs /\ exec c (map fst L) = Some (crun_seq c L).
Proof.
  induction L as [|[o r] L IH]; intros c obs HR HL.
  - destruct obs; [split; reflexivity|discriminate].
  - cbn [map fst CacheModel.run CacheModel.exec] in *. cbn [legal run_seq] in *. unfold cache_seq in *.
    destruct (step c o) as [[c' [r0 log]]|k|] eqn:HS.
    + destruct obs as [|[r1 log1] obs]; [discriminate|]. cbn [map ok_event fst snd] in HR.
      injection HR as E1 E2 HR. subst r1 log1. destruct HL as [Hr HL]. cbn [fst snd] in *.
      destruct (IH c' obs HR HL) as [A B]. split; [cbn [map snd]; rewrite <- Hr, A; reflexivity|exact B].
    + destruct obs as [|x [|y obs]]; discriminate.
    + destruct obs as [|x [|y obs]]; discriminate.
Qed.

Lemma legal_app_l : forall L1 L2 c, clegal c (L1 ++ L2) -> clegal c L1 /\ clegal (crun_seq c L1) L2.
Proof.
  induction L1 as [|[o r] L1 IH]; intros L2 c H; cbn in *; [split; [exact I|exact H]|].
  destruct H as [H1 H2]. destruct (IH _ _ H2) as [A B]. split; [split; assumption|exact B].
Qed.

(* Every history of the model with all methods lock-wrapped is linearizable w.r.t. the C08 model *)
Theorem cache_linearizable : all_locked = true ->
  forall progs c, creach progs c ->
    linearizable (cache K V) (op K V) (option (out V * evlog K V)) cache_seq cache_init
      (history (op K V) (option (out V * evlog K V)) (trace _ _ _ c)).
Proof.
  intros HA progs c HR. apply (all_locked_linearizable _ _ _ cache_seq method_locked cache_init (all_locked_ops HA K V) progs c HR).
Qed.

(* ... and the calls in linearization order are a behaviour of the policy-agnostic reference S1:
   no call panics, every departing entry is reported exactly once, answers and accounting are
   those of C08 *)
Theorem cache_linearization_s1 : all_locked = true ->
  forall progs c, creach progs c ->
    exists obs, map snd (clins (trace _ _ _ c)) = map Some obs /\
                s1_accepts K V keqb vzero sizeOf lim [] (map fst (clins (trace _ _ _ c))) obs.
Proof.
  intros HA progs c HR.
  destruct (all_locked_trace _ _ _ cache_seq method_locked cache_init (all_locked_ops HA K V) progs c HR) as (HL & _ & _).
  destruct (refines_S1 K V keqb keqb_spec kzero vzero sizeOf size_nonneg hv lim (map fst (clins (trace _ _ _ c))) lim_pos) as (obs & HRun & HAcc).
  unfold run_new in HRun. rewrite (cache_new_ok K V lim lim_pos) in HRun.
  exists obs. split; [|exact HAcc]. exact (proj1 (legal_run _ _ _ HRun HL)).
Qed.

(* every Size observed by any thread is within the limit *)
Theorem cache_conc_size_le_limit : all_locked = true ->
  forall progs c r, creach progs c -> In (OSize, r) (clins (trace _ _ _ c)) ->
    exists n, r = Some (RNum n, []) /\ 0 <= n <= lim.
Proof.
  intros HA progs c r HR Hin.
  destruct (all_locked_trace _ _ _ cache_seq method_locked cache_init (all_locked_ops HA K V) progs c HR) as (HL & _ & _).
  apply in_split in Hin. destruct Hin as (L1 & L2 & HE). rewrite HE in HL.
  destruct (legal_app_l _ _ _ HL) as [HL1 HL2]. cbn [legal] in HL2. destruct HL2 as [Hr _].
  destruct (refines_S1 K V keqb keqb_spec kzero vzero sizeOf size_nonneg hv lim (map fst L1) lim_pos) as (obs & HRun & _).
  unfold run_new in HRun. rewrite (cache_new_ok K V lim lim_pos) in HRun.
  destruct (legal_run _ _ _ HRun HL1) as [_ HEx].
  pose proof (reachable_consistent K V keqb keqb_spec kzero vzero sizeOf size_nonneg hv lim _ _ lim_pos HEx) as (_ & _ & _ & _ & _ & Hb & _).
  exists (cache_size K V (crun_seq cache_init L1)). split; [|exact Hb].
  rewrite <- Hr. unfold cache_seq. reflexivity.
Qed.

End Inst.
