(* Cache layer, every heap variant: each call of the model is a behaviour of the policy-agnostic
   reference S1 (answers, values, Len, Size, refused Put, callback log), the accounting invariant
   holds in every reachable state, [present] agrees with the heap, and nothing panics.
   From the three heap facts of CacheLruProofs (Section hypotheses). *)
From Coq Require Import ZArith List Bool Lia Permutation.
Import ListNotations.
From Mds Require Import Gen.CacheIdx Gen.CacheLru Heapq.HeapqModel Cache.CacheSpec Cache.CacheModel Cache.CacheFacts Cache.CacheLruProofs.
Local Open Scope Z_scope.

Section S1.
Variables K V : Type.
Variable keqb : K -> K -> bool.
Hypothesis keqb_spec : forall a b, keqb a b = true <-> a = b.
Variable kzero : K.
Variable vzero : V.
Variable sizeOf : V -> Z.
Hypothesis size_nonneg : forall v, 0 <= sizeOf v.
Variable lim : Z.
Hypothesis lim_pos : 0 < lim.
Variable hv : variant.
Hypothesis HF_add : heap_add_fact K V keqb hv.
Hypothesis HF_remove : heap_remove_fact K V keqb hv.
Hypothesis HF_pop : heap_pop_fact K V keqb hv.

Notation prio := (prio K V).
Notation lru := (lru K V).
Notation cache := (cache K V).
Notation linv := (linv K V keqb).
Notation find := (@find K V keqb).
Notation del := (@del K V keqb).
Notation total := (@total K V sizeOf).
Notation lru_check := (lru_check K V keqb vzero).
Notation lru_access := (lru_access K V keqb kzero vzero hv).
Notation lru_store := (lru_store K V keqb hv).
Notation lru_remove := (lru_remove K V keqb hv).
Notation lru_evict := (lru_evict K V keqb hv).
Notation put_evict_loop := (put_evict_loop K V keqb sizeOf hv).
Notation clear_loop := (clear_loop K V keqb sizeOf hv).
Notation step := (step K V keqb kzero vzero sizeOf hv).
Notation run := (run K V keqb kzero vzero sizeOf hv).
Notation exec := (exec K V keqb kzero vzero sizeOf hv).
Notation s1_evict := (s1_evict K V keqb sizeOf lim).
Notation s1_clear := (s1_clear K V keqb).
Notation s1_step := (s1_step K V keqb vzero sizeOf lim).
Notation s1_accepts := (s1_accepts K V keqb vzero sizeOf lim).
Notation hd_ := (fun c : cache => data (access (store c))).

(* the accounting invariant of the Cache *)
Definition cinv (c : cache) : Prop :=
  linv (store c) /\ csize c = total (ents (hd_ c)) /\ count c = len (hd_ c) /\ csize c <= lim /\ limit c = lim.

Definition R1 (c : cache) (l : entries K V) : Prop := cinv c /\ Permutation l (ents (hd_ c)).

Lemma gtb_true a b : a >? b = true <-> b < a.
Proof. rewrite Z.gtb_ltb. apply Z.ltb_lt. Qed.
Lemma gtb_false a b : a >? b = false <-> a <= b.
Proof. rewrite Z.gtb_ltb. rewrite Z.ltb_ge. reflexivity. Qed.

Lemma nodup_l (s : lru) l : linv s -> Permutation l (ents (data (access s))) -> NoDup (keys l).
Proof.
  intros (ND & _) P. apply (nodup_keys_perm K V _ _ (Permutation_sym P)). rewrite keys_ents. exact ND.
Qed.

Lemma len_perm (d d' : list prio) e : Permutation d (e :: d') -> len d' = len d - 1.
Proof. intro P. apply Permutation_length in P. cbn in P. unfold len. lia. Qed.

Lemma total_ents_perm (d d' : list prio) e :
  Permutation d (e :: d') -> total (ents d) = sizeOf (value e) + total (ents d').
Proof. intro P. rewrite (total_perm K V sizeOf _ _ (ents_perm K V _ _ P)). reflexivity. Qed.

(* ---- the eviction loop of Put ---- *)
Lemma put_loop_spec fuel : forall (s : lru) cnt size log l vs,
  linv s -> Permutation l (ents (data (access s))) ->
  (length (data (access s)) < fuel)%nat ->
  cnt = len (data (access s)) -> size = total (ents (data (access s))) -> vs <= lim ->
  exists s' ev l',
    put_evict_loop fuel s cnt size lim vs log =
      COk (s', len (data (access s')), total (ents (data (access s'))), log ++ ev) /\
    s1_evict l vs (map fst ev) = Some (l', ev) /\ linv s' /\ Permutation l' (ents (data (access s'))) /\
    total (ents (data (access s'))) + vs <= lim /\ incl (pkeys (data (access s'))) (pkeys (data (access s))) /\
    clock s' = clock s /\ qcmp (access s') = qcmp (access s).
Proof.
  induction fuel as [|f IH]; intros s cnt size log l vs LI P Hf Hc Hn Hv; [lia|].
  cbn [CacheModel.put_evict_loop]. unfold put_evict_continue.
  destruct (size >? lim - vs) eqn:G.
  - apply gtb_true in G.
    destruct (get (data (access s)) 0) as [e|] eqn:Hget.
    2:{ apply get_nil_0 in Hget. rewrite Hget in Hn. cbn in Hn. lia. }
    destruct (evict_spec K V keqb keqb_spec hv HF_pop s e LI Hget) as (s1 & HE & LI1 & P1 & Hck & Hq).
    rewrite HE. cbn [cbind snd].
    assert (ND : NoDup (keys l)) by exact (nodup_l s l LI P).
    assert (P' : Permutation l ((key e, value e) :: ents (data (access s1)))).
    { rewrite P. exact (ents_perm K V _ _ P1). }
    assert (F : find l (key e) = Some (value e)).
    { apply (find_In K V keqb keqb_spec); [exact ND|]. apply (Permutation_in _ (Permutation_sym P')). left. reflexivity. }
    destruct (IH s1 (put_evict_count cnt) (put_evict_size size (sizeOf (value e)))
                 (log ++ fires K V put_ncalls_onEvict 2 (key e, value e)) (del l (key e)) vs LI1) as (s' & ev & l' & HL & HS & LI' & PL & Hfit & Hinc & Hck' & Hq').
    + exact (del_perm_inv K V keqb keqb_spec _ _ _ _ ND P').
    + apply Permutation_length in P1. cbn in P1. lia.
    + unfold put_evict_count. rewrite (len_perm _ _ _ P1). lia.
    + unfold put_evict_size. rewrite (total_ents_perm _ _ _ P1) in Hn. lia.
    + exact Hv.
    + exists s', ((key e, value e) :: ev), l'. rewrite HL.
      split. { unfold fires, put_ncalls_onEvict. cbn. rewrite <- app_assoc. reflexivity. }
      split.
      { cbn [map fst CacheSpec.s1_evict].
        assert (G' : total l + vs >? lim = true).
        { apply gtb_true. rewrite (total_perm K V sizeOf _ _ P). lia. }
        rewrite G', F, HS. reflexivity. }
      split; [exact LI'|]. split; [exact PL|]. split; [exact Hfit|].
      split. { intros k Hk. apply Hinc in Hk. apply (Permutation_in _ (Permutation_sym (pkeys_perm K V _ _ P1))). right. exact Hk. }
      split; congruence.
  - apply gtb_false in G. exists s, [], l. rewrite app_nil_r. subst cnt size.
    split; [reflexivity|]. split.
    { cbn. assert (G' : total l + vs >? lim = false).
      { apply gtb_false. rewrite (total_perm K V sizeOf _ _ P). lia. }
      rewrite G'. reflexivity. }
    split; [exact LI|]. split; [exact P|]. split; [lia|]. split; [apply incl_refl|]. split; reflexivity.
Qed.

(* ---- the loop of Clear ---- *)
Lemma clear_loop_spec fuel : forall (s : lru) size cnt log l,
  linv s -> Permutation l (ents (data (access s))) ->
  (length (data (access s)) < fuel)%nat ->
  cnt = len (data (access s)) -> size = total (ents (data (access s))) ->
  exists s' ev,
    clear_loop fuel s size cnt log = COk (s', 0, 0, log ++ ev) /\
    s1_clear l (map fst ev) = Some ev /\ linv s' /\ data (access s') = [] /\
    clock s' = clock s /\ qcmp (access s') = qcmp (access s).
Proof.
  induction fuel as [|f IH]; intros s size cnt log l LI P Hf Hc Hs; [lia|].
  cbn [CacheModel.clear_loop]. unfold clear_continue.
  destruct (cnt >? 0) eqn:G.
  - apply gtb_true in G.
    destruct (get (data (access s)) 0) as [e|] eqn:Hget.
    2:{ apply get_nil_0 in Hget. rewrite Hget in Hc. cbn in Hc. lia. }
    destruct (evict_spec K V keqb keqb_spec hv HF_pop s e LI Hget) as (s1 & HE & LI1 & P1 & Hck & Hq).
    rewrite HE. cbn [cbind snd].
    assert (ND : NoDup (keys l)) by exact (nodup_l s l LI P).
    assert (P' : Permutation l ((key e, value e) :: ents (data (access s1)))).
    { rewrite P. exact (ents_perm K V _ _ P1). }
    assert (F : find l (key e) = Some (value e)).
    { apply (find_In K V keqb keqb_spec); [exact ND|]. apply (Permutation_in _ (Permutation_sym P')). left. reflexivity. }
    destruct (IH s1 (clear_size size (sizeOf (value e))) (clear_count cnt)
                 (log ++ fires K V clear_ncalls_onEvict 1 (key e, value e)) (del l (key e)) LI1) as (s' & ev & HL & HS & LI' & Hd & Hck' & Hq').
    + exact (del_perm_inv K V keqb keqb_spec _ _ _ _ ND P').
    + apply Permutation_length in P1. cbn in P1. lia.
    + unfold clear_count. rewrite (len_perm _ _ _ P1). lia.
    + unfold clear_size. rewrite (total_ents_perm _ _ _ P1) in Hs. lia.
    + exists s', ((key e, value e) :: ev). rewrite HL.
      split. { unfold fires, clear_ncalls_onEvict. cbn. rewrite <- app_assoc. reflexivity. }
      split. { cbn [map fst CacheSpec.s1_clear]. rewrite F, HS. reflexivity. }
      split; [exact LI'|]. split; [exact Hd|]. split; congruence.
  - apply gtb_false in G.
    assert (Hnil : data (access s) = []).
    { destruct (data (access s)); [reflexivity|]. unfold len in Hc. cbn [length] in Hc. lia. }
    exists s, []. rewrite app_nil_r. rewrite Hnil in *. cbn in Hs, Hc. subst.
    split; [reflexivity|]. split.
    { cbn in P. apply Permutation_sym in P. apply Permutation_nil in P. subst l. reflexivity. }
    split; [exact LI|]. split; [first [exact Hnil|reflexivity]|]. split; reflexivity.
Qed.

Local Arguments CacheModel.put_evict_loop : simpl never.
Local Arguments CacheModel.clear_loop : simpl never.

(* ---- one call ---- *)
Lemma step_s1 (c : cache) l o :
  R1 c l ->
  exists c' r log l',
    step c o = COk (c', (r, log)) /\ s1_step l o (map fst log) = Some (l', (r, log)) /\ R1 c' l'.
Proof.
  intros ((LI & Hsz & Hcnt & Hle & Hlim) & P).
  assert (CI : cinv c) by exact (conj LI (conj Hsz (conj Hcnt (conj Hle Hlim)))).
  assert (ND : NoDup (keys l)) by exact (nodup_l _ l LI P).
  assert (FP : forall k, find l k = find (ents (hd_ c)) k) by (intro k; exact (find_perm K V keqb keqb_spec _ _ k P ND)).
  destruct o as [k v|k|k|k| | |]; cbn [CacheModel.step].
  - (* Put *)
    unfold cache_put, put_refuse. change put_stored_result with true. change put_refused_result with false. rewrite Hlim.
    destruct (sizeOf v >? lim) eqn:G.
    { exists c, (RBool false), [], l. cbn. rewrite G. split; [reflexivity|]. split; [reflexivity|].
      split; [exact CI|exact P]. }
    apply gtb_false in G.
    rewrite (check_spec K V keqb keqb_spec vzero (store c) k LI).
    (* the common tail, from the store s1 in which k is absent *)
    assert (Tail : forall (s1 : lru) size1 cnt1 log1 l1,
      linv s1 -> Permutation l1 (ents (data (access s1))) -> ~ In k (pkeys (data (access s1))) ->
      cnt1 = len (data (access s1)) -> size1 = total (ents (data (access s1))) ->
      exists c' ev l2,
        (cdo (s2, cnt2, size2, log2) <-
           put_evict_loop (S (length (data (access s1)))) s1 cnt1 size1 lim (sizeOf v) log1;
         cdo s3 <- lru_store s2 k v;
         COk ({| store := s3; csize := put_final_size size2 (sizeOf v); count := put_final_count cnt2; limit := lim |}, true, log2))
        = COk (c', true, log1 ++ ev) /\
        s1_evict l1 (sizeOf v) (map fst ev) = Some (l2, ev) /\ R1 c' (l2 ++ [(k, v)])).
    { intros s1 size1 cnt1 log1 l1 LI1 P1 Nin1 Hc1 Hs1.
      destruct (put_loop_spec (S (length (data (access s1)))) s1 cnt1 size1 log1 l1 (sizeOf v) LI1 P1)
        as (s2 & ev & l2 & HL & HS & LI2 & P2 & Hfit & Hinc & _ & _); try assumption; try lia.
      assert (Nin2 : ~ In k (pkeys (data (access s2)))) by (intro H; apply Nin1; exact (Hinc _ H)).
      destruct (store_spec K V keqb keqb_spec hv HF_add s2 k v LI2 Nin2) as (s3 & HSt & LI3 & P3 & _ & _).
      eexists. exists ev, l2. rewrite HL. cbn [cbind]. rewrite HSt. cbn [cbind].
      split; [reflexivity|]. split; [exact HS|].
      unfold R1, cinv. cbn [store csize count limit].
      pose proof (ents_perm K V _ _ P3) as PE.
      change (ents ({| lastAccess := clock s2 + 1; key := k; value := v |} :: data (access s2)))
        with ((k, v) :: ents (data (access s2))) in PE.
      assert (T3 : total (ents (data (access s3))) = sizeOf v + total (ents (data (access s2)))).
      { rewrite (total_perm K V sizeOf _ _ PE). reflexivity. }
      assert (L3 : len (data (access s3)) = len (data (access s2)) + 1).
      { apply Permutation_length in P3. cbn [length] in P3. unfold len. lia. }
      split.
      - split; [exact LI3|]. unfold put_final_size, put_final_count. rewrite T3, L3.
        split; [lia|]. split; [lia|]. split; [lia|reflexivity].
      - rewrite PE. rewrite <- P2. apply Permutation_sym. apply Permutation_cons_append. }
    destruct (find (ents (hd_ c)) k) as [old|] eqn:F; cbn [cbind].
    + destruct (remove_spec K V keqb keqb_spec hv HF_remove (store c) k old LI F) as (s1 & e & HR & LI1 & Hk & Hv & P1 & _ & _).
      rewrite HR. cbn [cbind].
      assert (P1' : Permutation l ((k, old) :: ents (data (access s1)))).
      { rewrite P. rewrite <- Hk, <- Hv. exact (ents_perm K V _ _ P1). }
      assert (Nin1 : ~ In k (pkeys (data (access s1)))).
      { destruct LI as (NDd & _). pose proof (Permutation_NoDup (pkeys_perm K V _ _ P1) NDd) as N. cbn in N.
        inversion N as [|? ? N1 N2]. rewrite <- Hk. exact N1. }
      destruct (Tail s1 (put_replace_size (csize c) (sizeOf old)) (put_replace_count (count c))
                     (fires K V put_ncalls_onEvict 1 (k, old)) (del l k) LI1) as (c' & ev & l2 & HT & HS & HR1).
      * exact (del_perm_inv K V keqb keqb_spec _ _ _ _ ND P1').
      * exact Nin1.
      * unfold put_replace_count. rewrite (len_perm _ _ _ P1). lia.
      * unfold put_replace_size. rewrite (total_ents_perm _ _ _ P1) in Hsz. rewrite Hv in Hsz. lia.
      * exists c', (RBool true), ((k, old) :: ev), (l2 ++ [(k, v)]).
        cbn beta in HT. rewrite HT. cbn [cbind].
        split. { unfold fires, put_ncalls_onEvict. cbn. reflexivity. }
        split; [|exact HR1].
        cbn [CacheSpec.s1_step map fst]. apply gtb_false in G. rewrite G. rewrite FP, F. cbn [tl]. rewrite HS. reflexivity.
    + assert (Nin : ~ In k (pkeys (hd_ c))).
      { apply (find_None_notin K V keqb keqb_spec) in F. rewrite keys_ents in F. exact F. }
      destruct (Tail (store c) (csize c) (count c) [] l LI P Nin Hcnt Hsz) as (c' & ev & l2 & HT & HS & HR1).
      exists c', (RBool true), ev, (l2 ++ [(k, v)]).
      rewrite HT. cbn [cbind app].
      split; [reflexivity|]. split; [|exact HR1].
      cbn [CacheSpec.s1_step]. apply gtb_false in G. rewrite G. rewrite FP, F. rewrite HS. reflexivity.
  - (* Get *)
    unfold cache_get. destruct (find (ents (hd_ c)) k) as [v|] eqn:F.
    + destruct (access_spec K V keqb keqb_spec kzero vzero hv HF_add HF_remove (store c) k v LI F)
        as (s' & e & d1 & HA & LI' & Hk & Hv & P1 & P2 & _ & _).
      rewrite HA. cbn [cbind fst snd].
      eexists. exists (RGet v true), [], l. split; [reflexivity|].
      split. { cbn. rewrite FP, F. reflexivity. }
      unfold R1, cinv. cbn [store csize count limit].
      assert (PE : Permutation (ents (data (access s'))) (ents (hd_ c))).
      { transitivity ((k, v) :: ents d1).
        - exact (ents_perm K V _ _ P2).
        - rewrite <- Hk, <- Hv. apply Permutation_sym. exact (ents_perm K V _ _ P1). }
      split; [|rewrite PE; exact P].
      split; [exact LI'|]. rewrite (total_perm K V sizeOf _ _ PE).
      assert (len (data (access s')) = len (hd_ c)).
      { apply Permutation_length in P1. apply Permutation_length in P2. cbn in P1, P2. unfold len. lia. }
      cbn beta in *. split; [exact Hsz|]. split; [lia|]. split; [exact Hle|exact Hlim].
    + rewrite (access_absent K V keqb keqb_spec kzero vzero hv (store c) k LI F). cbn [cbind fst snd].
      eexists. exists (RGet vzero false), [], l.
      split; [reflexivity|]. split. { cbn. rewrite FP, F. reflexivity. }
      split; [exact CI|exact P].
  - (* Has *)
    unfold cache_has. rewrite (check_spec K V keqb keqb_spec vzero (store c) k LI). cbn [cbind].
    exists c, (RBool (match find (ents (hd_ c)) k with Some _ => true | None => false end)), [], l. split.
    { cbn beta. destruct (find (ents (data (access (store c)))) k); cbn; reflexivity. }
    split. { cbn. rewrite FP. destruct (find (ents (hd_ c)) k); reflexivity. }
    split; [exact CI|exact P].
  - (* Remove *)
    unfold cache_remove. change remove_found_result with true. change remove_absent_result with false.
    rewrite (check_spec K V keqb keqb_spec vzero (store c) k LI).
    destruct (find (ents (hd_ c)) k) as [old|] eqn:F; cbn [cbind].
    + destruct (remove_spec K V keqb keqb_spec hv HF_remove (store c) k old LI F) as (s1 & e & HR & LI1 & Hk & Hv & P1 & _ & _).
      rewrite HR. cbn [cbind].
      assert (P1' : Permutation l ((k, old) :: ents (data (access s1)))).
      { rewrite P. rewrite <- Hk, <- Hv. exact (ents_perm K V _ _ P1). }
      eexists. exists (RBool true), [(k, old)], (del l k).
      split. { unfold fires, remove_ncalls_onEvict. cbn. reflexivity. }
      split. { cbn. rewrite FP, F. reflexivity. }
      unfold R1, cinv. cbn [store csize count limit].
      split; [|exact (del_perm_inv K V keqb keqb_spec _ _ _ _ ND P1')].
      split; [exact LI1|]. unfold remove_size, remove_count.
      rewrite (len_perm _ _ _ P1). rewrite (total_ents_perm _ _ _ P1) in Hsz. rewrite Hv in Hsz.
      pose proof (total_nonneg K V sizeOf (ents (data (access s1))) size_nonneg).
      pose proof (size_nonneg old). repeat split; lia.
    + exists c, (RBool false), [], l. split; [reflexivity|].
      split. { cbn. rewrite FP, F. reflexivity. }
      split; [exact CI|exact P].
  - (* Clear *)
    unfold cache_clear.
    destruct (clear_loop_spec (S (length (hd_ c))) (store c) (csize c) (count c) [] l LI P) as (s' & ev & HL & HS & LI' & Hd & _ & _);
      try assumption; try lia.
    rewrite HL. cbn [cbind app]. unfold clear_inconsistent. cbn [Z.eqb negb orb].
    eexists. exists RUnit, ev, []. split; [reflexivity|].
    split. { cbn [CacheSpec.s1_step]. rewrite HS. reflexivity. }
    unfold R1, cinv. cbn [store csize count limit]. rewrite Hd. cbn.
    split; [|constructor]. split; [exact LI'|]. repeat split; lia.
  - (* Len *)
    exists c, (RNum (cache_len K V c)), [], l. split; [reflexivity|].
    split.
    { cbn. unfold cache_len, len_result. rewrite Hcnt. unfold len.
      rewrite (Permutation_length P). unfold ents. rewrite map_length. reflexivity. }
    split; [exact CI|exact P].
  - (* Size *)
    exists c, (RNum (cache_size K V c)), [], l. split; [reflexivity|].
    split.
    { cbn. unfold cache_size, size_result. rewrite Hsz. rewrite (total_perm K V sizeOf _ _ P). reflexivity. }
    split; [exact CI|exact P].
Qed.

(* ---- whole histories ---- *)
Lemma run_s1 : forall ops (c : cache) l,
  R1 c l ->
  exists obs c' l',
    run c ops = map ok_event obs /\ exec c ops = Some c' /\ s1_accepts l ops obs /\ R1 c' l'.
Proof.
  induction ops as [|o ops IH]; intros c l R.
  - exists [], c, l. cbn. auto.
  - destruct (step_s1 c l o R) as (c1 & r & log & l1 & HS & H1 & R').
    destruct (IH c1 l1 R') as (obs & c' & l' & HR & HE & HA & RR).
    exists ((r, log) :: obs), c', l'. cbn [CacheModel.run CacheModel.exec map]. rewrite HS. cbn [ok_event fst snd].
    rewrite HR, HE. split; [reflexivity|]. split; [reflexivity|]. split; [|exact RR].
    cbn [CacheSpec.s1_accepts]. rewrite H1. split; [reflexivity|exact HA].
Qed.

Lemma R1_new : R1 {| store := lru_new K V; csize := 0; count := 0; limit := lim |} [].
Proof.
  unfold R1, cinv. cbn. split; [|constructor].
  split.
  - split; [constructor|]. split.
    + intros i e H. unfold get in H. destruct (i <? 0); [discriminate|]. destruct (Z.to_nat i); discriminate.
    + intros k H. cbn in H. congruence.
  - repeat split; lia.
Qed.

End S1.
