(* The C08 theorems that hold for every heap variant, closed (no hypotheses left). *)
From Coq Require Import ZArith List Bool Lia Permutation.
Import ListNotations.
From Mds Require Import Gen.CacheIdx Heapq.HeapqModel Cache.CacheSpec Cache.CacheModel Cache.CacheFacts
  Cache.CacheLruProofs Cache.CacheS1Proofs Cache.CacheHeapFacts.
Local Open Scope Z_scope.

Section Main.
Variables K V : Type.
Variable keqb : K -> K -> bool.
Hypothesis keqb_spec : forall a b, keqb a b = true <-> a = b.
Variable kzero : K.
Variable vzero : V.
Variable sizeOf : V -> Z.
Hypothesis size_nonneg : forall v, 0 <= sizeOf v.

(* what holds of every reachable cache: [present] is exactly the index of the heap array, the keys
   are distinct, Size is the sum of the sizes of the present values and within the limit, Len is
   their number *)
Definition consistent (lim : Z) (c : cache K V) : Prop :=
  let d := data (access (store c)) in
  NoDup (pkeys d) /\
  (forall i e, get d i = Some e -> map_get K keqb (present (store c)) (key e) = Some i) /\
  (forall k, map_get K keqb (present (store c)) k <> None -> In k (pkeys d)) /\
  cache_size K V c = total sizeOf (ents d) /\
  cache_len K V c = len d /\
  0 <= cache_size K V c <= lim /\
  limit c = lim.

Lemma cache_new_ok lim : 0 < lim ->
  cache_new K V lim = COk {| store := lru_new K V; csize := 0; count := 0; limit := lim |}.
Proof.
  intro H. unfold cache_new, new_bad_limit. destruct (Z.leb_spec lim 0); [lia|reflexivity].
Qed.

Lemma s1_all (hv : variant) lim ops : 0 < lim ->
  exists obs c,
    run_new K V keqb kzero vzero sizeOf hv lim ops = map ok_event obs /\
    s1_accepts K V keqb vzero sizeOf lim [] ops obs /\
    (match cache_new K V lim with COk c0 => exec K V keqb kzero vzero sizeOf hv c0 ops | _ => None end) = Some c /\
    consistent lim c.
Proof.
  intro Hl. unfold run_new. rewrite (cache_new_ok lim Hl).
  destruct (run_s1 K V keqb keqb_spec kzero vzero sizeOf size_nonneg lim Hl hv
              (heap_add_fact_holds K V keqb keqb_spec hv) (heap_remove_fact_holds K V keqb keqb_spec hv)
              (heap_pop_fact_holds K V keqb keqb_spec hv) ops _ [] (R1_new K V keqb sizeOf lim Hl))
    as (obs & c & l' & HR & HE & HA & ((LI & Hsz & Hcnt & Hle & Hlim) & P)).
  exists obs, c. split; [exact HR|]. split; [exact HA|]. split; [exact HE|].
  destruct LI as (ND & PO & DO). unfold consistent, cache_size, cache_len, size_result, len_result.
  split; [exact ND|]. split; [exact PO|]. split; [exact DO|]. split; [exact Hsz|]. split; [exact Hcnt|].
  split; [|exact Hlim]. split; [|exact Hle]. rewrite Hsz. apply (total_nonneg K V sizeOf _ size_nonneg).
Qed.

(* every history is a behaviour of the policy-agnostic reference, without any panic *)
Theorem refines_S1 (hv : variant) lim ops : 0 < lim ->
  exists obs,
    run_new K V keqb kzero vzero sizeOf hv lim ops = map ok_event obs /\
    s1_accepts K V keqb vzero sizeOf lim [] ops obs.
Proof. intro H. destruct (s1_all hv lim ops H) as (obs & c & A & B & _). exists obs. auto. Qed.

Theorem reachable_consistent (hv : variant) lim ops c : 0 < lim ->
  exec K V keqb kzero vzero sizeOf hv {| store := lru_new K V; csize := 0; count := 0; limit := lim |} ops = Some c ->
  consistent lim c.
Proof.
  intros H HE. destruct (s1_all hv lim ops H) as (obs & c' & _ & _ & HE' & HC).
  rewrite (cache_new_ok lim H) in HE'. rewrite HE in HE'. injection HE' as <-. exact HC.
Qed.

End Main.
