(* The lruStore layer: what each store operation does to the heap contents and to [present],
   from three facts about the heap operations (Section hypotheses here; discharged from the
   heapq proofs in CacheHeapFacts.v for every variant). *)
From Coq Require Import ZArith List Bool Lia Permutation.
Import ListNotations.
From Mds Require Import Gen.CacheLru Gen.HeapqIdx Heapq.HeapqModel Cache.CacheSpec Cache.CacheModel Cache.CacheFacts.
Local Open Scope Z_scope.

Section Defs.
Variables K V : Type.
Variable keqb : K -> K -> bool.

Definition kv (e : prio K V) : K * V := (key e, value e).
Definition ents (d : list (prio K V)) : entries K V := map kv d.
Definition pkeys (d : list (prio K V)) : list K := map key d.
Definition move_keys (m : moves (prio K V)) : list K := map (fun ep => key (fst ep)) m.

(* every element of the heap is recorded at its offset *)
Definition pos_ok (d : list (prio K V)) (p : pmap K) : Prop :=
  forall i e, get d i = Some e -> map_get K keqb p (key e) = Some i.
(* and nothing else is recorded *)
Definition dom_ok (d : list (prio K V)) (p : pmap K) : Prop :=
  forall k, map_get K keqb p k <> None -> In k (pkeys d).

Definition linv (s : lru K V) : Prop :=
  NoDup (pkeys (data (access s))) /\ pos_ok (data (access s)) (present s) /\ dom_ok (data (access s)) (present s).

(* the three heap facts, for a given variant *)
Definition heap_add_fact (hv : variant) : Prop :=
  forall (q : queue (prio K V)) x p,
    NoDup (pkeys (x :: data q)) -> pos_ok (data q) p ->
    exists q' m pos, Add (prio K V) hv q x = Ok (q', m, pos) /\ qcmp q' = qcmp q /\
      Permutation (data q') (x :: data q) /\ pos_ok (data q') (apply_moves K V keqb m p) /\
      get (data q') pos = Some x /\ incl (move_keys m) (pkeys (data q')).

Definition heap_remove_fact (hv : variant) : Prop :=
  forall (q : queue (prio K V)) n p e,
    get (data q) n = Some e -> NoDup (pkeys (data q)) -> pos_ok (data q) p ->
    exists q' m, Remove (prio K V) hv q n = Ok (q', m, RemSome e) /\ qcmp q' = qcmp q /\
      Permutation (data q) (e :: data q') /\ pos_ok (data q') (apply_moves K V keqb m p) /\
      incl (move_keys m) (pkeys (data q)).

Definition heap_pop_fact (hv : variant) : Prop :=
  forall (q : queue (prio K V)) p e,
    get (data q) 0 = Some e -> NoDup (pkeys (data q)) -> pos_ok (data q) p ->
    exists q' m, Pop (prio K V) hv q = Ok (q', m, Some e) /\ qcmp q' = qcmp q /\
      Permutation (data q) (e :: data q') /\ pos_ok (data q') (apply_moves K V keqb m p) /\
      incl (move_keys m) (pkeys (data q)).
End Defs.

Arguments kv {K V} e.
Arguments ents {K V} d.
Arguments pkeys {K V} d.
Arguments move_keys {K V} m.

Section Lru.
Variables K V : Type.
Variable keqb : K -> K -> bool.
Hypothesis keqb_spec : forall a b, keqb a b = true <-> a = b.
Variable kzero : K.
Variable vzero : V.
Variable hv : variant.
Hypothesis HF_add : heap_add_fact K V keqb hv.
Hypothesis HF_remove : heap_remove_fact K V keqb hv.
Hypothesis HF_pop : heap_pop_fact K V keqb hv.

Notation prio := (prio K V).
Notation lru := (lru K V).
Notation map_get := (map_get K keqb).
Notation map_set := (map_set K keqb).
Notation map_del := (map_del K keqb).
Notation apply_moves := (apply_moves K V keqb).
Notation pos_ok := (pos_ok K V keqb).
Notation dom_ok := (dom_ok K V keqb).
Notation linv := (linv K V keqb).
Notation find := (@find K V keqb).
Notation del := (@del K V keqb).
Notation lru_check := (lru_check K V keqb vzero).
Notation lru_access := (lru_access K V keqb kzero vzero hv).
Notation lru_store := (lru_store K V keqb hv).
Notation lru_remove := (lru_remove K V keqb hv).
Notation lru_evict := (lru_evict K V keqb hv).

(* ---- get ---- *)
Lemma get_of_nat (A : Type) (l : list A) n : get l (Z.of_nat n) = nth_error l n.
Proof. unfold get. destruct (Z.ltb_spec (Z.of_nat n) 0); [lia|]. rewrite Nat2Z.id. reflexivity. Qed.

Lemma get_range (A : Type) (l : list A) i e : get l i = Some e -> 0 <= i < len l.
Proof.
  unfold get, len. destruct (Z.ltb_spec i 0); [discriminate|]. intro H0.
  assert (Z.to_nat i < length l)%nat by (apply nth_error_Some; congruence). lia.
Qed.

Lemma get_In (A : Type) (l : list A) i e : get l i = Some e -> In e l.
Proof. unfold get. destruct (i <? 0); [discriminate|]. apply nth_error_In. Qed.

Lemma In_get (A : Type) (l : list A) e : In e l -> exists i, get l i = Some e.
Proof. intro H. apply In_nth_error in H. destruct H as [n H]. exists (Z.of_nat n). rewrite get_of_nat. exact H. Qed.

Lemma get_nil_0 (A : Type) (l : list A) : get l 0 = None -> l = [].
Proof. unfold get. cbn. destruct l; [reflexivity|discriminate]. Qed.

(* ---- keys ---- *)
Lemma keys_ents (d : list prio) : keys (ents d) = pkeys d.
Proof. unfold keys, ents, pkeys. rewrite map_map. reflexivity. Qed.

Lemma pkeys_perm (d d' : list prio) : Permutation d d' -> Permutation (pkeys d) (pkeys d').
Proof. apply Permutation_map. Qed.

Lemma ents_perm (d d' : list prio) : Permutation d d' -> Permutation (ents d) (ents d').
Proof. apply Permutation_map. Qed.

Lemma in_pkeys (d : list prio) e : In e d -> In (key e) (pkeys d).
Proof. apply in_map. Qed.

(* ---- apply_moves ---- *)
Lemma apply_moves_dom m p k :
  map_get (apply_moves m p) k <> None -> map_get p k <> None \/ In k (move_keys m).
Proof.
  revert p. induction m as [|[e i] m IH]; intros p; cbn.
  - intro H. left. exact H.
  - intro H. apply IH in H. destruct H as [H|H]; [|right; right; exact H].
    destruct (keqb_dec K keqb keqb_spec (key e) k) as [->|N].
    + right. left. reflexivity.
    + rewrite (map_get_set_other K keqb keqb_spec) in H by exact N. left. exact H.
Qed.

(* ---- lookup through present ---- *)
Lemma lookup_in (s : lru) k :
  linv s -> In k (pkeys (data (access s))) ->
  exists pos e, map_get (present s) k = Some pos /\ get (data (access s)) pos = Some e /\ key e = k.
Proof.
  intros (ND & PO & DO) H. apply in_map_iff in H. destruct H as (e & Hk & He).
  apply In_get in He. destruct He as [i Hi]. exists i, e. split; [|split]; [|exact Hi|exact Hk].
  rewrite <- Hk. exact (PO _ _ Hi).
Qed.

Lemma lookup_notin (s : lru) k :
  linv s -> ~ In k (pkeys (data (access s))) -> map_get (present s) k = None.
Proof.
  intros (ND & PO & DO) H. destruct (map_get (present s) k) eqn:E; [|reflexivity].
  exfalso. apply H. apply DO. congruence.
Qed.

Lemma find_ents (d : list prio) e : NoDup (pkeys d) -> In e d -> find (ents d) (key e) = Some (value e).
Proof.
  intros ND H. apply (find_In K V keqb keqb_spec); [rewrite keys_ents; exact ND|].
  unfold ents. change (key e, value e) with (kv e). apply in_map. exact H.
Qed.

Lemma find_ents_inv (d : list prio) k v :
  find (ents d) k = Some v -> exists e, In e d /\ key e = k /\ value e = v.
Proof.
  intro H. apply (find_Some_In K V keqb keqb_spec) in H. unfold ents in H. apply in_map_iff in H.
  destruct H as (e & He & Hin). exists e. unfold kv in He. injection He as <- <-. auto.
Qed.

Lemma nodup_key_inj (d : list prio) : NoDup (pkeys d) -> forall a b, In a d -> In b d -> key a = key b -> a = b.
Proof.
  induction d as [|x d IH]; cbn; [intros _ a b []|].
  intros ND a b [H1|H1] [H2|H2] E; subst; try reflexivity.
  - inversion ND as [|? ? N1 N2]; subst. exfalso. apply N1. rewrite E. apply in_pkeys. exact H2.
  - inversion ND as [|? ? N1 N2]; subst. exfalso. apply N1. rewrite <- E. apply in_pkeys. exact H1.
  - inversion ND as [|? ? N1 N2]; subst. apply IH; assumption.
Qed.

(* ---- Check ---- *)
Lemma check_spec (s : lru) k :
  linv s ->
  lru_check s k = COk (match find (ents (data (access s))) k with Some v => (v, true) | None => (vzero, false) end).
Proof.
  intros LI. destruct (find (ents (data (access s))) k) as [v|] eqn:F.
  - destruct (find_ents_inv _ _ _ F) as (e & Hin & Hk & Hv).
    assert (Hik : In k (pkeys (data (access s)))) by (rewrite <- Hk; apply in_pkeys; exact Hin).
    destruct (lookup_in s k LI Hik) as (pos & e' & Hg & Hget & Hk').
    assert (e' = e).
    { destruct LI as (ND & _ & _). apply (nodup_key_inj _ ND); [exact (get_In _ _ _ _ Hget)|exact Hin|congruence]. }
    subst e'. unfold CacheModel.lru_check, check_at. rewrite Hg. unfold Peek.
    pose proof (get_range _ _ _ _ Hget) as R.
    unfold Peek_negative, Peek_beyond.
    destruct (Z.ltb_spec pos 0); [lia|]. rewrite Z.geb_leb. destruct (Z.leb_spec (len (data (access s))) pos); [lia|].
    rewrite Hget. cbn. rewrite Hv. reflexivity.
  - apply (find_None_notin K V keqb keqb_spec) in F. rewrite keys_ents in F.
    unfold CacheModel.lru_check. rewrite (lookup_notin s k LI F). reflexivity.
Qed.

(* [present] after an element e has left the heap and its key has been deleted *)
Lemma linv_after_removal (d d' : list prio) p m e :
  NoDup (pkeys d) -> dom_ok d p ->
  Permutation d (e :: d') -> pos_ok d' (apply_moves m p) -> incl (move_keys m) (pkeys d) ->
  NoDup (pkeys d') /\ pos_ok d' (map_del (apply_moves m p) (key e)) /\ dom_ok d' (map_del (apply_moves m p) (key e)).
Proof.
  intros ND DO P PO' INC.
  assert (ND' : NoDup (key e :: pkeys d')).
  { apply (Permutation_NoDup (l := pkeys d)); [|exact ND]. exact (pkeys_perm _ _ P). }
  inversion ND' as [|? ? Nin ND'']; subst. split; [exact ND''|]. split.
  - intros i e' Hg. rewrite (map_get_del_other K keqb keqb_spec).
    + exact (PO' _ _ Hg).
    + intro Heq. apply Nin. rewrite Heq. apply in_pkeys. exact (get_In _ _ _ _ Hg).
  - intros k Hk. destruct (keqb_dec K keqb keqb_spec (key e) k) as [Heq|N].
    + subst k. rewrite (map_get_del_same K keqb) in Hk. congruence.
    + rewrite (map_get_del_other K keqb keqb_spec) in Hk by exact N.
      assert (Hk' : In k (pkeys d)).
      { apply apply_moves_dom in Hk. destruct Hk as [Hk|Hk]; [exact (DO _ Hk)|exact (INC _ Hk)]. }
      apply (Permutation_in _ (pkeys_perm _ _ P)) in Hk'. destruct Hk' as [Hk'|Hk']; [contradiction|exact Hk'].
Qed.

(* ---- Remove ---- *)
Lemma remove_spec (s : lru) k v :
  linv s -> find (ents (data (access s))) k = Some v ->
  exists s' e, lru_remove s k = COk s' /\ linv s' /\ key e = k /\ value e = v /\
    Permutation (data (access s)) (e :: data (access s')) /\
    clock s' = clock s /\ qcmp (access s') = qcmp (access s).
Proof.
  intros LI F. destruct (find_ents_inv _ _ _ F) as (e0 & Hin & Hk & Hv).
  assert (Hik : In k (pkeys (data (access s)))) by (rewrite <- Hk; apply in_pkeys; exact Hin).
  destruct (lookup_in s k LI Hik) as (pos & e & Hg & Hget & Hk').
  destruct LI as (ND & PO & DO).
  assert (Hve : value e = v).
  { pose proof (find_ents _ _ ND (get_In _ _ _ _ Hget)) as F'. rewrite Hk', F in F'. congruence. }
  destruct (HF_remove (access s) pos (present s) e Hget ND PO) as (q' & m & HR & Hc & P & PO' & INC).
  eexists. exists e. unfold CacheModel.lru_remove, lremove_at. rewrite Hg, HR. cbn.
  split; [reflexivity|]. cbn.
  pose proof (linv_after_removal _ _ _ _ _ ND DO P PO' INC) as LI'. rewrite Hk' in LI'.
  split; [exact LI'|]. auto.
Qed.

Lemma remove_absent (s : lru) k :
  linv s -> find (ents (data (access s))) k = None -> lru_remove s k = COk s.
Proof.
  intros LI F. apply (find_None_notin K V keqb keqb_spec) in F. rewrite keys_ents in F.
  unfold CacheModel.lru_remove. rewrite (lookup_notin s k LI F). reflexivity.
Qed.

(* ---- Evict ---- *)
Lemma evict_spec (s : lru) e :
  linv s -> get (data (access s)) 0 = Some e ->
  exists s', lru_evict s = COk (s', (key e, value e)) /\ linv s' /\
    Permutation (data (access s)) (e :: data (access s')) /\
    clock s' = clock s /\ qcmp (access s') = qcmp (access s).
Proof.
  intros (ND & PO & DO) Hget.
  destruct (HF_pop (access s) (present s) e Hget ND PO) as (q' & m & HR & Hc & P & PO' & INC).
  eexists. unfold CacheModel.lru_evict. rewrite HR. cbn. split; [reflexivity|]. cbn.
  split; [exact (linv_after_removal _ _ _ _ _ ND DO P PO' INC)|]. auto.
Qed.

(* ---- Store ---- *)
Lemma store_spec (s : lru) k v :
  linv s -> ~ In k (pkeys (data (access s))) ->
  exists s', lru_store s k v = COk s' /\ linv s' /\
    Permutation (data (access s')) ({| lastAccess := clock s + 1; key := k; value := v |} :: data (access s)) /\
    clock s' = clock s + 1 /\ qcmp (access s') = qcmp (access s).
Proof.
  intros LI Nin. pose proof (lookup_notin s k LI Nin) as Hg. destruct LI as (ND & PO & DO).
  set (x := {| lastAccess := clock s + 1; key := k; value := v |}).
  assert (NDx : NoDup (pkeys (x :: data (access s)))) by (cbn; constructor; assumption).
  destruct (HF_add (access s) x (present s) NDx PO) as (q' & m & pos & HA & Hc & P & PO' & Hpos & INC).
  eexists. unfold CacheModel.lru_store. rewrite Hg. unfold store_clock, store_stamp. fold x. rewrite HA. cbn.
  split; [reflexivity|]. cbn.
  assert (Hsame : forall k0, map_get (map_set (apply_moves m (present s)) k pos) k0 = map_get (apply_moves m (present s)) k0).
  { intro k0. destruct (keqb_dec K keqb keqb_spec k k0) as [<-|N].
    - rewrite (map_get_set_same K keqb keqb_spec). symmetry. exact (PO' _ _ Hpos).
    - apply (map_get_set_other K keqb keqb_spec). exact N. }
  split; [|auto]. split; [|split].
  - apply (Permutation_NoDup (l := pkeys (x :: data (access s)))); [|exact NDx].
    apply Permutation_sym. exact (pkeys_perm _ _ P).
  - intros i e Hge. rewrite Hsame. exact (PO' _ _ Hge).
  - intros k0 Hk0. rewrite Hsame in Hk0. apply apply_moves_dom in Hk0. destruct Hk0 as [Hk0|Hk0]; [|exact (INC _ Hk0)].
    apply DO in Hk0. apply (Permutation_in _ (Permutation_sym (pkeys_perm _ _ P))). right. exact Hk0.
Qed.

(* ---- Access ---- *)
Lemma access_absent (s : lru) k :
  linv s -> find (ents (data (access s))) k = None -> lru_access s k = COk (s, (vzero, false)).
Proof.
  intros LI F. apply (find_None_notin K V keqb keqb_spec) in F. rewrite keys_ents in F.
  unfold CacheModel.lru_access. rewrite (lookup_notin s k LI F). reflexivity.
Qed.

Lemma access_spec (s : lru) k v :
  linv s -> find (ents (data (access s))) k = Some v ->
  exists s' e d1, lru_access s k = COk (s', (v, true)) /\ linv s' /\ key e = k /\ value e = v /\
    Permutation (data (access s)) (e :: d1) /\
    Permutation (data (access s')) ({| lastAccess := clock s + 1; key := k; value := v |} :: d1) /\
    clock s' = clock s + 1 /\ qcmp (access s') = qcmp (access s).
Proof.
  intros LI F. destruct (find_ents_inv _ _ _ F) as (e0 & Hin & Hk & Hv).
  assert (Hik : In k (pkeys (data (access s)))) by (rewrite <- Hk; apply in_pkeys; exact Hin).
  destruct (lookup_in s k LI Hik) as (pos & e & Hg & Hget & Hk').
  destruct LI as (ND & PO & DO).
  assert (Hve : value e = v).
  { pose proof (find_ents _ _ ND (get_In _ _ _ _ Hget)) as F'. rewrite Hk', F in F'. congruence. }
  destruct (HF_remove (access s) pos (present s) e Hget ND PO) as (q1 & m1 & HR & Hc1 & P1 & PO1 & INC1).
  assert (ND1 : NoDup (key e :: pkeys (data q1))).
  { apply (Permutation_NoDup (l := pkeys (data (access s)))); [|exact ND]. exact (pkeys_perm _ _ P1). }
  set (x := {| lastAccess := clock s + 1; key := k; value := v |}).
  assert (NDx : NoDup (pkeys (x :: data q1))) by (cbn; rewrite <- Hk'; exact ND1).
  destruct (HF_add q1 x _ NDx PO1) as (q2 & m2 & pos2 & HA & Hc2 & P2 & PO2 & Hpos2 & INC2).
  exists {| present := apply_moves m2 (apply_moves m1 (present s)); access := q2; clock := clock s + 1 |}, e, (data q1).
  unfold CacheModel.lru_access, access_remove_at. rewrite Hg, HR. cbn. unfold access_clock, access_stamp. rewrite Hk', Hve. fold x.
  rewrite HA. cbn.
  split; [reflexivity|]. split; [|cbn; repeat split; try assumption; congruence].
  split; [|split]; cbn.
  - apply (Permutation_NoDup (l := pkeys (x :: data q1))); [|exact NDx].
    apply Permutation_sym. exact (pkeys_perm _ _ P2).
  - exact PO2.
  - intros k0 Hk0. apply apply_moves_dom in Hk0. destruct Hk0 as [Hk0|Hk0]; [|exact (INC2 _ Hk0)].
    apply (Permutation_in _ (Permutation_sym (pkeys_perm _ _ P2))). cbn.
    assert (Hk1 : In k0 (pkeys (data (access s)))).
    { apply apply_moves_dom in Hk0. destruct Hk0 as [Hk0|Hk0]; [exact (DO _ Hk0)|exact (INC1 _ Hk0)]. }
    apply (Permutation_in _ (pkeys_perm _ _ P1)) in Hk1. cbn in Hk1. rewrite Hk' in Hk1. exact Hk1.
Qed.

End Lru.
