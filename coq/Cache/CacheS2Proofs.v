(* Cache layer against the reference LRU (S2): the model's answers and callback logs equal the
   reference's on every history
   - for a heap variant whose two defect switches are off (the repaired heap): unconditionally;
   - for a variant whose pop never sifts up (the pinned tree, known finding F2): on every history
     none of whose calls starts a heapq.Remove that would need a sift-up ([run_safe], the exact
     condition under which every call keeps the heap a heap; CacheHeapGuard.v).
   No assumption on the size function (negative sizes included) is needed for this. *)
From Coq Require Import ZArith List Bool Lia Permutation Sorted.
Import ListNotations.
From Mds Require Import Gen.CacheIdx Gen.CacheLru Gen.HeapqIdx Heapq.HeapqModel Heapq.HeapqSpec Heapq.HeapqArray
  Heapq.HeapqProofs Heapq.HeapqHeap Heapq.HeapqHist Heapq.HeapqOrder Heapq.HeapqRepaired.
From Mds Require Import Cache.CacheSpec Cache.CacheModel Cache.CacheFacts Cache.CacheLruProofs Cache.CacheS1Proofs Cache.CacheHeapFacts
  Cache.CacheHeapGuard.
Local Open Scope Z_scope.

Section S2.
Variables K V : Type.
Variable keqb : K -> K -> bool.
Hypothesis keqb_spec : forall a b, keqb a b = true <-> a = b.
Variable kzero : K.
Variable vzero : V.
Variable sizeOf : V -> Z.
Variable lim : Z.
Hypothesis lim_pos : 0 < lim.
Variable hv : variant.

(* both defect switches off *)
Definition sound_heap : Prop := parent_halves hv = false /\ pop_no_siftup hv = false.
(* what makes heapq.Remove(pos) keep heap order: the heap sifts up, or it does not and none is needed *)
Definition rm_ok (d : list (prio K V)) (pos : Z) : Prop :=
  sound_heap \/ (pop_no_siftup hv = true /\ rm_safe K V d pos = true).
Definition key_ok (s : lru K V) (k : K) : Prop :=
  forall pos, map_get K keqb (present s) k = Some pos -> rm_ok (data (access s)) pos.
Definition op_ok (c : cache K V) (o : op K V) : Prop :=
  sound_heap \/ (pop_no_siftup hv = true /\ op_safe K V keqb sizeOf c o = true).
Definition run_ok (c : cache K V) (ops : list (op K V)) : Prop :=
  sound_heap \/ (pop_no_siftup hv = true /\ run_safe K V keqb kzero vzero sizeOf hv c ops = true).

Notation prio := (prio K V).
Notation lru := (lru K V).
Notation cache := (cache K V).
Notation cmpp := (compare_prio K V).
Notation linv := (linv K V keqb).
Notation find := (@find K V keqb).
Notation del := (@del K V keqb).
Notation total := (@total K V sizeOf).
Notation lru_check := (lru_check K V keqb vzero).
Notation lru_access := (lru_access K V keqb kzero vzero hv).
Notation lru_store := (lru_store K V keqb hv).
Notation lru_remove := (lru_remove K V keqb hv).
Notation lru_evict := (lru_evict K V keqb hv).
Notation put_evict_loop := (put_evict_loop K V keqb sizeOf hv).
Notation clear_loop := (clear_loop K V keqb sizeOf hv).
Notation step := (step K V keqb kzero vzero sizeOf hv).
Notation run := (run K V keqb kzero vzero sizeOf hv).
Notation make_room := (make_room K V sizeOf lim).
Notation s2_step := (s2_step K V keqb vzero sizeOf lim).
Notation s2_run := (s2_run K V keqb vzero sizeOf lim).
Notation HFa := (heap_add_fact_holds K V keqb keqb_spec hv).
Notation HFr := (heap_remove_fact_holds K V keqb keqb_spec hv).
Notation HFp := (heap_pop_fact_holds K V keqb keqb_spec hv).

(* ---- comparePrio is a total preorder, and orders by lastAccess ---- *)
Lemma cmpp_le a b : cmpp a b <= 0 <-> lastAccess a <= lastAccess b.
Proof.
  unfold compare_prio, prio_cmp_left, prio_cmp_right. destruct (Z.compare_spec (lastAccess a) (lastAccess b)); lia.
Qed.

Lemma cmpp_tp : total_preorder prio cmpp.
Proof.
  split.
  - intros a b. unfold compare_prio, prio_cmp_left, prio_cmp_right.
    destruct (Z.compare_spec (lastAccess a) (lastAccess b)); destruct (Z.compare_spec (lastAccess b) (lastAccess a)); cbn; lia.
  - intros a b c. rewrite !cmpp_le. lia.
Qed.

(* ---- the order invariant of the store ---- *)
Definition hok (s : lru) : Prop := qcmp (access s) = cmpp /\ heap_ok prio cmpp (data (access s)).
Definition fresh (s : lru) : Prop := forall e, In e (data (access s)) -> lastAccess e <= clock s.
Definition ts_lt (a b : prio) : Prop := lastAccess a < lastAccess b.
(* l is the content in recency order: the heap's elements sorted by lastAccess *)
Definition rord (s : lru) (l : entries K V) : Prop :=
  exists L, Permutation L (data (access s)) /\ StronglySorted ts_lt L /\ l = ents L.
Definition O2 (s : lru) (l : entries K V) : Prop := linv s /\ hok s /\ fresh s /\ rord s l.

Lemma rord_perm s l : rord s l -> Permutation l (ents (data (access s))).
Proof. intros (L & P & _ & ->). exact (ents_perm K V _ _ P). Qed.

(* ---- heap order is kept by the store operations ---- *)
Lemma cmpp_max (d : list prio) x :
  (forall b, In b d -> lastAccess b <= lastAccess x) -> forall b, In b (d ++ [x]) -> cmpp b x <= 0.
Proof.
  intros H b Hb. apply cmpp_le. apply in_app_or in Hb. destruct Hb as [Hb|[<-|[]]]; [apply H; exact Hb|lia].
Qed.

(* Add of an element no held element is younger than: for EVERY variant pushUp stops at once (so
   the parent index of known finding F1 is never used to move anything), the element is appended *)
Lemma hok_add (q : queue prio) x q' m pos :
  qcmp q = cmpp -> heap_ok prio cmpp (data q) -> (forall b, In b (data q) -> lastAccess b <= lastAccess x) ->
  Add prio hv q x = Ok (q', m, pos) ->
  qcmp q' = cmpp /\ heap_ok prio cmpp (data q') /\ data q' = data q ++ [x].
Proof.
  intros Hc Hh Hmax. unfold Add. rewrite (get_app_last prio (data q) x).
  change (0 <? add_ncalls_pushUp) with true. cbv iota. rewrite Hc.
  rewrite (push_up_max_noop prio hv cmpp cmpp_tp _ (data q ++ [x]) (len (data q)) x (get_app_last prio _ _) (cmpp_max _ _ Hmax)).
  cbn [bind]. intro H. injection H as <- _ _. cbn [qcmp data]. split; [reflexivity|]. split; [|reflexivity].
  apply (heap_ok_snoc_max prio cmpp); [exact Hh|]. intros b Hb. apply cmpp_le. apply Hmax. exact Hb.
Qed.

Lemma rm_safe_needed (d : list prio) pos : rm_safe K V d pos = true -> no_siftup_needed prio cmpp d pos.
Proof.
  unfold rm_safe, no_siftup_needed. intro H. apply orb_true_iff in H. destruct H as [H|H].
  - apply orb_true_iff in H. destruct H as [H|H]; [left; apply Z.eqb_eq; exact H|right; left; apply Z.leb_le; exact H].
  - right. right. destruct (get d (len d - 1)) as [last|]; [|discriminate].
    destruct (get d ((pos - 1) / 2)) as [par|]; [|discriminate].
    exists last, par. split; [reflexivity|]. split; [reflexivity|]. apply cmpp_le. apply Z.leb_le. exact H.
Qed.

Lemma hok_pop_at (l : list prio) i l' m out :
  heap_ok prio cmpp l -> 0 <= i < len l -> rm_ok l i -> pop prio hv cmpp l i = Ok (l', m, out) -> heap_ok prio cmpp l'.
Proof.
  intros Hh Hi [[Hv1 Hv2]|[Hv Hs]] HP.
  - exact (pop_heap prio hv Hv1 cmpp cmpp_tp Hv2 _ _ _ _ _ Hh Hi HP).
  - exact (pop_heap_no_siftup prio hv cmpp cmpp_tp _ _ _ _ _ Hv Hh Hi (rm_safe_needed _ _ Hs) HP).
Qed.

Lemma hok_remove (q : queue prio) n q' m r :
  qcmp q = cmpp -> heap_ok prio cmpp (data q) -> rm_ok (data q) n -> Remove prio hv q n = Ok (q', m, r) ->
  qcmp q' = cmpp /\ heap_ok prio cmpp (data q').
Proof.
  intros Hc Hh Hok. unfold Remove, Remove_negative, Remove_beyond.
  destruct (Z.ltb_spec n 0). { intro E. injection E as <- _ _. auto. }
  rewrite Z.geb_leb. destruct (Z.leb_spec (len (data q)) n). { intro E. injection E as <- _ _. auto. }
  destruct (pop prio hv (qcmp q) (data q) n) as [[[l' m'] out]| |] eqn:HP; cbn [bind]; try discriminate.
  intro E. injection E as <- _ _. cbn [qcmp data]. split; [exact Hc|]. rewrite Hc in HP.
  apply (hok_pop_at (data q) n l' m' out Hh); [lia|exact Hok|exact HP].
Qed.

Lemma Remove_incl (q : queue prio) n q' m r : Remove prio hv q n = Ok (q', m, r) -> incl (data q') (data q).
Proof.
  unfold Remove, Remove_negative, Remove_beyond.
  destruct (Z.ltb_spec n 0). { intro E. injection E as <- _ _. apply incl_refl. }
  rewrite Z.geb_leb. destruct (Z.leb_spec (len (data q)) n). { intro E. injection E as <- _ _. apply incl_refl. }
  destruct (pop_total prio (qcmp q) hv (data q) n) as (l' & m' & out & HP & _ & P & _); [lia|].
  rewrite HP. cbn [bind]. intro E. injection E as <- _ _. cbn [data]. intros b Hb.
  apply (Permutation_in _ (Permutation_sym P)). right. exact Hb.
Qed.

(* removing the root keeps heap order for every variant *)
Lemma hok_Pop (q : queue prio) q' m r :
  qcmp q = cmpp -> heap_ok prio cmpp (data q) -> Pop prio hv q = Ok (q', m, r) ->
  qcmp q' = cmpp /\ heap_ok prio cmpp (data q').
Proof.
  intros Hc Hh. unfold Pop, Pop_empty, Pop_index.
  destruct (Z.eqb_spec (len (data q)) 0). { intro E. injection E as <- _ _. auto. }
  destruct (pop prio hv (qcmp q) (data q) 0) as [[[l' m'] out]| |] eqn:HP; cbn [bind]; try discriminate.
  intro E. injection E as <- _ _. cbn [qcmp data]. split; [exact Hc|]. rewrite Hc in HP.
  apply (pop_root_heap prio hv cmpp cmpp_tp (data q) l' m' out Hh); [pose proof (len_nonneg prio (data q)); lia|exact HP].
Qed.

Lemma hok_lru_remove s k s' : hok s -> key_ok s k -> lru_remove s k = COk s' -> hok s'.
Proof.
  intros [Hc Hh] Hok. unfold CacheModel.lru_remove, lremove_at.
  destruct (CacheModel.map_get K keqb (present s) k) as [z|] eqn:Hg; [|intro H; injection H as <-; split; assumption].
  destruct (Remove prio hv (access s) z) as [[[q m] r]| |] eqn:HR; cbn [lift cbind]; try discriminate.
  destruct (hok_remove _ _ _ _ _ Hc Hh (Hok z Hg) HR) as [A B].
  destruct r; try discriminate; intro H; injection H as <-; split; assumption.
Qed.

Lemma hok_lru_evict s s' e : hok s -> lru_evict s = COk (s', e) -> hok s'.
Proof.
  intros [Hc Hh]. unfold CacheModel.lru_evict.
  destruct (Pop prio hv (access s)) as [[[q m] r]| |] eqn:HR; cbn [lift cbind]; try discriminate.
  destruct (hok_Pop _ _ _ _ Hc Hh HR) as [A B].
  destruct r; try discriminate. intro H. injection H as <- _. split; assumption.
Qed.

(* the most recently used entry sits in the last slot of the heap array *)
Definition top_last (s : lru) : Prop :=
  forall last, get (data (access s)) (len (data (access s)) - 1) = Some last ->
  forall e, In e (data (access s)) -> lastAccess e <= lastAccess last.

Lemma top_last_snoc (s : lru) d x :
  data (access s) = d ++ [x] -> (forall b, In b d -> lastAccess b <= lastAccess x) -> top_last s.
Proof.
  intros E Hmax last Hl e He. rewrite E in Hl, He.
  assert (Hn : len (d ++ [x]) - 1 = len d) by (rewrite len_app; unfold len; cbn [length]; lia).
  rewrite Hn in Hl. rewrite get_app_last in Hl. inversion Hl; subst last.
  apply in_app_or in He. destruct He as [He|[<-|[]]]; [apply Hmax; exact He|lia].
Qed.

Lemma hok_lru_store s k v s' : hok s -> fresh s -> lru_store s k v = COk s' -> hok s' /\ top_last s'.
Proof.
  intros [Hc Hh] FR. unfold CacheModel.lru_store. destruct (CacheModel.map_get K keqb (present s) k); [discriminate|].
  destruct (Add prio hv (access s) _) as [[[q m] r]| |] eqn:HR; cbn [lift cbind]; try discriminate.
  assert (Hmax : forall b, In b (data (access s)) ->
            lastAccess b <= lastAccess {| lastAccess := store_stamp (store_clock (clock s)); key := k; value := v |}).
  { intros b Hb. cbn [lastAccess]. unfold store_clock, store_stamp. specialize (FR b Hb). lia. }
  destruct (hok_add _ _ _ _ _ Hc Hh Hmax HR) as (A & B & C). intro H. injection H as <-.
  split; [split; assumption|]. eapply top_last_snoc; [cbn [access]; exact C|exact Hmax].
Qed.

Lemma hok_lru_access s k s' r : hok s -> fresh s -> key_ok s k -> lru_access s k = COk (s', r) ->
  hok s' /\ (snd r = true -> top_last s').
Proof.
  intros [Hc Hh] FR Hok. unfold CacheModel.lru_access, access_remove_at.
  destruct (CacheModel.map_get K keqb (present s) k) as [z|] eqn:Hg;
    [|intro H; injection H as <- <-; split; [split; assumption|discriminate]].
  destruct (Remove prio hv (access s) z) as [[[q1 m1] r1]| |] eqn:HR; cbn [lift cbind]; try discriminate.
  destruct (hok_remove _ _ _ _ _ Hc Hh (Hok z Hg) HR) as [A B].
  pose proof (Remove_incl _ _ _ _ _ HR) as Hincl.
  destruct r1; try discriminate;
    (match goal with |- context [Add prio hv q1 ?x] =>
       destruct (Add prio hv q1 x) as [[[q2 m2] r2]| |] eqn:HA; cbn [lift cbind]; try discriminate;
       assert (Hmax : forall b, In b (data q1) -> lastAccess b <= lastAccess x)
         by (intros b Hb; cbn [lastAccess]; unfold access_stamp, access_clock; specialize (FR b (Hincl b Hb)); lia);
       destruct (hok_add _ _ _ _ _ A B Hmax HA) as (A2 & B2 & C2); intro H; injection H as <- _;
       split; [split; assumption|intros _; eapply top_last_snoc; [cbn [access]; exact C2|exact Hmax]]
     end).
Qed.

(* ---- sorted lists of prio ---- *)
Lemma ss_remove (L1 : list prio) e L2 : StronglySorted ts_lt (L1 ++ e :: L2) -> StronglySorted ts_lt (L1 ++ L2).
Proof.
  induction L1 as [|a L1 IH]; cbn; intro H; inversion H as [|? ? H1 H2]; subst; [exact H1|].
  constructor; [exact (IH H1)|]. rewrite Forall_app in *. destruct H2 as [A B]. inversion B; subst. split; assumption.
Qed.

Lemma ss_snoc (L : list prio) x : StronglySorted ts_lt L -> (forall e, In e L -> ts_lt e x) -> StronglySorted ts_lt (L ++ [x]).
Proof.
  induction L as [|a L IH]; cbn; intros H Hx; [constructor; constructor|].
  inversion H as [|? ? H1 H2]; subst. constructor.
  - apply IH; [exact H1|]. intros e He. apply Hx. right. exact He.
  - rewrite Forall_app. split; [exact H2|]. constructor; [|constructor]. apply Hx. left. reflexivity.
Qed.

Lemma ss_head_min (h : prio) t e : StronglySorted ts_lt (h :: t) -> In e (h :: t) -> lastAccess h <= lastAccess e.
Proof.
  intros H [<-|Hin]; [lia|]. inversion H as [|? ? _ H2]; subst. rewrite Forall_forall in H2.
  specialize (H2 _ Hin). unfold ts_lt in H2. lia.
Qed.

Lemma ss_ts_inj (L : list prio) : StronglySorted ts_lt L -> forall a b, In a L -> In b L -> lastAccess a = lastAccess b -> a = b.
Proof.
  induction L as [|h L IH]; intros H a b; [intros []|].
  inversion H as [|? ? H1 H2]; subst. rewrite Forall_forall in H2.
  intros [<-|Ha] [<-|Hb] E; try reflexivity.
  - specialize (H2 _ Hb). unfold ts_lt in H2. lia.
  - specialize (H2 _ Ha). unfold ts_lt in H2. lia.
  - exact (IH H1 _ _ Ha Hb E).
Qed.

Lemma del_ents_mid (L1 : list prio) e L2 : ~ In (key e) (pkeys L1) -> del (ents (L1 ++ e :: L2)) (key e) = ents (L1 ++ L2).
Proof.
  unfold ents. induction L1 as [|a L1 IH]; cbn; intro N.
  - rewrite (keqb_refl K keqb keqb_spec). reflexivity.
  - rewrite (keqb_neq K keqb keqb_spec) by (intro E; apply N; left; exact E).
    rewrite IH by (intro H; apply N; right; exact H). reflexivity.
Qed.

Lemma perm_without (L1 : list prio) e L2 d d' :
  Permutation (L1 ++ e :: L2) d -> Permutation d (e :: d') -> Permutation (L1 ++ L2) d'.
Proof.
  intros P P1. apply Permutation_cons_inv with (a := e).
  rewrite <- P1, <- P. apply Permutation_middle.
Qed.

Lemma nodup_l2 s l : linv s -> rord s l -> NoDup (keys l).
Proof. intros LI R. exact (nodup_l K V keqb s l LI (rord_perm s l R)). Qed.

Lemma find_l2 s l k : linv s -> rord s l -> find l k = find (ents (data (access s))) k.
Proof. intros LI R. exact (find_perm K V keqb keqb_spec _ _ k (rord_perm s l R) (nodup_l2 s l LI R)). Qed.

(* ---- the store operations on the recency list ---- *)
Lemma check2 s l k : O2 s l ->
  lru_check s k = COk (match find l k with Some v => (v, true) | None => (vzero, false) end).
Proof.
  intros (LI & _ & _ & R). rewrite (check_spec K V keqb keqb_spec vzero s k LI), (find_l2 s l k LI R). reflexivity.
Qed.

Lemma evict2 s l : O2 s l -> data (access s) <> [] ->
  exists s' k v l', lru_evict s = COk (s', (k, v)) /\ l = (k, v) :: l' /\ O2 s' l' /\ clock s' = clock s.
Proof.
  intros (LI & HO & FR & (L & P & SS & ->)) Hne.
  destruct (get (data (access s)) 0) as [e|] eqn:Hget; [|apply get_nil_0 in Hget; contradiction].
  destruct (evict_spec K V keqb keqb_spec hv HFp s e LI Hget) as (s' & HE & LI' & P1 & Hck & Hq).
  destruct L as [|h t].
  { apply Permutation_nil in P. contradiction. }
  assert (e = h).
  { destruct HO as [Hc Hh]. pose proof (root_minimal prio cmpp cmpp_tp _ _ Hh Hget) as Hmin.
    assert (Hh_in : In h (data (access s))) by (apply (Permutation_in _ P); left; reflexivity).
    assert (He_in : In e (h :: t)) by (apply (Permutation_in _ (Permutation_sym P)); exact (CacheLruProofs.get_In _ _ _ _ Hget)).
    pose proof (Hmin h Hh_in) as H1. rewrite cmpp_le in H1.
    pose proof (ss_head_min h t e SS He_in) as H2.
    apply (ss_ts_inj _ SS); [exact He_in|left; reflexivity|lia]. }
  subst h. exists s', (key e), (value e), (ents t).
  split; [exact HE|]. split; [reflexivity|]. split; [|exact Hck].
  split; [exact LI'|]. split; [exact (hok_lru_evict _ _ _ HO HE)|]. split.
  - intros e' He'. rewrite Hck. apply FR. apply (Permutation_in _ (Permutation_sym P1)). right. exact He'.
  - exists t. split; [|split; [inversion SS; assumption|reflexivity]].
    apply Permutation_cons_inv with (a := e). rewrite P. exact P1.
Qed.

Lemma remove2 s l k v : O2 s l -> key_ok s k -> find l k = Some v ->
  exists s', lru_remove s k = COk s' /\ O2 s' (del l k) /\ clock s' = clock s.
Proof.
  intros (LI & HO & FR & R) Hok F. rewrite (find_l2 s l k LI R) in F. destruct R as (L & P & SS & ->).
  destruct (remove_spec K V keqb keqb_spec hv HFr s k v LI F) as (s' & e & HR & LI' & Hk & Hv & P1 & Hck & Hq).
  assert (He_in : In e L).
  { apply (Permutation_in _ (Permutation_sym P)). apply (Permutation_in _ (Permutation_sym P1)). left. reflexivity. }
  apply in_split in He_in. destruct He_in as (L1 & L2 & ->).
  exists s'. split; [exact HR|]. split; [|exact Hck].
  split; [exact LI'|]. split; [exact (hok_lru_remove _ _ _ HO Hok HR)|]. split.
  - intros e' He'. rewrite Hck. apply FR. apply (Permutation_in _ (Permutation_sym P1)). right. exact He'.
  - exists (L1 ++ L2). split; [exact (perm_without _ _ _ _ _ P P1)|]. split; [exact (ss_remove _ _ _ SS)|].
    rewrite <- Hk. apply del_ents_mid.
    destruct LI as (ND & _). pose proof (Permutation_NoDup (Permutation_sym (pkeys_perm K V _ _ P)) ND) as NDL.
    unfold pkeys in NDL. rewrite map_app in NDL. cbn [map] in NDL. apply NoDup_remove_2 in NDL.
    intro H. apply NDL. apply in_or_app. left. exact H.
Qed.

Lemma store2 s l k v : O2 s l -> find l k = None ->
  exists s', lru_store s k v = COk s' /\ O2 s' (l ++ [(k, v)]) /\ clock s' = clock s + 1 /\ top_last s'.
Proof.
  intros (LI & HO & FR & R) F. rewrite (find_l2 s l k LI R) in F. destruct R as (L & P & SS & ->).
  apply (find_None_notin K V keqb keqb_spec) in F. rewrite keys_ents in F.
  destruct (store_spec K V keqb keqb_spec hv HFa s k v LI F) as (s' & HS & LI' & P1 & Hck & Hq).
  set (x := {| lastAccess := clock s + 1; key := k; value := v |}) in *.
  destruct (hok_lru_store _ _ _ _ HO FR HS) as [HO' TL'].
  exists s'. split; [exact HS|]. split; [|split; [exact Hck|exact TL']].
  split; [exact LI'|]. split; [exact HO'|]. split.
  - intros e' He'. rewrite Hck. apply (Permutation_in _ P1) in He'. destruct He' as [<-|He']; [cbn; lia|].
    specialize (FR _ He'). lia.
  - exists (L ++ [x]). split; [|split].
    + rewrite P1. rewrite <- P. apply Permutation_sym. apply Permutation_cons_append.
    + apply ss_snoc; [exact SS|]. intros e He. unfold ts_lt. cbn.
      specialize (FR e (Permutation_in _ P He)). lia.
    + unfold ents. rewrite map_app. reflexivity.
Qed.

Lemma access2 s l k v : O2 s l -> key_ok s k -> find l k = Some v ->
  exists s', lru_access s k = COk (s', (v, true)) /\ O2 s' (del l k ++ [(k, v)]) /\ clock s' = clock s + 1 /\ top_last s'.
Proof.
  intros (LI & HO & FR & R) Hok F. rewrite (find_l2 s l k LI R) in F. destruct R as (L & P & SS & ->).
  destruct (access_spec K V keqb keqb_spec kzero vzero hv HFa HFr s k v LI F) as (s' & e & d1 & HA & LI' & Hk & Hv & P1 & P2 & Hck & Hq).
  set (x := {| lastAccess := clock s + 1; key := k; value := v |}) in *.
  assert (He_in : In e L).
  { apply (Permutation_in _ (Permutation_sym P)). apply (Permutation_in _ (Permutation_sym P1)). left. reflexivity. }
  apply in_split in He_in. destruct He_in as (L1 & L2 & ->).
  pose proof (perm_without _ _ _ _ _ P P1) as P12.
  destruct (hok_lru_access _ _ _ _ HO FR Hok HA) as [HO' TL'].
  exists s'. split; [exact HA|]. split; [|split; [exact Hck|exact (TL' eq_refl)]].
  split; [exact LI'|]. split; [exact HO'|]. split.
  - intros e' He'. rewrite Hck. apply (Permutation_in _ P2) in He'. destruct He' as [<-|He']; [cbn; lia|].
    assert (In e' (data (access s))) by (apply (Permutation_in _ (Permutation_sym P1)); right; exact He').
    specialize (FR _ H). lia.
  - exists ((L1 ++ L2) ++ [x]). split; [|split].
    + rewrite P2. rewrite <- P12. apply Permutation_sym. apply Permutation_cons_append.
    + apply ss_snoc; [exact (ss_remove _ _ _ SS)|]. intros e0 He0. unfold ts_lt. cbn.
      assert (In e0 (data (access s))).
      { apply (Permutation_in _ (Permutation_sym P1)). right. exact (Permutation_in _ P12 He0). }
      specialize (FR _ H). lia.
    + unfold ents at 2. rewrite map_app. cbn [map kv key value]. f_equal.
      rewrite <- Hk. apply del_ents_mid.
      destruct LI as (ND & _). pose proof (Permutation_NoDup (Permutation_sym (pkeys_perm K V _ _ P)) ND) as NDL.
      unfold pkeys in NDL. rewrite map_app in NDL. cbn [map] in NDL. apply NoDup_remove_2 in NDL.
      intro H. apply NDL. apply in_or_app. left. exact H.
Qed.

Lemma access2_absent s l k : O2 s l -> find l k = None -> lru_access s k = COk (s, (vzero, false)).
Proof.
  intros (LI & _ & _ & R) F. rewrite (find_l2 s l k LI R) in F.
  exact (access_absent K V keqb keqb_spec kzero vzero hv s k LI F).
Qed.

(* ---- spec-side facts ---- *)
Lemma total_del l k v : find l k = Some v -> total l = sizeOf v + total (del l k).
Proof. intro F. rewrite (total_perm K V sizeOf _ _ (del_perm K V keqb keqb_spec l k v F)). reflexivity. Qed.

Lemma length_del l k v : find l k = Some v -> length l = S (length (del l k)).
Proof. intro F. rewrite (Permutation_length (del_perm K V keqb keqb_spec l k v F)). reflexivity. Qed.

Lemma find_del_same l k v : NoDup (keys l) -> find l k = Some v -> find (del l k) k = None.
Proof.
  intros ND F. apply (find_None_notin K V keqb keqb_spec).
  pose proof (nodup_keys_perm K V _ _ (del_perm K V keqb keqb_spec l k v F) ND) as N. cbn in N. inversion N; assumption.
Qed.

Lemma rord_nil s l : rord s l -> data (access s) = [] -> l = [].
Proof. intros (L & P & _ & ->) H. rewrite H in P. apply Permutation_sym, Permutation_nil in P. subst L. reflexivity. Qed.

Lemma rord_nonnil s l : rord s l -> l <> [] -> data (access s) <> [].
Proof. intros R N H. apply N. exact (rord_nil s l R H). Qed.

(* ---- the eviction loop of Put against make_room ---- *)
Lemma put_loop2 fuel : forall (s : lru) cnt size log l vs,
  O2 s l -> (length l < fuel)%nat -> cnt = Z.of_nat (length l) -> size = total l -> vs <= lim ->
  exists s' l' ev,
    make_room l vs = (l', ev) /\
    put_evict_loop fuel s cnt size lim vs log = COk (s', Z.of_nat (length l'), total l', log ++ ev) /\
    O2 s' l' /\ total l' + vs <= lim /\ (forall k, find l k = None -> find l' k = None) /\ clock s' = clock s.
Proof.
  induction fuel as [|f IH]; intros s cnt size log l vs HO Hf Hc Hn Hv; [lia|].
  cbn [CacheModel.put_evict_loop]. unfold put_evict_continue.
  destruct (size >? lim - vs) eqn:G.
  - apply gtb_true in G.
    assert (Hne : l <> []) by (intro E; subst l; cbn in Hn; lia).
    destruct HO as (LI & HK & FR & R).
    destruct (evict2 s l (conj LI (conj HK (conj FR R))) (rord_nonnil s l R Hne)) as (s1 & k & v & l1 & HE & -> & HO1 & Hck).
    rewrite HE. cbn [cbind snd].
    destruct (IH s1 (put_evict_count cnt) (put_evict_size size (sizeOf v)) (log ++ fires K V put_ncalls_onEvict 2 (k, v)) l1 vs HO1)
      as (s' & l' & ev & HM & HL & HO' & Hfit & Hfind & Hck').
    + cbn in Hf. lia.
    + unfold put_evict_count. cbn [length] in Hc. lia.
    + unfold put_evict_size. cbn [CacheSpec.total] in Hn. lia.
    + exact Hv.
    + exists s', l', ((k, v) :: ev).
      split. { cbn [CacheSpec.make_room]. assert (G' : total ((k, v) :: l1) + vs >? lim = true) by (apply gtb_true; lia).
               rewrite G', HM. reflexivity. }
      split. { rewrite HL. unfold fires, put_ncalls_onEvict. cbn. rewrite <- app_assoc. reflexivity. }
      split; [exact HO'|]. split; [exact Hfit|]. split; [|congruence].
      intros k0 F0. apply Hfind. cbn in F0. destruct (keqb k k0); [discriminate|exact F0].
  - apply gtb_false in G. exists s, l, []. rewrite app_nil_r. subst cnt size.
    split. { destruct l as [|e r]; [reflexivity|]. cbn [CacheSpec.make_room].
             assert (G' : total (e :: r) + vs >? lim = false) by (apply gtb_false; lia). rewrite G'. reflexivity. }
    split; [reflexivity|]. split; [exact HO|]. split; [lia|]. split; [auto|reflexivity].
Qed.

Lemma clear_loop2 fuel : forall (s : lru) size cnt log l,
  O2 s l -> (length l < fuel)%nat -> cnt = Z.of_nat (length l) -> size = total l ->
  exists s', clear_loop fuel s size cnt log = COk (s', 0, 0, log ++ l) /\ O2 s' [] /\ clock s' = clock s.
Proof.
  induction fuel as [|f IH]; intros s size cnt log l HO Hf Hc Hs; [lia|].
  cbn [CacheModel.clear_loop]. unfold clear_continue.
  destruct (cnt >? 0) eqn:G.
  - apply gtb_true in G.
    assert (Hne : l <> []) by (intro E; subst l; cbn in Hc; lia).
    destruct HO as (LI & HK & FR & R).
    destruct (evict2 s l (conj LI (conj HK (conj FR R))) (rord_nonnil s l R Hne)) as (s1 & k & v & l1 & HE & -> & HO1 & Hck).
    rewrite HE. cbn [cbind snd].
    destruct (IH s1 (clear_size size (sizeOf v)) (clear_count cnt) (log ++ fires K V clear_ncalls_onEvict 1 (k, v)) l1 HO1) as (s' & HL & HO' & Hck').
    + cbn in Hf. lia.
    + unfold clear_count. cbn [length] in Hc. lia.
    + unfold clear_size. cbn [CacheSpec.total] in Hs. lia.
    + exists s'. rewrite HL. split; [|split; [exact HO'|congruence]].
      unfold fires, clear_ncalls_onEvict. cbn. rewrite <- app_assoc. reflexivity.
  - apply gtb_false in G. assert (l = []) by (destruct l; [reflexivity|cbn [length] in Hc; lia]). subst l.
    exists s. rewrite app_nil_r. cbn in Hs, Hc. subst. split; [reflexivity|]. split; [exact HO|reflexivity].
Qed.

Local Arguments CacheModel.put_evict_loop : simpl never.
Local Arguments CacheModel.clear_loop : simpl never.

Definition R2 (c : cache) (l : entries K V) : Prop :=
  O2 (store c) l /\ csize c = total l /\ count c = Z.of_nat (length l) /\ limit c = lim.

Notation settles := (settles K V keqb sizeOf lim).
Notation hits := (hits K V keqb sizeOf lim).
Notation settled := (settled K V keqb vzero sizeOf lim).
Notation op_safe := (op_safe K V keqb sizeOf).
Notation run_safe := (run_safe K V keqb kzero vzero sizeOf hv).

Lemma O2_nil_data s : O2 s [] -> data (access s) = [].
Proof.
  intros (_ & _ & _ & (L & P & _ & E)). destruct L; [|discriminate]. apply Permutation_nil in P. exact P.
Qed.

Lemma top_last_nil s : data (access s) = [] -> top_last s.
Proof. intros E last Hl. rewrite E in Hl. discriminate. Qed.

(* what op_ok says for the key a call touches *)
Lemma op_ok_key c o k : op_ok c o ->
  (o = OGet k \/ o = ORemove k \/ exists v, o = OPut k v /\ put_refuse (sizeOf v) (limit c) = false) -> key_ok (store c) k.
Proof.
  intros [S|[Hv Hs]] Ho pos Hg; [left; exact S|right; split; [exact Hv|]].
  unfold CacheModel.op_safe in Hs.
  destruct Ho as [->|[->|(v & -> & Hr)]]; [| |rewrite Hr in Hs]; rewrite Hg in Hs; exact Hs.
Qed.

(* one call: the model's result and log are the reference's; the relation is kept; a settling call
   leaves the most recently used entry in the last slot, a call that changes nothing leaves the store *)
Lemma step2 (c : cache) l o :
  R2 c l -> op_ok c o ->
  exists c', step c o = COk (c', snd (s2_step l o)) /\ R2 c' (fst (s2_step l o)) /\
             (settles l o = Some true -> top_last (store c')) /\ (settles l o = None -> store c' = store c).
Proof.
  intros (HO & Hsz & Hcnt & Hlim) Hok.
  assert (R : R2 c l) by exact (conj HO (conj Hsz (conj Hcnt Hlim))).
  assert (ND : NoDup (keys l)) by (destruct HO as (LI & _ & _ & RO); exact (nodup_l2 _ _ LI RO)).
  destruct o as [k v|k|k|k| | |]; cbn [CacheModel.step CacheSpec.s2_step CacheSpec.settles].
  - (* Put *)
    unfold cache_put. change put_stored_result with true. change put_refused_result with false. rewrite Hlim.
    assert (Hkey : put_refuse (sizeOf v) lim = false -> key_ok (store c) k).
    { intro Hr. apply (op_ok_key c (OPut k v) k Hok). right. right. exists v. rewrite Hlim. auto. }
    revert Hkey. unfold put_refuse.
    destruct (sizeOf v >? lim) eqn:G; intro Hkey.
    { exists c. cbn. split; [reflexivity|]. split; [exact R|]. split; [discriminate|reflexivity]. }
    specialize (Hkey eq_refl).
    apply gtb_false in G. rewrite (check2 _ _ k HO).
    assert (Tail : forall (s1 : lru) size1 cnt1 log1 l1,
      O2 s1 l1 -> find l1 k = None -> cnt1 = Z.of_nat (length l1) -> size1 = total l1 ->
      exists c',
        (cdo (s2, cnt2, size2, log2) <-
           put_evict_loop (S (length (data (access s1)))) s1 cnt1 size1 lim (sizeOf v) log1;
         cdo s3 <- lru_store s2 k v;
         COk ({| store := s3; csize := put_final_size size2 (sizeOf v); count := put_final_count cnt2; limit := lim |}, true, log2))
        = COk (c', true, log1 ++ snd (make_room l1 (sizeOf v))) /\
        R2 c' (fst (make_room l1 (sizeOf v)) ++ [(k, v)]) /\ top_last (store c')).
    { intros s1 size1 cnt1 log1 l1 HO1 F1 Hc1 Hs1.
      assert (Hlen : length (data (access s1)) = length l1).
      { destruct HO1 as (_ & _ & _ & RO). rewrite (Permutation_length (rord_perm _ _ RO)). unfold ents. rewrite map_length. reflexivity. }
      destruct (put_loop2 (S (length (data (access s1)))) s1 cnt1 size1 log1 l1 (sizeOf v) HO1)
        as (s2 & l2 & ev & HM & HL & HO2 & Hfit & Hfind & _); try assumption; try lia.
      destruct (store2 s2 l2 k v HO2 (Hfind k F1)) as (s3 & HSt & HO3 & _ & TL3).
      eexists. rewrite HL. cbn [cbind]. rewrite HSt. cbn [cbind]. rewrite HM. cbn [fst snd].
      split; [reflexivity|]. split; [|exact TL3]. unfold R2. cbn [store csize count limit].
      split; [exact HO3|]. unfold put_final_size, put_final_count.
      rewrite (total_app K V sizeOf). cbn [CacheSpec.total]. rewrite app_length. cbn [length].
      repeat split; lia. }
    destruct (find l k) as [old|] eqn:F; cbn [cbind].
    + destruct (remove2 _ _ k old HO Hkey F) as (s1 & HR & HO1 & _). rewrite HR. cbn [cbind].
      destruct (Tail s1 (put_replace_size (csize c) (sizeOf old)) (put_replace_count (count c))
                     (fires K V put_ncalls_onEvict 1 (k, old)) (del l k) HO1) as (c' & HT & HR2 & TL).
      * exact (find_del_same l k old ND F).
      * unfold put_replace_count. rewrite (length_del l k old F) in Hcnt. lia.
      * unfold put_replace_size. rewrite (total_del l k old F) in Hsz. lia.
      * exists c'. rewrite HT. cbn [cbind].
        destruct (make_room (del l k) (sizeOf v)) as [l2 ev2]. cbn [fst snd] in *.
        split; [unfold fires, put_ncalls_onEvict; cbn; reflexivity|]. split; [exact HR2|]. split; [intros _; exact TL|discriminate].
    + destruct (Tail (store c) (csize c) (count c) [] l HO F Hcnt Hsz) as (c' & HT & HR2 & TL).
      exists c'. rewrite HT. cbn [cbind app].
      destruct (make_room l (sizeOf v)) as [l2 ev2]. cbn [fst snd] in *.
      split; [reflexivity|]. split; [exact HR2|]. split; [intros _; exact TL|discriminate].
  - (* Get *)
    unfold cache_get. destruct (find l k) as [v|] eqn:F.
    + assert (Hkey : key_ok (store c) k) by (apply (op_ok_key c (OGet k) k Hok); left; reflexivity).
      destruct (access2 _ _ k v HO Hkey F) as (s' & HA & HO' & _ & TL). rewrite HA. cbn [cbind fst snd].
      eexists. split; [reflexivity|]. split; [|split; [intros _; exact TL|discriminate]].
      unfold R2. cbn [store csize count limit fst].
      split; [exact HO'|]. rewrite (total_app K V sizeOf). cbn [CacheSpec.total]. rewrite app_length. cbn [length].
      rewrite (total_del l k v F) in Hsz. rewrite (length_del l k v F) in Hcnt. repeat split; lia.
    + rewrite (access2_absent _ _ k HO F). cbn [cbind fst snd]. eexists. split; [reflexivity|].
      split; [exact R|]. split; [discriminate|reflexivity].
  - (* Has *)
    unfold cache_has. rewrite (check2 _ _ k HO). cbn [cbind]. exists c. cbn [fst snd].
    split; [destruct (find l k); reflexivity|]. split; [exact R|]. split; [discriminate|reflexivity].
  - (* Remove *)
    unfold cache_remove. change remove_found_result with true. change remove_absent_result with false.
    rewrite (check2 _ _ k HO).
    destruct (find l k) as [old|] eqn:F; cbn [cbind].
    + assert (Hkey : key_ok (store c) k) by (apply (op_ok_key c (ORemove k) k Hok); right; left; reflexivity).
      destruct (remove2 _ _ k old HO Hkey F) as (s1 & HR & HO1 & _). rewrite HR. cbn [cbind].
      eexists. split; [unfold fires, remove_ncalls_onEvict; cbn; reflexivity|]. split; [|split; discriminate].
      unfold R2. cbn [store csize count limit fst]. split; [exact HO1|]. unfold remove_size, remove_count.
      rewrite (total_del l k old F) in Hsz. rewrite (length_del l k old F) in Hcnt. repeat split; lia.
    + exists c. split; [reflexivity|]. split; [exact R|]. split; [discriminate|reflexivity].
  - (* Clear *)
    unfold cache_clear.
    assert (Hlen : length (data (access (store c))) = length l).
    { destruct HO as (_ & _ & _ & RO). rewrite (Permutation_length (rord_perm _ _ RO)). unfold ents. rewrite map_length. reflexivity. }
    destruct (clear_loop2 (S (length (data (access (store c))))) (store c) (csize c) (count c) [] l HO) as (s' & HL & HO' & _); try assumption; try lia.
    rewrite HL. cbn [cbind app]. unfold clear_inconsistent. cbn [Z.eqb negb orb].
    eexists. split; [reflexivity|]. split; [|split; [intros _; cbn [store]; exact (top_last_nil _ (O2_nil_data _ HO'))|discriminate]].
    unfold R2. cbn [store csize count limit fst]. split; [exact HO'|]. cbn. repeat split; lia.
  - (* Len *)
    exists c. split; [|split; [exact R|split; [discriminate|reflexivity]]]. cbn. unfold cache_len, len_result. rewrite Hcnt. reflexivity.
  - (* Size *)
    exists c. split; [|split; [exact R|split; [discriminate|reflexivity]]]. cbn. unfold cache_size, size_result. rewrite Hsz. reflexivity.
Qed.

Lemma run_ok_step c o ops c' rl : run_ok c (o :: ops) -> step c o = COk (c', rl) -> op_ok c o /\ run_ok c' ops.
Proof.
  intros [S|[Hv Hs]] HS; [split; left; exact S|].
  cbn [CacheModel.run_safe] in Hs. rewrite HS in Hs. apply andb_prop in Hs. destruct Hs as [A B].
  split; right; split; assumption.
Qed.

Lemma run_ok_head c o ops : run_ok c (o :: ops) -> op_ok c o.
Proof.
  intros [S|[Hv Hs]]; [left; exact S|]. cbn [CacheModel.run_safe] in Hs. apply andb_prop in Hs. destruct Hs as [A _].
  right; split; assumption.
Qed.

Lemma run2 : forall ops (c : cache) l, R2 c l -> run_ok c ops -> run c ops = map ok_event (s2_run l ops).
Proof.
  induction ops as [|o ops IH]; intros c l R Hok; [reflexivity|].
  destruct (step2 c l o R (run_ok_head _ _ _ Hok)) as (c' & HS & R' & _).
  destruct (run_ok_step _ _ _ _ _ Hok HS) as [_ Hok'].
  cbn [CacheModel.run CacheSpec.s2_run]. rewrite HS.
  destruct (s2_step l o) as [l' [r log]]. cbn [fst snd map ok_event] in *. rewrite (IH c' l' R' Hok'). reflexivity.
Qed.

Lemma R2_new : R2 {| store := lru_new K V; csize := 0; count := 0; limit := lim |} [].
Proof.
  unfold R2. cbn. split; [|repeat split; lia].
  split; [|split; [|split]].
  - split; [constructor|]. split.
    + intros i e H. unfold get in H. destruct (i <? 0); [discriminate|]. destruct (Z.to_nat i); discriminate.
    + intros k H. cbn in H. congruence.
  - split; [reflexivity|apply heap_ok_nil].
  - intros e [].
  - exists []. split; [constructor|]. split; [constructor|reflexivity].
Qed.

(* with both switches off: every history *)
Theorem refines_S2 ops : sound_heap ->
  run_new K V keqb kzero vzero sizeOf hv lim ops = map ok_event (s2_run [] ops).
Proof.
  intro S. unfold run_new, cache_new, new_bad_limit. destruct (Z.leb_spec lim 0); [lia|].
  apply run2; [exact R2_new|left; exact S].
Qed.

(* with a pop that never sifts up: every history that never starts a removal needing one *)
Theorem refines_S2_safe ops : pop_no_siftup hv = true ->
  run_new_safe K V keqb kzero vzero sizeOf hv lim ops = true ->
  run_new K V keqb kzero vzero sizeOf hv lim ops = map ok_event (s2_run [] ops).
Proof.
  intros Hv. unfold run_new, run_new_safe, cache_new, new_bad_limit. destruct (Z.leb_spec lim 0); [lia|].
  intro Hs. apply run2; [exact R2_new|right; split; assumption].
Qed.

(* ---- a condition on the history alone: [settled] (CacheSpec.v) implies [run_safe] ---- *)

(* the offset recorded for a key lies inside the heap array *)
Lemma present_range s k pos : linv s -> map_get K keqb (present s) k = Some pos -> 0 <= pos < len (data (access s)).
Proof.
  intros LI Hg. destruct (in_dec (keqb_dec K keqb keqb_spec) k (pkeys (data (access s)))) as [Hin|Hnin].
  - destruct (lookup_in K V keqb s k LI Hin) as (pos' & e & Hg' & Hget & _).
    assert (pos' = pos) by congruence. subst pos'. exact (CacheLruProofs.get_range _ _ _ _ Hget).
  - rewrite (lookup_notin K V keqb s k LI Hnin) in Hg. discriminate.
Qed.

(* with the most recent entry in the last slot, no removal needs a sift-up *)
Lemma rm_safe_top s pos : top_last s -> 0 <= pos < len (data (access s)) -> rm_safe K V (data (access s)) pos = true.
Proof.
  intros TL Hr. unfold rm_safe. set (d := data (access s)) in *.
  destruct (Z.eqb_spec pos 0) as [|H0]; [reflexivity|].
  destruct (Z.leb_spec (len d - 1) pos) as [|H1]; [reflexivity|]. cbn [orb].
  destruct (get_some prio d (len d - 1)) as [last Hl]; [lia|].
  destruct (parent_child pos) as [_ Hp]; [lia|].
  destruct (get_some prio d ((pos - 1) / 2)) as [par Hpar]; [lia|].
  rewrite Hl, Hpar. apply Z.leb_le. apply (TL last Hl). eapply HeapqArray.get_In. exact Hpar.
Qed.

(* a valid heap of at most 5 elements: the last element is a descendant of the parent of every
   interior offset, so no removal needs a sift-up *)
Lemma rm_safe_small (d : list prio) pos :
  heap_ok prio cmpp d -> len d <= 5 -> 0 <= pos < len d -> rm_safe K V d pos = true.
Proof.
  intros Hh H5 Hr. unfold rm_safe.
  destruct (Z.eqb_spec pos 0) as [|H0]; [reflexivity|].
  destruct (Z.leb_spec (len d - 1) pos) as [|H1]; [reflexivity|]. cbn [orb].
  destruct (get_some prio d (len d - 1)) as [last Hl]; [lia|].
  assert (Hcase : (pos = 1 \/ pos = 2) \/ (pos = 3 /\ len d = 5)) by lia.
  destruct Hcase as [Hc|[-> H5']].
  - assert (E : (pos - 1) / 2 = 0) by (destruct Hc as [-> | ->]; reflexivity). rewrite E.
    destruct (get_some prio d 0) as [root Hroot]; [lia|]. rewrite Hl, Hroot. apply Z.leb_le. apply cmpp_le.
    apply (root_minimal prio cmpp cmpp_tp d root Hh Hroot). eapply HeapqArray.get_In. exact Hl.
  - change ((3 - 1) / 2) with 1. destruct (get_some prio d 1) as [par Hpar]; [lia|]. rewrite Hl, Hpar.
    apply Z.leb_le. apply cmpp_le. rewrite H5' in Hl. change (5 - 1) with 4 in Hl.
    apply (Hh 1 ltac:(lia) 4 ltac:(right; reflexivity) par last Hpar Hl).
Qed.

Lemma settled_op_safe c l o top :
  R2 c l -> (top = true -> top_last (store c)) ->
  negb (hits l o) || top || (Z.of_nat (length l) <=? 5) = true -> op_safe c o = true.
Proof.
  intros (HO & _ & _ & Hlim) Htop Hs. destruct HO as (LI & [Hc Hh] & FR & RO).
  assert (Hlen : len (data (access (store c))) = Z.of_nat (length l)).
  { unfold len. rewrite (Permutation_length (rord_perm _ _ RO)). unfold ents. rewrite map_length. reflexivity. }
  assert (Hkey : forall k, (find l k = None) \/ top = true \/ Z.of_nat (length l) <= 5 ->
            match map_get K keqb (present (store c)) k with
            | Some pos => rm_safe K V (data (access (store c))) pos
            | None => true
            end = true).
  { intros k Hk. destruct (map_get K keqb (present (store c)) k) as [pos|] eqn:Hg; [|reflexivity].
    pose proof (present_range _ _ _ LI Hg) as Hr.
    destruct Hk as [F|[T|L5]].
    - rewrite (find_l2 _ _ k LI RO) in F. apply (find_None_notin K V keqb keqb_spec) in F. rewrite keys_ents in F.
      rewrite (lookup_notin K V keqb _ k LI F) in Hg. discriminate.
    - exact (rm_safe_top _ _ (Htop T) Hr).
    - apply rm_safe_small; [exact Hh|lia|exact Hr]. }
  assert (Hsplit : forall b, negb b || top || (Z.of_nat (length l) <=? 5) = true ->
            b = false \/ top = true \/ Z.of_nat (length l) <= 5).
  { intros b H. apply orb_true_iff in H. destruct H as [H|H]; [|right; right; apply Z.leb_le; exact H].
    apply orb_true_iff in H. destruct H as [H|H]; [left; destruct b; [discriminate|reflexivity]|right; left; exact H]. }
  unfold CacheModel.op_safe. destruct o as [k v|k|k|k| | |]; try reflexivity; cbn [CacheSpec.hits] in Hs.
  - rewrite Hlim. unfold put_refuse. destruct (sizeOf v >? lim); [reflexivity|].
    apply Hkey. apply Hsplit in Hs. destruct Hs as [H|H]; [left; destruct (find l k); [discriminate|reflexivity]|right; exact H].
  - apply Hkey. apply Hsplit in Hs. destruct Hs as [H|H]; [left; destruct (find l k); [discriminate|reflexivity]|right; exact H].
  - apply Hkey. apply Hsplit in Hs. destruct Hs as [H|H]; [left; destruct (find l k); [discriminate|reflexivity]|right; exact H].
Qed.

Lemma settled_run_safe : pop_no_siftup hv = true ->
  forall ops c l top, R2 c l -> (top = true -> top_last (store c)) -> settled top l ops = true -> run_safe c ops = true.
Proof.
  intro Hv. induction ops as [|o ops IH]; intros c l top R Htop Hs; [reflexivity|].
  cbn [CacheSpec.settled] in Hs. apply andb_prop in Hs. destruct Hs as [Hs1 Hs2].
  pose proof (settled_op_safe c l o top R Htop Hs1) as Hop.
  cbn [CacheModel.run_safe]. rewrite Hop. cbn [andb].
  destruct (step2 c l o R (or_intror (conj Hv Hop))) as (c' & HS & R' & Ht & Hn). rewrite HS.
  apply (IH c' (fst (s2_step l o)) (match settles l o with Some b => b | None => top end) R'); [|exact Hs2].
  destruct (settles l o) as [[|]|]; [intros _; exact (Ht eq_refl)|discriminate|].
  intro T. rewrite (Hn eq_refl). exact (Htop T).
Qed.

(* every settled history, with a pop that never sifts up *)
Theorem refines_S2_settled ops : pop_no_siftup hv = true ->
  settled true [] ops = true ->
  run_new K V keqb kzero vzero sizeOf hv lim ops = map ok_event (s2_run [] ops).
Proof.
  intros Hv Hs. apply (refines_S2_safe ops Hv).
  unfold run_new_safe, cache_new, new_bad_limit. destruct (Z.leb_spec lim 0); [lia|].
  apply (settled_run_safe Hv ops _ [] true R2_new); [|exact Hs].
  intros _. apply top_last_nil. reflexivity.
Qed.

End S2.
