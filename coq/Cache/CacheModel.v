(* Model of cache/cache.go (Cache) and cache/lru.go (lruStore).  Definitions only, no proofs.

   lruStore = the heapq model (Heapq/HeapqModel.v, imported, with its two known-finding switches)
   holding prioKey records (lastAccess, key, value) ordered by lastAccess, the Go map [present]
   (key -> heap offset) as an association list without duplicate keys, and the logical clock.
   The Update callback installed by LRU() ("present[v.key] = pos") is replayed from the heap
   model's move log after every heap call ([apply_moves]); the heap operations never read
   [present], so replaying afterwards is the same as running the callback inside them.

   Cache = the store + size, count, limit.  Every method returns the calls made to the OnEvict
   callback, in order.  Panics are explicit results:
     PIndex        heapq's "index out of range" (Peek/Remove of a negative offset) or a slice index
                   out of range inside heapq
     PEvictEmpty   lruStore.Evict on an empty store
     PStorePresent lruStore.Store of a key that is present
     PClearCheck   Clear's consistency check
     PBadLimit     New with limit <= 0
   and exhausted loop fuel is [CFuel].  CacheProofs shows none of them happens for limit > 0 and
   sizes >= 0.

   Arithmetic, conditions and the number of callback sites come from Gen/CacheIdx.v and
   Gen/CacheLru.v, regenerated from the Go source on every run.

   Keys and values are abstract: [keqb] is Go's == on the comparable key type, [kzero]/[vzero] are
   the zero values (returned with ok = false, and used by lruStore.Access when heapq.Remove
   reports nothing), [sizeOf] is the size function. *)
From Coq Require Import ZArith List Bool.
Import ListNotations.
From Mds Require Import Gen.CacheIdx Gen.CacheLru Heapq.HeapqModel Cache.CacheSpec.
Local Open Scope Z_scope.

(* The calls each method makes, as the control skeleton below assumes them — the number of call
   sites of every store/heap method per Go function, regenerated from the source on every run.
   Likewise the order of the statements the skeleton fixes (positions of the calls/assignments in
   source order) and the statement skeleton of each function.
   [store_shape] is true exactly when the source still has this shape (CacheTheoremsS2.store_shape_ok,
   C08_store_shape: the obligation that breaks when a call is added, dropped or redirected). *)
Definition store_shape : bool :=
  (* cache.go *)
  (CacheIdx.put_ncalls_Check =? 1) && (CacheIdx.put_ncalls_Remove =? 1) && (CacheIdx.put_ncalls_Evict =? 1) &&
  (CacheIdx.put_ncalls_Store =? 1) && (CacheIdx.put_ncalls_Access =? 0) && (CacheIdx.put_ncalls_sizeOf =? 3) &&
  (CacheIdx.put_ncalls_onEvict =? 2) &&
  (CacheIdx.get_ncalls_Access =? 1) && (CacheIdx.get_ncalls_Check =? 0) &&
  (CacheIdx.has_ncalls_Check =? 1) && (CacheIdx.has_ncalls_Access =? 0) &&
  (CacheIdx.remove_ncalls_Check =? 1) && (CacheIdx.remove_ncalls_Remove =? 1) && (CacheIdx.remove_ncalls_onEvict =? 1) &&
  (CacheIdx.clear_ncalls_Evict =? 1) && (CacheIdx.clear_ncalls_onEvict =? 1) &&
  (* lru.go *)
  (CacheLru.prio_cmp_ncalls =? 1) && (CacheLru.check_ncalls_Peek =? 1) &&
  (CacheLru.access_ncalls_Remove =? 1) && (CacheLru.access_ncalls_Add =? 1) && (CacheLru.access_ncalls_Peek =? 0) &&
  (CacheLru.access_ncalls_Len =? 0) && (CacheLru.access_ncalls_Pop =? 0) &&
  (CacheLru.store_ncalls_Add =? 1) &&
  (CacheLru.lremove_ncalls_Remove =? 1) && (CacheLru.lremove_ncalls_delete =? 1) &&
  (CacheLru.evict_ncalls_Pop =? 1) && (CacheLru.evict_ncalls_Remove =? 0) && (CacheLru.evict_ncalls_delete =? 1) &&
  (* the ORDER of the statements, as the skeleton below has it (positions in source order) *)
  (* Put: Check < store.Remove < callback(replaced) < size -= < count-- < [loop: Evict < callback(victim) < count-- < size -=]
          < Store < size += < count++ *)
  (CacheIdx.put_ord_Check <? CacheIdx.put_ord_Remove) && (CacheIdx.put_ord_Remove <? CacheIdx.put_ord_onEvict0) &&
  (CacheIdx.put_ord_onEvict0 <? CacheIdx.put_ord_size0) && (CacheIdx.put_ord_size0 <? CacheIdx.put_ord_count0) &&
  (CacheIdx.put_ord_count0 <? CacheIdx.put_ord_Evict) && (CacheIdx.put_ord_Evict <? CacheIdx.put_ord_onEvict1) &&
  (CacheIdx.put_ord_onEvict1 <? CacheIdx.put_ord_count1) && (CacheIdx.put_ord_count1 <? CacheIdx.put_ord_size1) &&
  (CacheIdx.put_ord_size1 <? CacheIdx.put_ord_Store) && (CacheIdx.put_ord_Store <? CacheIdx.put_ord_size2) &&
  (CacheIdx.put_ord_size2 <? CacheIdx.put_ord_count2) &&
  (CacheIdx.remove_ord_Check <? CacheIdx.remove_ord_Remove) &&
  (* Access: clock++ < heap Remove < stamp < Add;  Store: clock++ < Add;  Remove: heap Remove < delete;  Evict: Pop < delete *)
  (CacheLru.access_ord_clock <? CacheLru.access_ord_Remove) && (CacheLru.access_ord_Remove <? CacheLru.access_ord_stamp) &&
  (CacheLru.access_ord_stamp <? CacheLru.access_ord_Add) &&
  (CacheLru.store_ord_clock <? CacheLru.store_ord_Add) &&
  (CacheLru.lremove_ord_Remove <? CacheLru.lremove_ord_delete) &&
  (CacheLru.evict_ord_Pop <? CacheLru.evict_ord_delete) &&
  (* the statement skeletons (kind and nesting of every statement, in source order) *)
  (CacheIdx.put_shape =? 4680571537014048427317646895503439) && (CacheIdx.remove_shape =? 64951855831600975) &&
  (CacheIdx.clear_shape =? 1039256562410055423) && (CacheIdx.get_shape =? 945231) && (CacheIdx.has_shape =? 15123791) &&
  (CacheLru.check_shape =? 984060589391) && (CacheLru.access_shape =? 4030712177317455) &&
  (CacheLru.store_shape_ =? 967952008543) && (CacheLru.lremove_shape =? 3843974911) && (CacheLru.evict_shape =? 61503632975).

Inductive panic_kind := PIndex | PEvictEmpty | PStorePresent | PClearCheck | PBadLimit.

Inductive cres (A : Type) : Type :=
| COk (a : A)
| CPanic (k : panic_kind)
| CFuel.
Arguments COk {A} a.
Arguments CPanic {A} k.
Arguments CFuel {A}.

Definition cbind {A B} (r : cres A) (f : A -> cres B) : cres B :=
  match r with COk a => f a | CPanic k => CPanic k | CFuel => CFuel end.
Notation "'cdo' x <- r ; k" := (cbind r (fun x => k)) (at level 200, x pattern, r at level 100, k at level 200).

Definition lift {A} (r : res A) : cres A :=
  match r with Ok a => COk a | IndexPanic => CPanic PIndex | OutOfFuel => CFuel end.

Section Cache.
Variables K V : Type.
Variable keqb : K -> K -> bool.
Variable kzero : K.
Variable vzero : V.
Variable sizeOf : V -> Z.
Variable hv : variant.   (* which heapq this is: pinned, repaired, current_variant *)

(* ---- prioKey and comparePrio ---- *)
Record prio := { lastAccess : Z; key : K; value : V }.

(* cmp.Compare on int64, of the two expressions comparePrio passes to it (Gen: a.lastAccess and
   b.lastAccess, in this order) *)
Definition compare_prio (a b : prio) : Z :=
  match Z.compare (CacheLru.prio_cmp_left (lastAccess a) (lastAccess b)) (CacheLru.prio_cmp_right (lastAccess a) (lastAccess b)) with
  | Lt => -1 | Eq => 0 | Gt => 1
  end.

Definition zero_prio : prio := {| lastAccess := 0; key := kzero; value := vzero |}.

(* ---- the Go map present : Key -> int ---- *)
Definition pmap := list (K * Z).

Fixpoint map_get (p : pmap) (k : K) : option Z :=
  match p with
  | [] => None
  | (k', x) :: r => if keqb k' k then Some x else map_get r k
  end.

Fixpoint map_set (p : pmap) (k : K) (x : Z) : pmap :=
  match p with
  | [] => [(k, x)]
  | (k', y) :: r => if keqb k' k then (k', x) :: r else (k', y) :: map_set r k x
  end.

(* delete(present, k): no entry for k remains *)
Fixpoint map_del (p : pmap) (k : K) : pmap :=
  match p with
  | [] => []
  | (k', y) :: r => if keqb k' k then map_del r k else (k', y) :: map_del r k
  end.

(* the Update callback: lru.present[v.key] = pos, once per reported move, in order *)
Definition apply_moves (m : moves prio) (p : pmap) : pmap :=
  fold_left (fun p ep => map_set p (key (fst ep)) (snd ep)) m p.

(* ---- lruStore ---- *)
Record lru := { present : pmap; access : queue prio; clock : Z }.

Definition lru_new : lru :=
  {| present := []; access := New prio compare_prio; clock := 0 |}.

(* Check *)
Definition lru_check (s : lru) (k : K) : cres (V * bool) :=
  match map_get (present s) k with
  | None => COk (vzero, false)
  | Some pos =>
    cdo r <- lift (Peek prio (access s) (CacheLru.check_at pos));
    match r with
    | PeekPanic => CPanic PIndex
    | PeekNone => COk (vzero, false)
    | PeekSome e => COk (value e, true)
    end
  end.

(* Access *)
Definition lru_access (s : lru) (k : K) : cres (lru * (V * bool)) :=
  match map_get (present s) k with
  | None => COk (s, (vzero, false))
  | Some pos =>
    let clk := CacheLru.access_clock (clock s) in
    cdo (q1, m1, r) <- lift (Remove prio hv (access s) (CacheLru.access_remove_at pos));
    match r with
    | RemPanic => CPanic PIndex
    | _ =>
      (* out, _ := c.access.Remove(pos)  -- "cannot fail": a failure would leave the zero prioKey *)
      let out := match r with RemSome e => e | _ => zero_prio end in
      let out' := {| lastAccess := CacheLru.access_stamp clk; key := key out; value := value out |} in
      cdo (q2, m2, _) <- lift (Add prio hv q1 out');
      COk ({| present := apply_moves m2 (apply_moves m1 (present s)); access := q2; clock := clk |},
           (value out', true))
    end
  end.

(* Store *)
Definition lru_store (s : lru) (k : K) (val : V) : cres lru :=
  match map_get (present s) k with
  | Some _ => CPanic PStorePresent
  | None =>
    let clk := CacheLru.store_clock (clock s) in
    cdo (q, m, pos) <- lift (Add prio hv (access s) {| lastAccess := CacheLru.store_stamp clk; key := k; value := val |});
    (* the callback has run inside Add; then c.present[key] = pos *)
    COk {| present := map_set (apply_moves m (present s)) k pos; access := q; clock := clk |}
  end.

(* Remove *)
Definition lru_remove (s : lru) (k : K) : cres lru :=
  match map_get (present s) k with
  | None => COk s
  | Some pos =>
    cdo (q, m, r) <- lift (Remove prio hv (access s) (CacheLru.lremove_at pos));
    match r with
    | RemPanic => CPanic PIndex
    | _ => COk {| present := map_del (apply_moves m (present s)) k; access := q; clock := clock s |}
    end
  end.

(* Evict *)
Definition lru_evict (s : lru) : cres (lru * (K * V)) :=
  cdo (q, m, o) <- lift (Pop prio hv (access s));
  match o with
  | None => CPanic PEvictEmpty
  | Some e =>
    COk ({| present := map_del (apply_moves m (present s)) (key e); access := q; clock := clock s |},
         (key e, value e))
  end.

(* ---- Cache ---- *)
Record cache := { store : lru; csize : Z; count : Z; limit : Z }.

Definition cache_new (lim : Z) : cres cache :=
  if CacheIdx.new_bad_limit lim then CPanic PBadLimit
  else COk {| store := lru_new; csize := 0; count := 0; limit := lim |}.

(* the callback at the k-th of Put's sites (1 = replaced entry, 2 = eviction loop) fires when the
   source still has that many calls of c.onEvict *)
Definition fires (sites : Z) (k : Z) (e : K * V) : evlog K V := if k <=? sites then [e] else [].

(* for c.size > c.limit-valSize { ek, ev := c.store.Evict(); c.onEvict(ek, ev); c.count--; c.size -= c.sizeOf(ev) }
   (the loop as repaired by /repo 3977891, F12: the test no longer adds the sizes).
   Every round pops one element of the heap and Evict panics on an empty one, so the number of
   rounds is bounded by the heap length: fuel = S (length heap) always suffices. *)
Fixpoint put_evict_loop (fuel : nat) (s : lru) (cnt size lim valSize : Z) (log : evlog K V) : cres (lru * Z * Z * evlog K V) :=
  match fuel with
  | O => CFuel
  | S f =>
    if CacheIdx.put_evict_continue size lim valSize then
      cdo (s', e) <- lru_evict s;
      put_evict_loop f s' (CacheIdx.put_evict_count cnt) (CacheIdx.put_evict_size size (sizeOf (snd e))) lim valSize
                     (log ++ fires CacheIdx.put_ncalls_onEvict 2 e)
    else COk (s, cnt, size, log)
  end.

Definition cache_put (c : cache) (k : K) (val : V) : cres (cache * bool * evlog K V) :=
  let valSize := sizeOf val in
  if CacheIdx.put_refuse valSize (limit c) then COk (c, CacheIdx.put_refused_result, [])
  else
    cdo (old, ok) <- lru_check (store c) k;
    cdo (s1, size1, cnt1, log1) <-
      (if ok : bool then
         cdo s' <- lru_remove (store c) k;
         COk (s', CacheIdx.put_replace_size (csize c) (sizeOf old), CacheIdx.put_replace_count (count c),
              fires CacheIdx.put_ncalls_onEvict 1 (k, old))
       else COk (store c, csize c, count c, []));
    cdo (s2, cnt2, size2, log2) <-
      put_evict_loop (S (length (data (access s1)))) s1 cnt1 size1 (limit c) valSize log1;
    cdo s3 <- lru_store s2 k val;
    COk ({| store := s3; csize := CacheIdx.put_final_size size2 valSize; count := CacheIdx.put_final_count cnt2; limit := limit c |},
         CacheIdx.put_stored_result, log2).

Definition cache_get (c : cache) (k : K) : cres (cache * (V * bool)) :=
  cdo (s, r) <- lru_access (store c) k;
  COk ({| store := s; csize := csize c; count := count c; limit := limit c |}, r).

Definition cache_has (c : cache) (k : K) : cres bool :=
  cdo (_, ok) <- lru_check (store c) k; COk ok.

Definition cache_remove (c : cache) (k : K) : cres (cache * bool * evlog K V) :=
  cdo (old, ok) <- lru_check (store c) k;
  if ok : bool then
    cdo s' <- lru_remove (store c) k;
    COk ({| store := s'; csize := CacheIdx.remove_size (csize c) (sizeOf old); count := CacheIdx.remove_count (count c); limit := limit c |},
         CacheIdx.remove_found_result, fires CacheIdx.remove_ncalls_onEvict 1 (k, old))
  else COk (c, CacheIdx.remove_absent_result, []).

(* for c.count > 0 { ek, ev := c.store.Evict(); c.onEvict(ek, ev); c.size -= c.sizeOf(ev); c.count-- } *)
Fixpoint clear_loop (fuel : nat) (s : lru) (size cnt : Z) (log : evlog K V) : cres (lru * Z * Z * evlog K V) :=
  match fuel with
  | O => CFuel
  | S f =>
    if CacheIdx.clear_continue cnt then
      cdo (s', e) <- lru_evict s;
      clear_loop f s' (CacheIdx.clear_size size (sizeOf (snd e))) (CacheIdx.clear_count cnt)
                 (log ++ fires CacheIdx.clear_ncalls_onEvict 1 e)
    else COk (s, size, cnt, log)
  end.

Definition cache_clear (c : cache) : cres (cache * evlog K V) :=
  cdo (s, size, cnt, log) <- clear_loop (S (length (data (access (store c))))) (store c) (csize c) (count c) [];
  if CacheIdx.clear_inconsistent size cnt then CPanic PClearCheck
  else COk ({| store := s; csize := size; count := cnt; limit := limit c |}, log).

Definition cache_len (c : cache) : Z := CacheIdx.len_result (count c).
Definition cache_size (c : cache) : Z := CacheIdx.size_result (csize c).

(* ---- histories (op, out, evlog are defined in CacheSpec.v) ---- *)
(* one call: the new cache, the result and the OnEvict calls made during it *)
Definition step (c : cache) (o : op K V) : cres (cache * (out V * evlog K V)) :=
  match o with
  | OPut k v => cdo (c', b, log) <- cache_put c k v; COk (c', (RBool b, log))
  | OGet k => cdo (c', r) <- cache_get c k; COk (c', (RGet (fst r) (snd r), []))
  | OHas k => cdo b <- cache_has c k; COk (c, (RBool b, []))
  | ORemove k => cdo (c', b, log) <- cache_remove c k; COk (c', (RBool b, log))
  | OClear => cdo (c', log) <- cache_clear c; COk (c', (RUnit, log))
  | OLen => COk (c, (RNum (cache_len c), []))
  | OSize => COk (c, (RNum (cache_size c), []))
  end.

(* what a history shows; a failing call ends the list with its failure *)
Inductive event := EOk (r : out V) (log : evlog K V) | EPanic (k : panic_kind) | EFuel.

Fixpoint run (c : cache) (ops : list (op K V)) : list event :=
  match ops with
  | [] => []
  | o :: ops' =>
    match step c o with
    | COk (c', (r, log)) => EOk r log :: run c' ops'
    | CPanic k => [EPanic k]
    | CFuel => [EFuel]
    end
  end.

(* the same with the cache after every call, for the comparison of internals with the hook *)
Fixpoint run_states (c : cache) (ops : list (op K V)) : list (event * option cache) :=
  match ops with
  | [] => []
  | o :: ops' =>
    match step c o with
    | COk (c', (r, log)) => (EOk r log, Some c') :: run_states c' ops'
    | CPanic k => [(EPanic k, None)]
    | CFuel => [(EFuel, None)]
    end
  end.

(* the state after a history (None if a call failed) *)
Fixpoint exec (c : cache) (ops : list (op K V)) : option cache :=
  match ops with
  | [] => Some c
  | o :: ops' => match step c o with COk (c', _) => exec c' ops' | _ => None end
  end.

(* ---- the trigger of known finding F2, as a test on the state a call starts from ----
   heapq.Remove(pos) moves the element of the last slot into the hole at pos and (on the pinned
   tree) only sifts it down.  That keeps the heap a heap exactly when pos is the root or the last
   slot, or the moved element is not older than the hole's parent (CacheHeapGuard.v:
   pop_heap_no_siftup, pop_breaks_order). *)
Definition rm_safe (d : list prio) (pos : Z) : bool :=
  (pos =? 0) || (len d - 1 <=? pos) ||
  match get d (len d - 1), get d ((pos - 1) / 2) with
  | Some last, Some par => lastAccess par <=? lastAccess last
  | _, _ => false
  end.

(* the call o performs no heapq.Remove that would need a sift-up: only Get, Remove and a replacing
   Put call heapq.Remove, at the offset recorded for their key *)
Definition op_safe (c : cache) (o : op K V) : bool :=
  let at_key k := match map_get (present (store c)) k with
                  | Some pos => rm_safe (data (access (store c))) pos
                  | None => true
                  end in
  match o with
  | OPut k v => if CacheIdx.put_refuse (sizeOf v) (limit c) then true else at_key k
  | OGet k | ORemove k => at_key k
  | _ => true
  end.

(* ... along a whole history (a failing call ends the history, as in [run]) *)
Fixpoint run_safe (c : cache) (ops : list (op K V)) : bool :=
  match ops with
  | [] => true
  | o :: ops' =>
    op_safe c o && match step c o with COk (c', _) => run_safe c' ops' | _ => true end
  end.

(* cache.New(limit, LRU().WithSize(sizeOf).OnEvict(log)) followed by a history *)
Definition run_new (lim : Z) (ops : list (op K V)) : list event :=
  match cache_new lim with
  | COk c => run c ops
  | CPanic k => [EPanic k]
  | CFuel => [EFuel]
  end.

Definition run_new_safe (lim : Z) (ops : list (op K V)) : bool :=
  match cache_new lim with
  | COk c => run_safe c ops
  | _ => true
  end.

Definition run_new_states (lim : Z) (ops : list (op K V)) : list (event * option cache) :=
  match cache_new lim with
  | COk c => run_states c ops
  | CPanic k => [(EPanic k, None)]
  | CFuel => [(EFuel, None)]
  end.

End Cache.

Arguments lastAccess {K V} p.
Arguments key {K V} p.
Arguments value {K V} p.
Arguments present {K V} l.
Arguments access {K V} l.
Arguments clock {K V} l.
Arguments store {K V} c.
Arguments csize {K V} c.
Arguments count {K V} c.
Arguments limit {K V} c.
Arguments EOk {K V} r log.
Arguments EPanic {K V} k.
Arguments EFuel {K V}.

(* a normal return as an event *)
Definition ok_event {K V} (rl : out V * evlog K V) : event K V := EOk (fst rl) (snd rl).

(* ---- the instance replayed against the implementation: int keys and values ---- *)
(* size functions of the harness: mode 0 = default (1), 0 < k < 1000: v mod k, k < 0: v mod (-k) - 1
   (Go's % on the non-negative values the harness uses), 1000 + k: v << k (big sizes; the harness
   keeps v << k below 2^62) *)
Definition size_mode (mode : Z) (v : Z) : Z :=
  if mode =? 0 then 1
  else if 1000 <=? mode then v * 2 ^ (mode - 1000)
  else if 0 <? mode then Z.rem v mode else Z.rem v (- mode) - 1.

Definition run_Z (hv : variant) (mode lim : Z) (ops : list (op Z Z)) : list (event Z Z * option (cache Z Z)) :=
  run_new_states Z Z Z.eqb 0 0 (size_mode mode) hv lim ops.

(* no call of the history starts a heapq.Remove that needs a sift-up (the F2 trigger never fires) *)
Definition safe_Z (hv : variant) (mode lim : Z) (ops : list (op Z Z)) : bool :=
  run_new_safe Z Z Z.eqb 0 0 (size_mode mode) hv lim ops.
