(* Machine integers in cache.go.  The model computes size, newSize and count in unbounded Z; the Go
   code computes size/newSize in int64 and count in int.

   With sizes >= 0 every reachable cache has 0 <= size <= limit (C08_consistent).  Starting from
   such a state the only values ever computed are
     c.size - sizeOf(old)           (Put/Remove/Clear; old is present, so the result is in [0, size])
     newSize := c.size + valSize    (Put; valSize <= limit was checked, so the sum is in [0, 2*limit])
     newSize -= sizeOf(ev)          (eviction loop; ev is present, the result is in [valSize, newSize])
   so all of them lie in [0, 2*limit].  Hence the Z model is faithful for every limit with
   2*limit < 2^63.  For a larger limit the sum c.size + valSize can exceed 2^63 - 1 and the Go
   code wraps: [newsize_wraps] is the smallest witness (limit = 2^63-1, two values of size
   2^63-1), reproduced on the real package (notes/C08-audit.md): the second Put stores without
   evicting, Len() = 2, Size() = -2. *)
From Coq Require Import ZArith Lia Bool.
From Mds Require Import Gen.CacheIdx.
Local Open Scope Z_scope.

Definition int64 (z : Z) : Prop := - 2 ^ 63 <= z < 2 ^ 63.
Definition wrap64 (z : Z) : Z := (z + 2 ^ 63) mod 2 ^ 64 - 2 ^ 63.

Lemma pow63 : 2 ^ 63 = 9223372036854775808. Proof. reflexivity. Qed.
Lemma pow64 : 2 ^ 64 = 18446744073709551616. Proof. reflexivity. Qed.

Lemma wrap64_id z : int64 z -> wrap64 z = z.
Proof. unfold int64, wrap64. rewrite pow63, pow64. intro H. rewrite Z.mod_small by lia. lia. Qed.

Section Range.
Variable lim : Z.
Hypothesis lim_small : 2 * lim < 2 ^ 63.

(* newSize := c.size + valSize *)
Lemma newsize_init_range size vs :
  0 <= size <= lim -> 0 <= vs <= lim ->
  0 <= put_newsize_init size vs <= 2 * lim /\ wrap64 (put_newsize_init size vs) = put_newsize_init size vs.
Proof.
  intros H1 H2. unfold put_newsize_init. split; [lia|]. apply wrap64_id. unfold int64. rewrite pow63 in *. lia.
Qed.

(* newSize -= sizeOf(ev): ev is one of the entries newSize still counts *)
Lemma newsize_evict_range newSize vs sz rest :
  newSize = sz + rest + vs -> 0 <= sz -> 0 <= rest -> 0 <= vs -> newSize <= 2 * lim ->
  vs <= put_newsize_evict newSize sz <= newSize /\ wrap64 (put_newsize_evict newSize sz) = put_newsize_evict newSize sz.
Proof.
  intros E H1 H2 H3 H4. unfold put_newsize_evict. split; [lia|]. apply wrap64_id. unfold int64. rewrite pow63 in *. lia.
Qed.

(* c.size -= sizeOf(old) in Put, Remove and Clear: old is one of the entries size counts *)
Lemma size_sub_range size sz rest :
  size = sz + rest -> 0 <= sz -> 0 <= rest -> size <= lim ->
  0 <= put_replace_size size sz <= size /\ wrap64 (put_replace_size size sz) = put_replace_size size sz /\
  remove_size size sz = put_replace_size size sz /\ clear_size size sz = put_replace_size size sz.
Proof.
  intros E H1 H2 H3. unfold put_replace_size, remove_size, clear_size. split; [lia|]. split; [|split; reflexivity].
  apply wrap64_id. unfold int64. rewrite pow63 in *. lia.
Qed.

End Range.

(* beyond the range: limit = MaxInt64, size = MaxInt64 (one entry of that size), valSize = MaxInt64.
   In int64 the sum wraps to -2, the eviction loop does not run, and Size() becomes -2. *)
Lemma newsize_wraps :
  let lim := 2 ^ 63 - 1 in
  put_refuse lim lim = false /\
  put_evict_continue (put_newsize_init lim lim) lim = true /\            (* the model (and the property): evict *)
  wrap64 (put_newsize_init lim lim) = -2 /\
  put_evict_continue (wrap64 (put_newsize_init lim lim)) lim = false /\  (* the Go code: no eviction *)
  put_final_size (wrap64 (put_newsize_init lim lim)) = -2.
Proof. repeat split; vm_compute; reflexivity. Qed.
