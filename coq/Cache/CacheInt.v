(* Machine integers in cache.go (after the repair of F12, /repo 3977891).

   CacheModel64.v is the Cache-level model with every int64 result of the size arithmetic passed
   through [wrap].  Here:
     run_w_id   with wrap = identity it is the Z model of CacheModel.v (so the copy is the model);
     run64_eq   with wrap = wrap64 (two's-complement 64-bit wrap-around) it gives the same run as
                the Z model, for EVERY limit with 0 < limit < 2^63, every size function with values
                in [0, 2^63), every heap variant and every history: no intermediate value of
                c.size - sizeOf(x), c.limit - valSize, c.size + valSize leaves [0, limit].
   The code before the repair computed newSize := c.size + valSize, which wraps for limit > 2^62
   ([old_newsize_wraps], the witness of F12; corpus/C08/int64-overflow.in is its regression input).
   Negative sizes are outside this theorem — and the repaired test itself can wrap with them:
   [negative_size_room_wraps] (limit = 2^63-1, valSize = -1: c.limit - valSize = 2^63 wraps to
   -2^63, the loop condition c.size > -2^63 holds for every size, the loop runs the store empty and
   Evict panics).  The property excludes negative sizes (Size <= limit cannot hold with them). *)
From Coq Require Import ZArith List Bool Lia Permutation.
Import ListNotations.
From Mds Require Import Gen.CacheIdx Gen.CacheLru Gen.HeapqIdx Heapq.HeapqModel Cache.CacheSpec Cache.CacheModel Cache.CacheModel64
  Cache.CacheFacts Cache.CacheLruProofs Cache.CacheS1Proofs Cache.CacheHeapFacts.
Local Open Scope Z_scope.

Definition int64 (z : Z) : Prop := - 2 ^ 63 <= z < 2 ^ 63.

Lemma pow63 : 2 ^ 63 = 9223372036854775808. Proof. reflexivity. Qed.
Lemma pow64 : 2 ^ 64 = 18446744073709551616. Proof. reflexivity. Qed.

Lemma wrap64_id z : int64 z -> wrap64 z = z.
Proof. unfold int64, wrap64. rewrite pow63, pow64. intro H. rewrite Z.mod_small by lia. lia. Qed.

(* the explicit subtraction of put_continue_w is the one in the source's loop test *)
Lemma put_continue_tied size lim vs : put_evict_cmp size (lim - vs) = put_evict_continue size lim vs.
Proof. reflexivity. Qed.

(* ---- the wrap-parametrised copy at wrap = identity is the model ---- *)
Section Id.
Variables K V : Type.
Variable keqb : K -> K -> bool.
Variable kzero : K.
Variable vzero : V.
Variable sizeOf : V -> Z.
Variable hv : variant.
Notation idw := (fun z : Z => z).

Lemma put_loop_w_id fuel : forall s cnt size lim vs log,
  put_evict_loop_w K V keqb sizeOf hv idw fuel s cnt size lim vs log = put_evict_loop K V keqb sizeOf hv fuel s cnt size lim vs log.
Proof.
  induction fuel as [|f IH]; intros; [reflexivity|]. cbn [put_evict_loop_w put_evict_loop].
  unfold put_continue_w. rewrite put_continue_tied. destruct (put_evict_continue size lim vs); [|reflexivity].
  destruct (lru_evict K V keqb hv s) as [[s' e]| |]; cbn [cbind]; [apply IH|reflexivity|reflexivity].
Qed.

Lemma clear_loop_w_id fuel : forall s size cnt log,
  clear_loop_w K V keqb sizeOf hv idw fuel s size cnt log = clear_loop K V keqb sizeOf hv fuel s size cnt log.
Proof.
  induction fuel as [|f IH]; intros; [reflexivity|]. cbn [clear_loop_w clear_loop].
  destruct (clear_continue cnt); [|reflexivity].
  destruct (lru_evict K V keqb hv s) as [[s' e]| |]; cbn [cbind]; [apply IH|reflexivity|reflexivity].
Qed.

Lemma step_w_id c o : step_w K V keqb kzero vzero sizeOf hv idw c o = step K V keqb kzero vzero sizeOf hv c o.
Proof.
  destruct o as [k v|k|k|k| | |]; reflexivity.
Qed.

Lemma run_w_id : forall ops c, run_w K V keqb kzero vzero sizeOf hv idw c ops = run K V keqb kzero vzero sizeOf hv c ops.
Proof.
  induction ops as [|o ops IH]; intro c; [reflexivity|]. cbn [run_w run]. rewrite step_w_id.
  destruct (step K V keqb kzero vzero sizeOf hv c o) as [[c' [r log]]| |]; [rewrite IH|..]; reflexivity.
Qed.
End Id.

(* ---- 64-bit wrap-around = Z, for sizes in [0, 2^63) and 0 < limit < 2^63 ---- *)
Section W64.
Variables K V : Type.
Variable keqb : K -> K -> bool.
Hypothesis keqb_spec : forall a b, keqb a b = true <-> a = b.
Variable kzero : K.
Variable vzero : V.
Variable sizeOf : V -> Z.
Hypothesis size_range : forall v, 0 <= sizeOf v < 2 ^ 63.
Variable lim : Z.
Hypothesis lim_range : 0 < lim < 2 ^ 63.
Variable hv : variant.

Let size_nonneg : forall v, 0 <= sizeOf v := fun v => proj1 (size_range v).
Let lim_pos : 0 < lim := proj1 lim_range.
Notation HFa := (heap_add_fact_holds K V keqb keqb_spec hv).
Notation HFr := (heap_remove_fact_holds K V keqb keqb_spec hv).
Notation HFp := (heap_pop_fact_holds K V keqb keqb_spec hv).
Notation prio := (prio K V).
Notation lru := (lru K V).
Notation cache := (cache K V).
Notation linv := (linv K V keqb).
Notation total := (@total K V sizeOf).
Notation find := (@find K V keqb).
Notation R1 := (R1 K V keqb sizeOf lim).
Notation lru_evict := (lru_evict K V keqb hv).

Lemma w_id z : 0 <= z <= lim -> wrap64 z = z.
Proof. intro H. apply wrap64_id. unfold int64. rewrite pow63 in *. lia. Qed.

Lemma evict_empty (s : lru) : data (access s) = [] -> lru_evict s = CPanic PEvictEmpty.
Proof. intro E. unfold CacheModel.lru_evict, Pop, Pop_empty. rewrite E. reflexivity. Qed.

(* the store, size and log the loop ends with do not depend on the count passed in *)
Lemma put_loop_count_indep fuel : forall (s : lru) cnt cnt' size vs log s2 c2 sz lg,
  put_evict_loop K V keqb sizeOf hv fuel s cnt size lim vs log = COk (s2, c2, sz, lg) ->
  exists c2', put_evict_loop K V keqb sizeOf hv fuel s cnt' size lim vs log = COk (s2, c2', sz, lg).
Proof.
  induction fuel as [|f IH]; intros s cnt cnt' size vs log s2 c2 sz lg H; [discriminate|].
  cbn [put_evict_loop] in *. destruct (put_evict_continue size lim vs).
  - destruct (lru_evict s) as [[s' e]| |]; cbn [cbind] in *; try discriminate. exact (IH _ _ _ _ _ _ _ _ _ _ H).
  - injection H as <- _ <- <-. eexists. reflexivity.
Qed.

Lemma put_loop64 fuel : forall (s : lru) cnt size vs log,
  linv s -> size = total (ents (data (access s))) -> size <= lim -> 0 <= vs <= lim ->
  put_evict_loop_w K V keqb sizeOf hv wrap64 fuel s cnt size lim vs log = put_evict_loop K V keqb sizeOf hv fuel s cnt size lim vs log.
Proof.
  induction fuel as [|f IH]; intros s cnt size vs log LI Hs Hle Hv; [reflexivity|].
  cbn [put_evict_loop_w put_evict_loop]. unfold put_continue_w. rewrite (w_id (lim - vs)) by lia.
  rewrite put_continue_tied. destruct (put_evict_continue size lim vs); [|reflexivity].
  destruct (get (data (access s)) 0) as [e|] eqn:Hget.
  2:{ apply get_nil_0 in Hget. rewrite (evict_empty s Hget). reflexivity. }
  destruct (evict_spec K V keqb keqb_spec hv HFp s e LI Hget) as (s1 & HE & LI1 & P1 & _ & _).
  rewrite HE. cbn [cbind snd].
  pose proof (total_ents_perm K V sizeOf _ _ _ P1) as T.
  pose proof (total_nonneg K V sizeOf (ents (data (access s1))) size_nonneg) as T1.
  pose proof (size_nonneg (value e)) as Se.
  assert (Hn : put_evict_size size (sizeOf (value e)) = total (ents (data (access s1)))) by (unfold put_evict_size; lia).
  rewrite (w_id (put_evict_size size (sizeOf (value e)))) by lia.
  apply IH; [exact LI1|exact Hn|lia|exact Hv].
Qed.

Lemma clear_loop64 fuel : forall (s : lru) size cnt log,
  linv s -> size = total (ents (data (access s))) -> size <= lim ->
  clear_loop_w K V keqb sizeOf hv wrap64 fuel s size cnt log = clear_loop K V keqb sizeOf hv fuel s size cnt log.
Proof.
  induction fuel as [|f IH]; intros s size cnt log LI Hs Hle; [reflexivity|].
  cbn [clear_loop_w clear_loop]. destruct (clear_continue cnt); [|reflexivity].
  destruct (get (data (access s)) 0) as [e|] eqn:Hget.
  2:{ apply get_nil_0 in Hget. rewrite (evict_empty s Hget). reflexivity. }
  destruct (evict_spec K V keqb keqb_spec hv HFp s e LI Hget) as (s1 & HE & LI1 & P1 & _ & _).
  rewrite HE. cbn [cbind snd].
  pose proof (total_ents_perm K V sizeOf _ _ _ P1) as T.
  pose proof (total_nonneg K V sizeOf (ents (data (access s1))) size_nonneg) as T1.
  pose proof (size_nonneg (value e)) as Se.
  assert (Hn : clear_size size (sizeOf (value e)) = total (ents (data (access s1)))) by (unfold clear_size; lia).
  rewrite (w_id (clear_size size (sizeOf (value e)))) by lia.
  apply IH; [exact LI1|exact Hn|lia].
Qed.

Lemma step64 (c : cache) l o : R1 c l ->
  step_w K V keqb kzero vzero sizeOf hv wrap64 c o = step K V keqb kzero vzero sizeOf hv c o.
Proof.
  intros ((LI & Hsz & Hcnt & Hle & Hlim) & P).
  destruct o as [k v|k|k|k| | |]; cbn [step_w step]; try reflexivity.
  - (* Put *)
    unfold cache_put_w, cache_put. rewrite Hlim. unfold put_refuse.
    destruct (sizeOf v >? lim) eqn:G; [reflexivity|]. apply gtb_false in G. pose proof (size_nonneg v) as Sv.
    rewrite (check_spec K V keqb keqb_spec vzero (store c) k LI).
    assert (Tail : forall (s1 : lru) size1 cnt1 log1,
      linv s1 -> size1 = total (ents (data (access s1))) -> size1 <= lim ->
      (cdo (s2, cnt2, size2, log2) <- put_evict_loop_w K V keqb sizeOf hv wrap64 (S (length (data (access s1)))) s1 cnt1 size1 lim (sizeOf v) log1;
       cdo s3 <- lru_store K V keqb hv s2 k v;
       COk ({| store := s3; csize := wrap64 (put_final_size size2 (sizeOf v)); count := put_final_count cnt2; limit := lim |}, put_stored_result, log2))
      = (cdo (s2, cnt2, size2, log2) <- put_evict_loop K V keqb sizeOf hv (S (length (data (access s1)))) s1 cnt1 size1 lim (sizeOf v) log1;
         cdo s3 <- lru_store K V keqb hv s2 k v;
         COk ({| store := s3; csize := put_final_size size2 (sizeOf v); count := put_final_count cnt2; limit := lim |}, put_stored_result, log2))).
    { intros s1 size1 cnt1 log1 LI1 Hs1 Hle1.
      rewrite (put_loop64 _ s1 cnt1 size1 (sizeOf v) log1 LI1 Hs1 Hle1) by lia.
      destruct (put_loop_spec K V keqb keqb_spec sizeOf lim hv HFp (S (length (data (access s1)))) s1
                  (len (data (access s1))) size1 log1 (ents (data (access s1))) (sizeOf v) LI1 (Permutation_refl _))
        as (s2 & ev & l2 & HL & _ & _ & _ & Hfit & _); try assumption; try lia; try reflexivity.
      destruct (put_loop_count_indep _ _ _ cnt1 _ _ _ _ _ _ _ HL) as (cnt2 & HL').
      rewrite HL'. cbn [cbind].
      destruct (lru_store K V keqb hv s2 k v); cbn [cbind]; try reflexivity.
      pose proof (total_nonneg K V sizeOf (ents (data (access s2))) size_nonneg).
      rewrite (w_id (put_final_size _ _)) by (unfold put_final_size; lia). reflexivity. }
    destruct (find (ents (data (access (store c)))) k) as [old|] eqn:F; cbn [cbind].
    + destruct (remove_spec K V keqb keqb_spec hv HFr (store c) k old LI F) as (s1 & e & HR & LI1 & Hk & Hv & P1 & _ & _).
      rewrite HR. cbn [cbind].
      pose proof (total_ents_perm K V sizeOf _ _ _ P1) as T. rewrite Hv in T.
      pose proof (total_nonneg K V sizeOf (ents (data (access s1))) size_nonneg) as T1.
      pose proof (size_nonneg old) as So.
      assert (Hn : put_replace_size (csize c) (sizeOf old) = total (ents (data (access s1)))) by (unfold put_replace_size; lia).
      rewrite (w_id (put_replace_size (csize c) (sizeOf old))) by lia.
      rewrite (Tail s1 _ (put_replace_count (count c)) (fires K V put_ncalls_onEvict 1 (k, old)) LI1 Hn) by lia. reflexivity.
    + rewrite (Tail (store c) (csize c) (count c) [] LI Hsz Hle). reflexivity.
  - (* Remove *)
    unfold cache_remove_w, cache_remove.
    rewrite (check_spec K V keqb keqb_spec vzero (store c) k LI).
    destruct (find (ents (data (access (store c)))) k) as [old|] eqn:F; cbn [cbind]; [|reflexivity].
    destruct (remove_spec K V keqb keqb_spec hv HFr (store c) k old LI F) as (s1 & e & HR & LI1 & Hk & Hv & P1 & _ & _).
    rewrite HR. cbn [cbind].
    pose proof (total_ents_perm K V sizeOf _ _ _ P1) as T. rewrite Hv in T.
    pose proof (total_nonneg K V sizeOf (ents (data (access s1))) size_nonneg) as T1.
    pose proof (size_nonneg old) as So.
    rewrite (w_id (remove_size (csize c) (sizeOf old))) by (unfold remove_size; lia). reflexivity.
  - (* Clear *)
    unfold cache_clear_w, cache_clear. rewrite (clear_loop64 _ (store c) (csize c) (count c) [] LI Hsz Hle). reflexivity.
Qed.

Lemma run64 : forall ops (c : cache) l, R1 c l ->
  run_w K V keqb kzero vzero sizeOf hv wrap64 c ops = run K V keqb kzero vzero sizeOf hv c ops.
Proof.
  induction ops as [|o ops IH]; intros c l R; [reflexivity|]. cbn [run_w run]. rewrite (step64 c l o R).
  destruct (step_s1 K V keqb keqb_spec kzero vzero sizeOf size_nonneg lim lim_pos hv HFa HFr HFp c l o R)
    as (c' & r & log & l' & HS & _ & R').
  rewrite HS. rewrite (IH c' l' R'). reflexivity.
Qed.

Theorem run64_eq ops :
  run_new_w K V keqb kzero vzero sizeOf hv wrap64 lim ops = run_new K V keqb kzero vzero sizeOf hv lim ops.
Proof.
  unfold run_new_w, run_new, cache_new, new_bad_limit. destruct (Z.leb_spec lim 0); [lia|].
  apply (run64 ops _ []). exact (R1_new K V keqb sizeOf lim lim_pos).
Qed.

End W64.

(* the test before the repair, newSize := c.size + valSize; for newSize > c.limit: with
   limit = size = valSize = 2^63-1 the sum wraps to -2 and the loop does not run *)
Lemma old_newsize_wraps :
  let lim := 2 ^ 63 - 1 in
  wrap64 (lim + lim) = -2 /\ (wrap64 (lim + lim) >? lim) = false /\ (lim + lim >? lim) = true /\
  (* the repaired test on the same state evicts, in Z and in 64 bits alike *)
  put_evict_continue lim lim lim = true /\ put_evict_cmp lim (wrap64 (lim - lim)) = true.
Proof. repeat split; vm_compute; reflexivity. Qed.

(* what remains outside: a negative size makes the repaired test's subtraction wrap *)
Lemma negative_size_room_wraps :
  let lim := 2 ^ 63 - 1 in
  put_refuse (-1) lim = false /\ wrap64 (lim - (-1)) = - 2 ^ 63 /\
  put_evict_continue 0 lim (-1) = false /\            (* Z: an empty cache has room *)
  put_evict_cmp 0 (wrap64 (lim - (-1))) = true.       (* 64 bits: the loop runs on an empty store *)
Proof. repeat split; vm_compute; reflexivity. Qed.
