(* C09 — two concrete runs of the small-step model of Conc.v, both computed with [run_sched].

   1. [conc_reach_example]: a schedule of the cache as it is (every method one exclusive section).

   2. [check_then_act_refuted]: the atomicity condition of [atomic_linearizable] is necessary.  The
      same cache, except that Remove is made of TWO exclusive critical sections, as in seeded change
      S-C09-2 ("if !c.Has(key) { return false }; c.mu.Lock(); defer c.mu.Unlock(); remove without
      looking again"): section 0 is the C08 step of Has(key), its answer kept in the call's local
      state; section 1 removes the key unconditionally when the answer was true (the callback is
      given whatever Check returns now, size and count are decremented) and reports true.  Two
      Removes of the same present key whose first sections both run before either second section
      both return true, report the key twice, and leave count = -1, which a following Len() returns.
      No legal sequential run of the C08 model contains a Len() = -1 (C08_consistent), so the
      history has no linearization. *)
From Coq Require Import ZArith List Bool Lia String.
Import ListNotations.
From Mds Require Import Gen.CacheIdx Gen.CacheLocks Heapq.HeapqModel Cache.CacheSpec Cache.CacheModel Cache.CacheLruProofs
  Cache.CacheTheorems Cache.CacheWitness Cache.ConcShape Cache.Conc Cache.ConcCache Cache.ConcLocks.
Local Open Scope Z_scope.

Notation cacheZ := (cache Z Z).
Notation opZ := (op Z Z).
Notation resZ := (cres_t Z Z).
Notation seqZ := (cache_seq Z Z Z.eqb 0 0 unit_size pinned).
Notation secZ := (csec Z Z Z.eqb 0 0 unit_size pinned).
Notation initZ := (cache_init Z Z 2).

(* ---- 1 ---- *)
Definition ex_progs (t : nat) : list opZ :=
  match t with O => [OPut 1 10] | 1%nat => [ORemove 1] | 2%nat => [OSize] | _ => [] end.

Definition ex_config : config cacheZ opZ resZ resZ :=
  run_sched_or _ _ _ _ method_shape secZ None (cfin Z Z)
    [0; 0; 0; 0; 1; 0; 0; 2; 1; 1; 1]%nat (start _ _ _ _ initZ ex_progs).

Lemma conc_reach_example :
  let progs := fun t : nat => match t with O => [OPut 1 10] | 1%nat => [ORemove 1] | 2%nat => [OSize] | _ => [] end in
  exists c, reach _ _ _ _ method_shape secZ None (cfin Z Z) initZ progs c /\
            wr _ _ _ _ c = Some 1%nat /\
            trace _ _ _ _ c =
              [EInv _ _ O O (OPut 1 10); EEff _ _ O O (OPut 1 10) (Some (RBool true, [])); EInv _ _ 1%nat 1%nat (ORemove 1);
               ERes _ _ O O (OPut 1 10) (Some (RBool true, [])); EInv _ _ 2%nat 2%nat OSize;
               EEff _ _ 1%nat 1%nat (ORemove 1) (Some (RBool true, [(1, 10)]))] /\
            ph _ _ _ _ c 2%nat = Between _ _ _ 2%nat OSize O None.
Proof.
  intro progs. exists ex_config. split; [|split; [|split]].
  - unfold ex_config. apply run_sched_or_reach. apply reach_start.
  - vm_compute. reflexivity.
  - vm_compute. reflexivity.
  - vm_compute. reflexivity.
Qed.

(* ---- 2 ---- *)
(* Remove is two exclusive sections, every other method one *)
Definition shape2 (o : opZ) : list mode :=
  match o with ORemove _ => [Excl; Excl] | _ => [Excl] end.

(* the second section of S-C09-2's Remove: old, _ := c.store.Check(key); c.store.Remove(key);
   c.onEvict(key, old); c.size -= c.sizeOf(old); c.count--; return true *)
Definition remove_unchecked (c : cacheZ) (k : Z) : cacheZ * resZ :=
  match lru_check Z Z Z.eqb 0 (store c) k with
  | COk (old, _) =>
    match lru_remove Z Z Z.eqb pinned (store c) k with
    | COk s' =>
      ({| store := s'; csize := CacheIdx.remove_size (csize c) (unit_size old);
          count := CacheIdx.remove_count (count c); limit := limit c |},
       Some (RBool true, [(k, old)]))
    | _ => (c, None)
    end
  | _ => (c, None)
  end.

Definition sec2 (o : opZ) (k : nat) (l : resZ) (s : cacheZ) : cacheZ * resZ :=
  match o, k with
  | ORemove key, O => (s, snd (seqZ s (OHas key)))                 (* if !c.Has(key) ... *)
  | ORemove key, _ =>
    match l with
    | Some (RBool true, _) => remove_unchecked s key               (* ... lock and remove *)
    | _ => (s, l)                                                  (* return false *)
    end
  | _, _ => seqZ s o
  end.

(* run alone, the two-section Remove does what the C08 Remove does *)
Example two_section_remove_alone :
  let s := fst (seqZ initZ (OPut 1 10)) in
  seq _ _ _ _ shape2 sec2 None (cfin Z Z) s (ORemove 1) = seqZ s (ORemove 1) /\
  seq _ _ _ _ shape2 sec2 None (cfin Z Z) s (ORemove 2) = seqZ s (ORemove 2).
Proof. split; vm_compute; reflexivity. Qed.

Definition bad_progs (t : nat) : list opZ :=
  match t with O => [OPut 1 10; ORemove 1; OLen] | 1%nat => [ORemove 1] | _ => [] end.

(* thread 0: Put(1,10) completely, then the first section of Remove(1); thread 1: the first section
   of its Remove(1); thread 0: second section and return; thread 1: second section and return;
   thread 0: Len() *)
Definition bad_schedule : list nat :=
  [0; 0; 0; 0; 0; 0;   0; 0; 0; 0; 0;   1; 1; 1; 1; 1;   0; 0; 0; 0; 0;   1; 1; 1; 1; 1;   0; 0; 0; 0; 0; 0]%nat.

Definition bad_config : config cacheZ opZ resZ resZ :=
  run_sched_or _ _ _ _ shape2 sec2 None (cfin Z Z) bad_schedule (start _ _ _ _ initZ bad_progs).

Example bad_history :
  history _ _ (trace _ _ _ _ bad_config) =
    [EInv _ _ O O (OPut 1 10); ERes _ _ O O (OPut 1 10) (Some (RBool true, []));
     EInv _ _ O 1%nat (ORemove 1); EInv _ _ 1%nat 2%nat (ORemove 1);
     ERes _ _ O 1%nat (ORemove 1) (Some (RBool true, [(1, 10)]));
     ERes _ _ 1%nat 2%nat (ORemove 1) (Some (RBool true, [(1, 0)]));
     EInv _ _ O 3%nat OLen; ERes _ _ O 3%nat OLen (Some (RNum (-1), []))].
Proof. vm_compute. reflexivity. Qed.

Lemma unit_size_nonneg : forall v, 0 <= unit_size v.
Proof. intro v. unfold unit_size. lia. Qed.

Lemma check_then_act_refuted :
  exists (progs : nat -> list opZ) (c : config cacheZ opZ resZ resZ),
    reach _ _ _ _ shape2 sec2 None (cfin Z Z) initZ progs c /\
    In (ERes _ _ O 3%nat OLen (Some (RNum (-1), []))) (trace _ _ _ _ c) /\
    ~ exists Sq : list (call opZ resZ),
        (forall t n o r, In (ERes _ _ t n o r) (history _ _ (trace _ _ _ _ c)) -> In (mk_call _ _ t n o r) Sq) /\
        legal _ _ _ _ method_shape secZ None (cfin Z Z) initZ (map (op_res _ _) Sq).
Proof.
  exists bad_progs, bad_config. split; [|split].
  - unfold bad_config. apply run_sched_or_reach. apply reach_start.
  - assert (H : In (ERes opZ resZ O 3%nat OLen (Some (RNum (-1), []))) (history _ _ (trace _ _ _ _ bad_config))).
    { rewrite bad_history. repeat (first [left; reflexivity|right]). }
    exact (history_in _ _ _ _ H).
  - intros (Sq & Hc & HL).
    assert (Hin : In (OLen, Some (RNum (-1), [])) (map (op_res opZ resZ) Sq)).
    { apply in_map_iff. exists (mk_call _ _ O 3%nat OLen (Some (RNum (-1), []))). split; [reflexivity|].
      apply Hc. rewrite bad_history. repeat (first [left; reflexivity|right]). }
    destruct (legal_call_state Z Z Z.eqb Z.eqb_eq 0 0 unit_size pinned 2 eq_refl all_atomic_now unit_size_nonneg _ _ _ HL Hin)
      as (s & HC & Hr).
    destruct HC as (_ & _ & _ & _ & Hlen & _).
    cbn in Hr. injection Hr as Hr. rewrite Hlen in Hr. unfold len in Hr. lia.
Qed.
