(* Heap order under a pop that never sifts up (known finding F2), for the uses the LRU store makes
   of heapq:

   - Add of an element no held element is above (the store stamps every added element with a fresh
     clock value): pushUp stops at its first comparison, whatever index it takes for the parent
     (so known finding F1, the i/2 parent, cannot matter to the cache), the array is the old one
     with the element appended, and heap order is kept;
   - pop(i) keeps heap order exactly when no sift-up is needed: i is the root, or the last slot, or
     the last element (the one moved into the hole) is not below the hole's parent.  When that
     fails the moved element stays at i below its parent ([pop_breaks_order]): the condition is
     the precise one for "this call keeps the heap a heap". *)
From Coq Require Import ZArith List Bool Lia Permutation.
Import ListNotations.
From Mds Require Import Gen.HeapqIdx Heapq.HeapqModel Heapq.HeapqSpec Heapq.HeapqArray Heapq.HeapqProofs
  Heapq.HeapqHeap Heapq.HeapqHist Heapq.HeapqOrder.
Local Open Scope Z_scope.

Section Guard.
Variable T : Type.
Variable v : variant.
Variable cmp : T -> T -> Z.
Hypothesis TP : total_preorder T cmp.
Implicit Types l : list T.

(* removing offset i needs no sift-up *)
Definition no_siftup_needed l (i : Z) : Prop :=
  i = 0 \/ len l - 1 <= i \/
  exists last par, get l (len l - 1) = Some last /\ get l ((i - 1) / 2) = Some par /\ cmp par last <= 0.

Lemma parent_child i : 0 < i -> child ((i - 1) / 2) i /\ 0 <= (i - 1) / 2 < i.
Proof.
  intro Hi. unfold child. pose proof (Z.div_mod (i - 1) 2). pose proof (Z.mod_pos_bound (i - 1) 2). lia.
Qed.

(* ---- Add of a maximal element ---- *)
Lemma push_up_max_noop fuel l i a :
  get l i = Some a -> (forall b, In b l -> cmp b a <= 0) ->
  push_up T v cmp (S fuel) l i = Ok (l, [], i).
Proof.
  intros Ha Hmax. cbn [push_up]. unfold pushup_continue. rewrite Z.gtb_ltb.
  destruct (0 <? i) eqn:E; [|reflexivity]. apply Z.ltb_lt in E.
  pose proof (parent_range v i E) as Hpr. pose proof (get_range T _ _ _ Ha) as Hir.
  destruct (get_some T l (parent_of v i)) as [b Hb]; [lia|]. rewrite Ha, Hb.
  assert (Hba : cmp b a <= 0) by (apply Hmax; eapply get_In; exact Hb).
  apply (cmp_ge_le T cmp TP) in Hba. unfold pushup_break. rewrite Z.geb_leb.
  destruct (Z.leb_spec 0 (cmp a b)); [reflexivity|lia].
Qed.

Lemma heap_ok_snoc_max l x :
  heap_ok T cmp l -> (forall b, In b l -> cmp b x <= 0) -> heap_ok T cmp (l ++ [x]).
Proof.
  intros Hh Hmax j Hj c Hc x0 y0 Hx0 Hy0.
  pose proof (get_range T _ _ _ Hy0) as Hcr. rewrite len_app in Hcr. cbn in Hcr.
  assert (Hjc : j < c) by (unfold child in Hc; lia).
  destruct (Z_lt_dec c (len l)) as [Hlt|Hge].
  - rewrite get_app_left in Hy0 by assumption. rewrite get_app_left in Hx0 by lia.
    eapply (Hh j); eassumption.
  - assert (c = len l) by lia. subst c. rewrite get_app_last in Hy0. inversion Hy0; subst y0.
    rewrite get_app_left in Hx0 by lia. apply Hmax. eapply get_In; exact Hx0.
Qed.

(* ---- pop(i) without sift-up ---- *)
Lemma pop_heap_no_siftup l i l' m out :
  pop_no_siftup v = true -> heap_ok T cmp l -> 0 <= i < len l -> no_siftup_needed l i ->
  pop T v cmp l i = Ok (l', m, out) -> heap_ok T cmp l'.
Proof.
  intros Hv Hh Hi Hg H. destruct (Z.eq_dec (len l) 1) as [E1|E1].
  - rewrite (pop_single_nil T v cmp l i l' m out) by assumption. apply heap_ok_nil; assumption.
  - destruct (pop_shape T v cmp l i l' m out Hi E1 H) as (l2 & last & l3 & m1 & j & Hlast & Hl2 & Hfr & Hi1 & Hi2 & Hpd & Hend).
    assert (El : l' = l3) by (destruct Hend as [[-> _]|(Hf & _)]; [reflexivity|congruence]). subst l'. clear Hend.
    set (n := len l - 1) in *.
    destruct (get_some T l i Hi) as [oi Hoi].
    assert (Hfrom : forall k y, k <> i -> get l2 k = Some y -> get l k = Some y).
    { intros k y Hk Hgk. rewrite Hfr in Hgk by assumption. destruct (k <? n); [assumption|discriminate]. }
    assert (Hpairs : forall j0 c, 0 <= j0 -> child j0 c -> j0 <> i -> c <> i -> pair_ok T cmp l2 j0 c).
    { intros j0 c Hj0 Hc Hji Hci x0 y0 Hx0 Hy0. eapply (Hh j0); [lia|exact Hc|apply Hfrom; assumption|apply Hfrom; assumption]. }
    assert (Hgrand : forall p c, child p i -> child i c -> pair_ok T cmp l2 p c).
    { intros p c Hp Hc x0 y0 Hx0 Hy0. pose proof (get_range T _ _ _ Hx0).
      apply Hfrom in Hx0; [|unfold child in *; lia]. apply Hfrom in Hy0; [|unfold child in *; lia].
      eapply (tp_trans TP); [eapply (Hh p); [lia|exact Hp|exact Hx0|exact Hoi]|eapply (Hh i); [lia|exact Hc|exact Hoi|exact Hy0]]. }
    eapply (push_down_heap T cmp TP l2 i 0); [lia|lia| |intros p c _; apply Hgrand|exact Hpd].
    intros j0 Hj0 Hne c Hc. destruct (Z.eq_dec c i) as [->|Hci]; [|apply Hpairs; assumption].
    intros x0 y0 Hx0 Hy0.
    destruct (Z_lt_dec i n) as [Hin|Hin]; [|rewrite Hi2 in Hy0 by lia; discriminate].
    rewrite (Hi1 Hin) in Hy0. inversion Hy0; subst y0.
    destruct Hg as [->|[Hg|(last' & par & Hl' & Hp' & Hle)]]; [unfold child in Hc; lia|lia|].
    assert (last' = last) by (unfold n in Hlast; congruence). subst last'.
    assert (Hi0 : 0 < i) by (unfold child in Hc; lia).
    destruct (parent_child i Hi0) as [Hpc Hpr].
    assert (j0 = (i - 1) / 2) by (unfold child in *; lia). subst j0.
    apply Hfrom in Hx0; [|lia]. assert (x0 = par) by congruence. subst x0. exact Hle.
Qed.

(* the condition is necessary: when it fails on a valid heap, the element moved into the hole
   stays there, strictly below its parent *)
Lemma pop_breaks_order l i l' m out :
  pop_no_siftup v = true -> heap_ok T cmp l -> 0 <= i < len l -> ~ no_siftup_needed l i ->
  pop T v cmp l i = Ok (l', m, out) ->
  exists last par, get l' ((i - 1) / 2) = Some par /\ get l' i = Some last /\ cmp last par < 0 /\ child ((i - 1) / 2) i.
Proof.
  intros Hv Hh Hi Hg H.
  assert (Hi0 : 0 < i) by (destruct (Z.eq_dec i 0); [exfalso; apply Hg; left; assumption|lia]).
  assert (Hin : i < len l - 1) by (destruct (Z_lt_dec i (len l - 1)); [assumption|exfalso; apply Hg; right; left; lia]).
  assert (E1 : len l <> 1) by lia.
  destruct (pop_shape T v cmp l i l' m out Hi E1 H) as (l2 & last & l3 & m1 & j & Hlast & Hl2 & Hfr & Hi1 & Hi2 & Hpd & Hend).
  assert (El : l' = l3) by (destruct Hend as [[-> _]|(Hf & _)]; [reflexivity|congruence]). subst l'. clear Hend.
  specialize (Hi1 Hin). destruct (parent_child i Hi0) as [Hpc Hpr]. set (p := (i - 1) / 2) in *.
  destruct (get_some T l p) as [par Hpar]; [lia|].
  destruct (get_some T l i Hi) as [oi Hoi].
  assert (Hlt : cmp last par < 0).
  { destruct (Z_lt_dec (cmp last par) 0) as [|Hn]; [assumption|exfalso]. apply Hg. right. right.
    exists last, par. split; [exact Hlast|]. split; [exact Hpar|]. apply (cmp_ge_le T cmp TP). lia. }
  assert (Hfrom : forall k y, k <> i -> get l2 k = Some y -> get l k = Some y).
  { intros k y Hk Hgk. rewrite Hfr in Hgk by assumption. destruct (k <? len l - 1); [assumption|discriminate]. }
  (* nothing below i is smaller than the moved element: pushDown leaves it at i *)
  assert (Hbelow : forall c y, child i c -> get l2 c = Some y -> cmp last y <= 0).
  { intros c y Hc Hy. apply Hfrom in Hy; [|unfold child in Hc; lia].
    eapply (cmp_lt_le_trans T cmp TP); [exact Hlt|].
    eapply (tp_trans TP); [eapply (Hh p); [lia|exact Hpc|exact Hpar|exact Hoi]|eapply (Hh i); [lia|exact Hc|exact Hoi|exact Hy]]. }
  assert (Hstay : l3 = l2).
  { unfold push_down in Hpd. rewrite push_down_loop_eq in Hpd.
    destruct (pd_choice_spec T cmp TP l2 i) as [[Hc _]|(c & xm & xi & Hc & Hch & Hgm & Hgi & Hlt' & _)]; [lia| |].
    - rewrite Hc in Hpd. cbn [bind] in Hpd. inversion Hpd; auto.
    - exfalso. rewrite Hi1 in Hgi. inversion Hgi; subst xi. specialize (Hbelow c xm Hch Hgm).
      apply (cmp_ge_le T cmp TP) in Hbelow. lia. }
  subst l3. exists last, par. split; [|split; [exact Hi1|split; [exact Hlt|exact Hpc]]].
  rewrite Hfr by lia. destruct (Z.ltb_spec p (len l - 1)); [exact Hpar|lia].
Qed.

End Guard.
