(* C09 — a boolean checker of "this sequence of calls with these results is a legal sequential run of
   the C08 model", for int keys and values, with its soundness w.r.t. [Conc.legal].
   Used by bin/incoq-cacheconc: linearizations that porcupine found for histories recorded from the
   REAL cache under concurrent use are re-checked here, by vm_compute, against the Coq model itself
   (heap variant = the one the current source has) — so the Go transcription of the reference that
   porcupine uses is not the last word. *)
From Coq Require Import ZArith List Bool Lia.
Import ListNotations.
From Mds Require Import Gen.CacheLocks Heapq.HeapqModel Cache.CacheSpec Cache.CacheModel Cache.ConcShape Cache.Conc
  Cache.ConcCache Cache.ConcLocks.
Local Open Scope Z_scope.

Definition out_eqb (a b : out Z) : bool :=
  match a, b with
  | RBool x, RBool y => Bool.eqb x y
  | RGet v x, RGet w y => (v =? w) && Bool.eqb x y
  | RUnit, RUnit => true
  | RNum x, RNum y => x =? y
  | _, _ => false
  end.

Fixpoint evlog_eqb (a b : evlog Z Z) : bool :=
  match a, b with
  | [], [] => true
  | (k, v) :: a', (k', v') :: b' => (k =? k') && (v =? v') && evlog_eqb a' b'
  | _, _ => false
  end.

Definition res_eqb (a b : cres_t Z Z) : bool :=
  match a, b with
  | Some (x, l), Some (y, m) => out_eqb x y && evlog_eqb l m
  | None, None => true
  | _, _ => false
  end.

Lemma out_eqb_eq a b : out_eqb a b = true -> a = b.
Proof.
  destruct a, b; cbn; try discriminate; intro H.
  - apply Bool.eqb_prop in H. congruence.
  - apply andb_prop in H. destruct H as [H1 H2]. apply Z.eqb_eq in H1. apply Bool.eqb_prop in H2. congruence.
  - reflexivity.
  - apply Z.eqb_eq in H. congruence.
Qed.

Lemma evlog_eqb_eq a : forall b, evlog_eqb a b = true -> a = b.
Proof.
  induction a as [|[k v] a IH]; intros [|[k' v'] b]; cbn; try discriminate; [reflexivity|].
  intro H. apply andb_prop in H. destruct H as [H H3]. apply andb_prop in H. destruct H as [H1 H2].
  apply Z.eqb_eq in H1. apply Z.eqb_eq in H2. rewrite (IH b H3). congruence.
Qed.

Lemma res_eqb_eq a b : res_eqb a b = true -> a = b.
Proof.
  destruct a as [[x l]|], b as [[y m]|]; cbn; try discriminate; [|reflexivity].
  intro H. apply andb_prop in H. destruct H as [H1 H2]. rewrite (out_eqb_eq _ _ H1), (evlog_eqb_eq _ _ H2). reflexivity.
Qed.

Section Check.
Variable sizeOf : Z -> Z.
Variable hv : variant.

Notation seqZ := (cache_seq Z Z Z.eqb 0 0 sizeOf hv).

Fixpoint legalb (c : cache Z Z) (L : list (op Z Z * cres_t Z Z)) : bool :=
  match L with
  | [] => true
  | (o, r) :: L' => res_eqb (snd (seqZ c o)) r && legalb (fst (seqZ c o)) L'
  end.

Lemma legalb_sound : forall L c, legalb c L = true ->
  legal _ _ _ _ method_shape (csec Z Z Z.eqb 0 0 sizeOf hv) None (cfin Z Z) c L.
Proof.
  intros L c H. apply (cache_legal_is_c08 Z Z Z.eqb 0 0 sizeOf hv all_atomic_now).
  revert c H. induction L as [|[o r] L IH]; intros c H; cbn in *; [exact I|].
  apply andb_prop in H. destruct H as [H1 H2]. split; [apply res_eqb_eq; exact H1|apply IH; exact H2].
Qed.
End Check.

(* ---- the policy-agnostic reference S1, executable form (CacheSpec.s1_first_reject), is sound ---- *)
Lemma s1_first_reject_sound sizeOf lim : forall ops obs l i,
  s1_first_reject sizeOf lim l ops obs i = None -> s1_accepts Z Z Z.eqb 0 sizeOf lim l ops obs.
Proof.
  induction ops as [|o ops IH]; intros [|[r log] obs] l i; cbn [s1_first_reject s1_accepts]; try discriminate; [trivial|].
  destruct (s1_step Z Z Z.eqb 0 sizeOf lim l o (map fst log)) as [[l' [r' log']]|]; [|discriminate].
  match goal with |- (if ?a && ?b then _ else _) = None -> _ => destruct a eqn:E1; destruct b eqn:E2; cbn [andb]; try discriminate end.
  intro H. split; [|exact (IH _ _ _ H)].
  change (out_eqb r r' = true) in E1. change (evlog_eqb log log' = true) in E2.
  rewrite (out_eqb_eq _ _ E1), (evlog_eqb_eq _ _ E2). reflexivity.
Qed.

Fixpoint strip (L : list (op Z Z * cres_t Z Z)) : option (list (out Z * evlog Z Z)) :=
  match L with
  | [] => Some []
  | (_, Some x) :: L' => match strip L' with Some xs => Some (x :: xs) | None => None end
  | (_, None) :: _ => None
  end.

(* one recorded history: limit, size mode of the harness (0 = unit sizes, k = v mod k), and a
   linearization with the observed results.
   [sample_s1_ok]: it is accepted by the policy-agnostic reference S1 (the object against which
   porcupine checked it, in its Go transcription): a failure here is a failure of the check.
   [sample_ok]: it is moreover a legal run of the exact model.  This may fail for a correct cache:
   where two Puts overlap, porcupine is free to order them either way (S1 does not care which entry
   is older), and the exact model accepts only the order that really happened. *)
Definition sample_s1_ok (s : Z * Z * list (op Z Z * cres_t Z Z)) : bool :=
  let '(lim, md, L) := s in
  match strip L with
  | Some obs => match s1_first_reject (size_mode md) lim [] (map fst L) obs 0 with None => true | Some _ => false end
  | None => false
  end.

Lemma sample_s1_ok_sound lim md L : sample_s1_ok (lim, md, L) = true ->
  exists obs, map snd L = map Some obs /\ s1_accepts Z Z Z.eqb 0 (size_mode md) lim [] (map fst L) obs.
Proof.
  unfold sample_s1_ok. destruct (strip L) as [obs|] eqn:ES; [|discriminate].
  destruct (s1_first_reject (size_mode md) lim [] (map fst L) obs 0) eqn:ER; [discriminate|]. intros _.
  exists obs. split; [|exact (s1_first_reject_sound _ _ _ _ _ _ ER)].
  clear ER. revert obs ES. induction L as [|[o [x|]] L IH]; intros obs ES; cbn in *.
  - injection ES as <-. reflexivity.
  - destruct (strip L) as [xs|]; [|discriminate]. injection ES as <-. cbn. rewrite (IH xs eq_refl). reflexivity.
  - discriminate.
Qed.

Definition sample_ok (s : Z * Z * list (op Z Z * cres_t Z Z)) : bool :=
  let '(lim, md, L) := s in
  legalb (size_mode md) current_variant (cache_init Z Z lim) L.

(* the indices of the samples that fail a check *)
Fixpoint bad_samples (ok : Z * Z * list (op Z Z * cres_t Z Z) -> bool) (i : nat)
         (l : list (Z * Z * list (op Z Z * cres_t Z Z))) : list nat :=
  match l with
  | [] => []
  | s :: l' => if ok s then bad_samples ok (S i) l' else i :: bad_samples ok (S i) l'
  end.
