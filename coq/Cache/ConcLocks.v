(* The one obligation of C09 that is about the current source: the mutex is a sync.Mutex or a
   sync.RWMutex and every method of Cache that touches the receiver is ONE critical section
   (exclusive; shared only for Has, Len, Size).  Closed by computation on Gen/CacheLocks.v, which the
   translator rebuilds from cache/cache.go on every run; it stops compiling when a method loses its
   Lock, takes it late or gives it back early, calls another locking method of the cache before or
   under it, or runs a state-changing method (Get, Put, Remove, Clear) under RLock. *)
From Mds Require Import Gen.CacheLocks Cache.ConcShape Cache.ConcCache.

Lemma all_atomic_now : all_atomic = true.
Proof. reflexivity. Qed.
