(* The one obligation of C09 that is about the current source: every public method of Cache is
   lock-wrapped.  Closed by computation on Gen/CacheLocks.v; it stops compiling when a method loses
   its "c.μ.Lock(); defer c.μ.Unlock()" prologue. *)
From Mds Require Import Gen.CacheLocks Cache.ConcCache.

Lemma all_locked_now : all_locked = true.
Proof. reflexivity. Qed.
