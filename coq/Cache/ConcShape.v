(* C09 — the vocabulary in which the translator's "cachelocks" generator (translator/cachelocks.go)
   describes the locking shape of a method of cache.Cache.  Definitions only. *)
From Coq Require Import String List.
Import ListNotations.

(* how a stretch of a method body holds the cache's mutex *)
Inductive mode := Excl | Shar | Unl.   (* Lock / RLock / not at all *)

(* what a method body consists of, in source order (top-level statements):
     Body m        statements that use fields of the receiver, executed holding the mutex in mode m
     CallSelf m f  a call of method f of the same receiver while holding the mutex in mode m
     Odd why       something the translator does not take for a critical section *)
Inductive part :=
| Body (m : mode)
| CallSelf (m : mode) (f : string)
| Odd (why : string).

(* A method is one critical section iff its parts are exactly [Body m] with m = Excl or Shar: the
   first statement takes the mutex, the release is deferred, and everything that touches the
   receiver lies in between.  Anything else is not: a call of another locking method before the
   Lock makes two critical sections; inside, it would block for ever. *)
Definition one_section (ps : list part) : option mode :=
  match ps with
  | [Body Excl] => Some Excl
  | [Body Shar] => Some Shar
  | _ => None
  end.
