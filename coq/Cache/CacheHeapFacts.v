(* The three heap facts the lruStore proofs rest on, for EVERY heap variant and every comparison
   function, from the heapq proofs (HeapqProofs: pop_total, push_up_total with their move-log
   statement log_ok) plus one fact proved here: a move log only ever mentions elements of the
   array it was produced from. *)
From Coq Require Import ZArith List Bool Lia Permutation.
Import ListNotations.
From Mds Require Import Gen.HeapqIdx Heapq.HeapqModel Heapq.HeapqSpec Heapq.HeapqArray Heapq.HeapqProofs.
From Mds Require Import Cache.CacheSpec Cache.CacheModel Cache.CacheFacts Cache.CacheLruProofs.
Local Open Scope Z_scope.

(* ---- move logs mention only elements of the array ---- *)
Section MovesIn.
Variable T : Type.
Implicit Types l : list T.

Definition moves_in (m : moves T) l : Prop := forall e k, In (e, k) m -> In e l.

Lemma In_upd_nat l n x e : In e (upd_nat T l n x) -> e = x \/ In e l.
Proof.
  revert n. induction l as [|h t IH]; intros n; cbn; [intros []|].
  destruct n; cbn.
  - intros [H|H]; [left; congruence|right; right; exact H].
  - intros [H|H]; [right; left; exact H|]. destruct (IH _ H); [left; assumption|right; right; assumption].
Qed.

Lemma In_upd l i x e : In e (upd l i x) -> e = x \/ In e l.
Proof. unfold upd. destruct (i <? 0); [intro H; right; exact H|apply In_upd_nat]. Qed.

Lemma In_firstn_any (A : Type) (L : list A) n x : In x (firstn n L) -> In x L.
Proof.
  revert n. induction L as [|h t IH]; intros [|n]; cbn; try tauto.
  intros [H|H]; [left; exact H|right; exact (IH _ H)].
Qed.

Lemma swap_in l i j l' m : swap T l i j = Ok (l', m) -> incl l' l /\ moves_in m l.
Proof.
  unfold swap. destruct (get l i) as [a|] eqn:Ha; [|discriminate]. destruct (get l j) as [b|] eqn:Hb; [|discriminate].
  destruct (get (upd (upd l i b) j a) i) as [a'|] eqn:Ha'; [|discriminate].
  destruct (get (upd (upd l i b) j a) j) as [b'|] eqn:Hb'; [|discriminate].
  intro H. injection H as <- <-.
  assert (INC : incl (upd (upd l i b) j a) l).
  { intros e He. apply In_upd in He. destruct He as [->|He]; [exact (get_In _ _ _ _ Ha)|].
    apply In_upd in He. destruct He as [->|He]; [exact (get_In _ _ _ _ Hb)|exact He]. }
  split; [exact INC|].
  intros e k Hin.
  assert (Hin' : In (e, k) [(a', i); (b', j)]) by (first [exact Hin | exact (In_firstn_any _ _ _ _ Hin)]).
  destruct Hin' as [H|[H|[]]]; injection H as <- _; apply INC; eapply get_In; eassumption.
Qed.

Section Cmp.
Variable v : variant.
Variable cmp : T -> T -> Z.

Lemma push_up_in fuel : forall l i l' m r,
  push_up T v cmp fuel l i = Ok (l', m, r) -> incl l' l /\ moves_in m l.
Proof.
  induction fuel as [|f IH]; intros l i l' m r; cbn [push_up]; [discriminate|].
  destruct (pushup_continue i).
  2:{ intro H. injection H as <- <- _. split; [apply incl_refl|intros e k []]. }
  destruct (get l i) as [a|]; [|discriminate]. destruct (get l (parent_of v i)) as [b|]; [|discriminate].
  destruct (pushup_break (cmp a b)).
  { intro H. injection H as <- <- _. split; [apply incl_refl|intros e k []]. }
  destruct (swap T l i (parent_of v i)) as [[l1 m1]| |] eqn:HS; cbn [bind]; try discriminate.
  destruct (push_up T v cmp f l1 (parent_of v i)) as [[[l2 m2] r2]| |] eqn:HP; cbn [bind]; try discriminate.
  intro H. injection H as <- <- _.
  destruct (swap_in _ _ _ _ _ HS) as [I1 M1]. destruct (IH _ _ _ _ _ HP) as [I2 M2].
  split; [intros e He; exact (I1 _ (I2 _ He))|].
  intros e k Hin. apply in_app_or in Hin. destruct Hin as [Hin|Hin]; [exact (M1 _ _ Hin)|exact (I1 _ (M2 _ _ Hin))].
Qed.

Lemma push_down_loop_in fuel : forall l i l' m r,
  push_down_loop T cmp fuel l i (HeapqIdx.lchild i) = Ok (l', m, r) -> incl l' l /\ moves_in m l.
Proof.
  induction fuel as [|f IH]; intros l i l' m r; [cbn; discriminate|].
  rewrite push_down_loop_eq.
  destruct (pd_choice T cmp l i) as [[c|]| |]; cbn [bind]; try discriminate.
  2:{ intro H. injection H as <- <- _. split; [apply incl_refl|intros e k []]. }
  destruct (swap T l i c) as [[l1 m1]| |] eqn:HS; cbn [bind]; try discriminate.
  destruct (push_down_loop T cmp f l1 c (lchild c)) as [[[l2 m2] r2]| |] eqn:HP; cbn [bind]; try discriminate.
  intro H. injection H as <- <- _.
  destruct (swap_in _ _ _ _ _ HS) as [I1 M1]. destruct (IH _ _ _ _ _ HP) as [I2 M2].
  split; [intros e He; exact (I1 _ (I2 _ He))|].
  intros e k Hin. apply in_app_or in Hin. destruct Hin as [Hin|Hin]; [exact (M1 _ _ Hin)|exact (I1 _ (M2 _ _ Hin))].
Qed.

Lemma pop_in l i l' m out : pop T v cmp l i = Ok (l', m, out) -> moves_in m l.
Proof.
  unfold pop. destruct (get l i) as [o|] eqn:Ho; [|discriminate].
  destruct (pop_single (pop_last (len l))).
  { intro H. injection H as _ <- _. intros e k []. }
  destruct (get l (pop_last (len l))) as [last|] eqn:Hl; [|discriminate].
  set (l1 := upd (upd l i last) (pop_last (len l)) o).
  assert (I1 : incl l1 l).
  { intros e He. unfold l1 in He. apply In_upd in He. destruct He as [->|He]; [exact (get_In _ _ _ _ Ho)|].
    apply In_upd in He. destruct He as [->|He]; [exact (get_In _ _ _ _ Hl)|exact He]. }
  destruct (get l1 i) as [moved|] eqn:Hm; [|discriminate].
  destruct (pop_last (len l) <? 0); [discriminate|].
  set (l2 := firstn (Z.to_nat (pop_last (len l))) l1).
  assert (I2 : incl l2 l) by (intros e He; apply I1; exact (In_firstn_any _ _ _ _ He)).
  set (m0 := if 0 <? pop_ncalls_move then [(moved, i)] else []).
  assert (M0 : moves_in m0 l).
  { unfold m0. destruct (0 <? pop_ncalls_move); intros e k Hin; [|destruct Hin].
    destruct Hin as [H|[]]. injection H as <- _. apply I1. exact (get_In _ _ _ _ Hm). }
  clearbody m0.
  destruct (if 0 <? pop_ncalls_pushDown then push_down T cmp l2 i else Ok (l2, [], i)) as [[[l3 m1] j]| |] eqn:HD; cbn [bind]; try discriminate.
  assert (I3 : incl l3 l /\ moves_in m1 l).
  { destruct (0 <? pop_ncalls_pushDown).
    - unfold push_down in HD. destruct (push_down_loop_in _ _ _ _ _ _ HD) as [A B].
      split; [intros e He; exact (I2 _ (A _ He))|intros e k Hin; exact (I2 _ (B _ _ Hin))].
    - injection HD as <- <- _. split; [exact I2|intros e k []]. }
  destruct I3 as [I3 M1].
  assert (Done : forall mm, Ok (l3, m0 ++ m1, o) = Ok (l', mm, out) -> moves_in mm l).
  { intros mm H. injection H as _ <- _. intros e k Hin. apply in_app_or in Hin.
    destruct Hin as [Hin|Hin]; [exact (M0 _ _ Hin)|exact (M1 _ _ Hin)]. }
  destruct (pop_no_siftup v); [apply Done|].
  destruct ((j =? i) && (i <? pop_last (len l))); [|apply Done].
  destruct (push_up T v cmp (S (length l3)) l3 i) as [[[l4 m2] r4]| |] eqn:HU; cbn [bind]; try discriminate.
  destruct (push_up_in _ _ _ _ _ _ HU) as [I4 M2].
  intro H. injection H as _ <- _. intros e k Hin. apply in_app_or in Hin.
  destruct Hin as [Hin|Hin]; [exact (M0 _ _ Hin)|]. apply in_app_or in Hin.
  destruct Hin as [Hin|Hin]; [exact (M1 _ _ Hin)|exact (I3 _ (M2 _ _ Hin))].
Qed.

End Cmp.
End MovesIn.

(* ---- from move logs to [present] ---- *)
Section Bridge.
Variables K V : Type.
Variable keqb : K -> K -> bool.
Hypothesis keqb_spec : forall a b, keqb a b = true <-> a = b.

Notation prio := (prio K V).
Notation map_get := (map_get K keqb).
Notation map_set := (map_set K keqb).
Notation apply_moves := (apply_moves K V keqb).
Notation pos_ok := (pos_ok K V keqb).

Lemma apply_moves_app m1 m2 p : apply_moves (m1 ++ m2) p = apply_moves m2 (apply_moves m1 p).
Proof. unfold CacheModel.apply_moves. apply fold_left_app. Qed.

Lemma apply_moves_untouched m p k :
  (forall e j, In (e, j) m -> key e <> k) -> map_get (apply_moves m p) k = map_get p k.
Proof.
  revert p. induction m as [|[e j] m IH]; intros p H; [reflexivity|].
  change (apply_moves ((e, j) :: m) p) with (apply_moves m (map_set p (key e) j)).
  rewrite IH by (intros e' j' Hin; apply (H e' j'); right; exact Hin).
  apply (map_get_set_other K keqb keqb_spec). apply (H e j). left. reflexivity.
Qed.

Lemma nodup_pkeys_nodup (d : list prio) : NoDup (pkeys d) -> NoDup d.
Proof. apply NoDup_map_inv. Qed.

(* D: a duplicate-free (by key) list containing the new array and everything the log mentions *)
Lemma log_to_present (D d d' : list prio) m p :
  NoDup (pkeys D) -> incl d' D -> moves_in prio m D ->
  log_ok prio d d' m -> pos_ok d p -> pos_ok d' (apply_moves m p).
Proof.
  intros ND ID MI LO PO i e Hg.
  assert (HeD : In e D) by (apply ID; exact (get_In _ _ _ _ Hg)).
  assert (Huniq : forall e2 j, In (e2, j) m -> key e2 = key e -> e2 = e).
  { intros e2 j Hin Hk. apply (nodup_key_inj K V D ND); [exact (MI _ _ Hin)|exact HeD|exact Hk]. }
  destruct (LO e i Hg) as [(l1 & l2 & Hm & Hno)|[Hun Hgd]].
  - subst m. rewrite apply_moves_app.
    change (apply_moves ((e, i) :: l2) (apply_moves l1 p)) with (apply_moves l2 (map_set (apply_moves l1 p) (key e) i)).
    rewrite apply_moves_untouched.
    + apply (map_get_set_same K keqb keqb_spec).
    + intros e2 j Hin Hk. apply (Hno j).
      rewrite <- (Huniq e2 j); [exact Hin| |exact Hk]. apply in_or_app. right. right. exact Hin.
  - rewrite apply_moves_untouched; [exact (PO _ _ Hgd)|].
    intros e2 j Hin Hk. apply (Hun j). rewrite <- (Huniq e2 j Hin Hk). exact Hin.
Qed.

Lemma move_keys_in (D : list prio) m : moves_in prio m D -> incl (move_keys m) (pkeys D).
Proof.
  intros MI k Hk. unfold move_keys in Hk. apply in_map_iff in Hk. destruct Hk as ([e j] & <- & Hin).
  cbn. apply in_map. exact (MI _ _ Hin).
Qed.

(* ---- the facts ---- *)
Variable hv : variant.

Lemma heap_remove_fact_holds : heap_remove_fact K V keqb hv.
Proof.
  intros q n p e Hget ND PO. pose proof (HeapqArray.get_range _ _ _ _ Hget) as R.
  destruct (pop_total prio (qcmp q) hv (data q) n R) as (l' & m & out & HP & Hout & Perm & Hlog).
  assert (out = e) by congruence. subst out.
  exists {| data := l'; qcmp := qcmp q |}, m. unfold Remove, Remove_negative, Remove_beyond.
  destruct (Z.ltb_spec n 0); [lia|]. rewrite Z.geb_leb. destruct (Z.leb_spec (len (data q)) n); [lia|].
  rewrite HP. cbn [bind data qcmp].
  pose proof (pop_in prio hv (qcmp q) _ _ _ _ _ HP) as MI.
  assert (ID : incl l' (data q)).
  { intros x Hx. apply (Permutation_in _ (Permutation_sym Perm)). right. exact Hx. }
  assert (ND' : NoDup (key e :: pkeys l')).
  { apply (Permutation_NoDup (l := pkeys (data q))); [|exact ND]. exact (pkeys_perm K V _ _ Perm). }
  split; [reflexivity|]. split; [reflexivity|]. split; [exact Perm|]. split.
  - exact (log_to_present (data q) (data q) l' m p ND ID MI (Hlog (nodup_pkeys_nodup _ ND)) PO).
  - exact (move_keys_in (data q) m MI).
Qed.

Lemma heap_pop_fact_holds : heap_pop_fact K V keqb hv.
Proof.
  intros q p e Hget ND PO. pose proof (HeapqArray.get_range _ _ _ _ Hget) as R.
  destruct (pop_total prio (qcmp q) hv (data q) 0 R) as (l' & m & out & HP & Hout & Perm & Hlog).
  assert (out = e) by congruence. subst out.
  exists {| data := l'; qcmp := qcmp q |}, m. unfold Pop, Pop_empty, Pop_index.
  destruct (Z.eqb_spec (len (data q)) 0); [lia|].
  rewrite HP. cbn [bind data qcmp].
  pose proof (pop_in prio hv (qcmp q) _ _ _ _ _ HP) as MI.
  assert (ID : incl l' (data q)).
  { intros x Hx. apply (Permutation_in _ (Permutation_sym Perm)). right. exact Hx. }
  split; [reflexivity|]. split; [reflexivity|]. split; [exact Perm|]. split.
  - exact (log_to_present (data q) (data q) l' m p ND ID MI (Hlog (nodup_pkeys_nodup _ ND)) PO).
  - exact (move_keys_in (data q) m MI).
Qed.

Lemma heap_add_fact_holds : heap_add_fact K V keqb hv.
Proof.
  intros q x p NDx PO.
  set (l := data q ++ [x]). set (n := len (data q)).
  assert (Hg : get l n = Some x) by (apply get_app_last).
  assert (Hlen : len l = n + 1) by (unfold l, n; rewrite len_app; reflexivity).
  assert (Hn0 : 0 <= n) by (apply len_nonneg).
  assert (Pl : Permutation l (x :: data q)) by (apply Permutation_sym; apply Permutation_cons_append).
  assert (NDl : NoDup (pkeys l)).
  { apply (Permutation_NoDup (l := pkeys (x :: data q))); [|exact NDx]. apply Permutation_sym. exact (pkeys_perm K V _ _ Pl). }
  destruct (push_up_total prio (qcmp q) hv (S (length l)) l n) as (l' & m & r & HPU & Perm & Hr & Hlog & (x0 & Hx0 & Hx0'));
    [lia|unfold len in *; lia|].
  assert (x0 = x) by congruence. subst x0.
  exists {| data := l'; qcmp := qcmp q |}, ((x, n) :: m), r.
  unfold Add. fold l n. rewrite Hg.
  change (0 <? add_ncalls_move) with true. change (0 <? add_ncalls_pushUp) with true. cbv iota.
  rewrite HPU. cbn [bind data qcmp app].
  split; [reflexivity|]. split; [reflexivity|].
  split; [exact (perm_trans Perm Pl)|].
  pose proof (push_up_in prio hv (qcmp q) _ _ _ _ _ _ HPU) as [IL MI].
  split; [|split; [exact Hx0'|]].
  - change (CacheModel.apply_moves K V keqb ((x, n) :: m) p) with (apply_moves m (map_set p (key x) n)).
    apply (log_to_present l l l' m _ NDl IL MI (Hlog (nodup_pkeys_nodup _ NDl))).
    intros i e Hge. pose proof (HeapqArray.get_range _ _ _ _ Hge) as Ri.
    destruct (Z.eq_dec i n) as [->|Hne].
    + assert (e = x) by congruence. subst e. apply (map_get_set_same K keqb keqb_spec).
    + assert (Hge' : get (data q) i = Some e).
      { unfold l in Hge. rewrite get_app_left in Hge by (fold n; lia). exact Hge. }
      rewrite (map_get_set_other K keqb keqb_spec).
      * exact (PO _ _ Hge').
      * intro Hk. cbn in NDx. inversion NDx as [|? ? N1 N2]. apply N1. rewrite Hk. apply in_pkeys. exact (HeapqArray.get_In _ _ _ _ Hge').
  - intros k Hk. cbn in Hk. apply (Permutation_in _ (Permutation_sym (pkeys_perm K V _ _ Perm))).
    destruct Hk as [<-|Hk].
    + apply in_pkeys. exact (HeapqArray.get_In _ _ _ _ Hg).
    + exact (move_keys_in l m MI k Hk).
Qed.

End Bridge.
