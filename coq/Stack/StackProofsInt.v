(* Machine ints in stack.Stack.  The only arithmetic on a caller-controlled int is Peek's index
   len(s.list)-1-n.  For n >= len the method returns before computing it; for 0 <= n < len it lies
   in [0, len); for n < 0 the exact value len-1-n is >= len (index out of range), and when it
   exceeds the maximum int (n near the minimum int: -n overflows) the 64-bit result wraps to a
   NEGATIVE number -- still out of range.  So Peek evaluated with 64-bit wrap-around subtraction is
   Peek of the unbounded-Z model for every 64-bit n and every slice length below 2^63: same
   value, same ok flag, same (index out of range) panic. *)
From Coq Require Import ZArith List Bool Lia.
Import ListNotations.
From Mds Require Import Gen.StackIdx Stack.StackModel.
Local Open Scope Z_scope.

Definition int64 (z : Z) : Prop := - 2 ^ 63 <= z < 2 ^ 63.
Definition wrap64 (z : Z) : Z := (z + 2 ^ 63) mod 2 ^ 64 - 2 ^ 63.

Lemma pow63 : 2 ^ 63 = 9223372036854775808. Proof. reflexivity. Qed.
Lemma pow64 : 2 ^ 64 = 18446744073709551616. Proof. reflexivity. Qed.

Lemma wrap64_id : forall z, int64 z -> wrap64 z = z.
Proof. intros z H. unfold int64, wrap64 in *. rewrite pow63, pow64 in *. rewrite Z.mod_small by lia. lia. Qed.

(* one overflow upward lands below zero *)
Lemma wrap64_over : forall z, 2 ^ 63 <= z < 2 ^ 64 -> wrap64 z = z - 2 ^ 64.
Proof.
  intros z H. unfold wrap64. rewrite pow63, pow64 in *.
  replace (z + 9223372036854775808) with ((z - 9223372036854775808) + 1 * 18446744073709551616) by lia.
  rewrite Z.mod_add by lia. rewrite Z.mod_small by lia. lia.
Qed.

(* wrap-around subtraction done in two steps (len-1, then -n) is the wrap of the exact value *)
Lemma wrap64_sub : forall a b, wrap64 (wrap64 a - b) = wrap64 (a - b).
Proof.
  intros a b. unfold wrap64.
  replace ((a + 2 ^ 63) mod 2 ^ 64 - 2 ^ 63 - b + 2 ^ 63) with ((a + 2 ^ 63) mod 2 ^ 64 + (- b)) by lia.
  replace (a - b + 2 ^ 63) with ((a + 2 ^ 63) + (- b)) by lia.
  rewrite Zplus_mod_idemp_l. reflexivity.
Qed.

Section StackInt.
Variable T : Type.
Variable zero : T.

(* the index, exact or wrapped, selects the same element or is out of range in both *)
Lemma peek_index_width : forall (l : list T) (n : Z),
  int64 n -> zlen T l < 2 ^ 63 -> peek_none n (zlen T l) = false ->
  idx T l (wrap64 (peek_idx n (zlen T l))) = idx T l (peek_idx n (zlen T l)).
Proof.
  intros l n Hn Hlen Hnone. unfold peek_none in Hnone. rewrite Z.geb_leb in Hnone. apply Z.leb_gt in Hnone.
  pose proof (Zle_0_nat (length l)) as H0. fold (zlen T l) in H0.
  unfold peek_idx, int64 in *. rewrite pow63 in *.
  destruct (Z_lt_le_dec (zlen T l - 1 - n) 9223372036854775808) as [Hin|Hover].
  - rewrite wrap64_id; [reflexivity|]. unfold int64. rewrite pow63. lia.
  - rewrite wrap64_over by (rewrite pow63, pow64; lia). rewrite pow64.
    unfold idx.
    replace (zlen T l - 1 - n - 18446744073709551616 <? 0) with true by (symmetry; apply Z.ltb_lt; lia).
    replace (zlen T l <=? zlen T l - 1 - n) with true by (symmetry; apply Z.leb_le; lia).
    rewrite orb_true_r. reflexivity.
Qed.

Theorem peek_int64 : forall (l : list T) (n : Z), int64 n -> zlen T l < 2 ^ 63 ->
  peek_w T zero wrap64 n l = peek T zero n l.
Proof.
  intros l n Hn Hlen. unfold peek_w, peek. destruct (peek_none n (zlen T l)) eqn:E; [reflexivity|].
  rewrite peek_index_width by assumption. reflexivity.
Qed.

(* ... and in particular a negative offset panics, the minimum int included *)
Theorem peek_negative_panics : forall (l : list T) (n : Z), int64 n -> n < 0 -> zlen T l < 2 ^ 63 ->
  peek_w T zero wrap64 n l = SPanic.
Proof.
  intros l n Hn Hneg Hlen. rewrite peek_int64 by assumption. unfold peek, peek_none, peek_idx.
  pose proof (Zle_0_nat (length l)) as H0. fold (zlen T l) in H0.
  replace (n >=? zlen T l) with false by (symmetry; rewrite Z.geb_leb; apply Z.leb_gt; lia).
  unfold idx. replace (zlen T l <=? zlen T l - 1 - n) with true by (symmetry; apply Z.leb_le; lia).
  rewrite orb_true_r. reflexivity.
Qed.

Lemma peek_w_id : forall (l : list T) n, peek_w T zero (fun z => z) n l = peek T zero n l.
Proof. reflexivity. Qed.

(* the other int expressions of the package (len-1 in Top/Pop/Each/Slice, i--, e--, i++) range
   over [-1, len] and cannot leave the 64-bit range *)
Lemma small_indices_in_range : forall len i, 0 <= len < 2 ^ 63 -> 0 <= i <= len ->
  int64 (top_idx len) /\ int64 (pop_zero_idx len) /\ int64 (pop_hi len) /\ int64 (each_init len) /\
  int64 (slice_e_init len) /\ (i < len -> int64 (slice_i_inc i)) /\ int64 (each_dec i) /\ int64 (slice_e_dec i).
Proof.
  intros len i Hl Hi. unfold int64, top_idx, pop_zero_idx, pop_hi, each_init, slice_e_init, slice_i_inc, each_dec, slice_e_dec in *.
  rewrite pow63 in *. repeat split; intros; lia.
Qed.

End StackInt.
