(* stack.Stack refines the LIFO reference: for every history the model (slice, top at the end,
   Gen/StackIdx index arithmetic, checked indexing, fuelled loops) returns exactly the outputs of
   the reference (list, newest first); in particular no index panic except Peek(n<0), no
   OutOfFuel. *)
From Coq Require Import ZArith List Bool Lia Arith.
Import ListNotations.
From Mds Require Import Gen.StackIdx Stack.StackModel.
Local Open Scope Z_scope.


Ltac bool_lia :=
  match goal with
  | |- true = (_ <? _) => symmetry; apply Z.ltb_lt; lia
  | |- false = (_ <? _) => symmetry; apply Z.ltb_ge; lia
  | |- true = (_ <=? _) => symmetry; apply Z.leb_le; lia
  | |- false = (_ <=? _) => symmetry; apply Z.leb_gt; lia
  | |- true = (_ >=? _) => symmetry; rewrite Z.geb_leb; apply Z.leb_le; lia
  | |- false = (_ >=? _) => symmetry; rewrite Z.geb_leb; apply Z.leb_gt; lia
  | |- true = (_ =? _) => symmetry; apply Z.eqb_eq; lia
  | |- false = (_ =? _) => symmetry; apply Z.eqb_neq; lia
  | |- true = (_ <? _)%nat => symmetry; apply Nat.ltb_lt; lia
  | |- false = (_ <? _)%nat => symmetry; apply Nat.ltb_ge; lia
  end.

Section StackProofs.
Variable T : Type.
Variable zero : T.

Notation idx := (@idx T).
Notation zlen := (@zlen T).

Lemma zlen_nonneg : forall l : list T, 0 <= zlen l.
Proof. intros; unfold StackModel.zlen; lia. Qed.

Lemma idx_nth : forall (l : list T) (i : Z) d, 0 <= i < zlen l -> idx l i = Some (nth (Z.to_nat i) l d).
Proof.
  intros l i d H. unfold StackModel.idx, StackModel.zlen in *.
  destruct (i <? 0) eqn:E; [lia|]. destruct (Z.of_nat (length l) <=? i) eqn:E2; [lia|]. cbn [orb].
  apply nth_error_nth'. lia.
Qed.

Lemma idx_out : forall (l : list T) (i : Z), zlen l <= i -> idx l i = None.
Proof.
  intros l i H. unfold StackModel.idx, StackModel.zlen in *.
  destruct (i <? 0) eqn:E; [reflexivity|]. destruct (Z.of_nat (length l) <=? i) eqn:E2; [reflexivity|]. lia.
Qed.

(* l[len-1-n] is the n-th element from the top *)
Lemma idx_rev : forall (l : list T) (n : nat), (n < length l)%nat ->
  idx l (zlen l - 1 - Z.of_nat n) = Some (nth n (rev l) zero).
Proof.
  intros l n H. rewrite (idx_nth l _ zero) by (unfold StackModel.zlen; lia).
  f_equal. rewrite rev_nth by assumption. f_equal. unfold StackModel.zlen. lia.
Qed.

Lemma each_loop_ok : forall (f : T -> bool) (l : list T) (k fuel : nat),
  (k <= length l)%nat -> (k < fuel)%nat ->
  each_loop T fuel f l (Z.of_nat k - 1) = SOk (svisited T f (rev (firstn k l))).
Proof.
  intros f l k. induction k as [|k IH]; intros fuel Hk Hf.
  - destruct fuel; [lia|]. cbn [each_loop]. unfold each_cond. cbn. reflexivity.
  - destruct fuel; [lia|]. cbn [each_loop]. unfold each_cond, each_idx, each_stop, each_dec.
    replace (Z.of_nat (S k) - 1 >=? 0) with true by bool_lia.
    rewrite (idx_nth l _ zero) by (unfold StackModel.zlen; lia).
    replace (Z.to_nat (Z.of_nat (S k) - 1)) with k by lia.
    replace (Z.of_nat (S k) - 1 - 1) with (Z.of_nat k - 1) by lia.
    assert (Hsplit : firstn (S k) l = firstn k l ++ [nth k l zero]).
    { clear IH Hf. revert l Hk. induction k; intros l Hk; destruct l; cbn in *; try lia; auto.
      f_equal. apply IHk. lia. }
    rewrite Hsplit, rev_app_distr. cbn [rev app svisited].
    destruct (f (nth k l zero)); cbn [negb].
    + rewrite IH by lia. reflexivity.
    + reflexivity.
Qed.

Lemma each_ok : forall f (l : list T), each T f l = SOk (svisited T f (rev l)).
Proof.
  intros. unfold each, each_init, StackModel.zlen.
  rewrite each_loop_ok by lia. rewrite firstn_all. reflexivity.
Qed.

Lemma upd_ok : forall (cp : list T) (i : nat) v, (i < length cp)%nat ->
  upd T cp (Z.of_nat i) v = Some (firstn i cp ++ v :: skipn (S i) cp).
Proof.
  intros. unfold upd, StackModel.zlen.
  replace (0 <=? Z.of_nat i) with true by bool_lia.
  replace (Z.of_nat i <? Z.of_nat (length cp)) with true by bool_lia.
  cbn [andb]. rewrite Nat2Z.id. reflexivity.
Qed.

Lemma slice_loop_ok : forall (l : list T) (r i fuel : nat),
  (i + r = length l)%nat -> (r < fuel)%nat ->
  slice_loop T fuel l (firstn i (rev l) ++ repeat zero r) (Z.of_nat i) (zlen l - 1 - Z.of_nat i) = SOk (rev l).
Proof.
  intros l r. induction r as [|r IH]; intros i fuel Hi Hf.
  - destruct fuel; [lia|]. cbn [slice_loop]. unfold slice_cond, StackModel.zlen.
    replace (Z.of_nat i <? Z.of_nat (length l)) with false by bool_lia.
    cbn [repeat]. rewrite app_nil_r. rewrite firstn_all2 by (rewrite rev_length; lia). reflexivity.
  - destruct fuel; [lia|]. cbn [slice_loop]. unfold slice_cond, slice_src_idx, slice_dst_idx, slice_i_inc, slice_e_dec.
    replace (Z.of_nat i <? zlen l) with true by (unfold StackModel.zlen; bool_lia).
    rewrite idx_rev by lia.
    assert (Hlen : length (firstn i (rev l)) = i) by (rewrite firstn_length, rev_length; lia).
    rewrite upd_ok by (rewrite app_length, repeat_length; lia).
    rewrite firstn_app, Hlen, Nat.sub_diag. cbn [firstn]. rewrite app_nil_r.
    rewrite firstn_firstn, Nat.min_id.
    rewrite skipn_app, Hlen.
    replace (S i - i)%nat with 1%nat by lia.
    rewrite (skipn_all2 (firstn i (rev l))) by lia. cbn [app repeat skipn].
    replace (Z.of_nat i + 1) with (Z.of_nat (S i)) by lia.
    replace (zlen l - 1 - Z.of_nat i - 1) with (zlen l - 1 - Z.of_nat (S i)) by lia.
    assert (Hsplit : firstn (S i) (rev l) = firstn i (rev l) ++ [nth i (rev l) zero]).
    { assert (Hl : (i < length (rev l))%nat) by (rewrite rev_length; lia).
      clear -Hl. revert Hl. generalize (rev l) as m. induction i; intros m Hl; destruct m; cbn in *; try lia; auto.
      f_equal. apply IHi. lia. }
    specialize (IH (S i) fuel ltac:(lia) ltac:(lia)).
    rewrite Hsplit, <- app_assoc in IH. cbn [app] in IH. exact IH.
Qed.

Lemma slice_ok : forall l : list T, slice T zero l = SOk (rev l).
Proof.
  intros. unfold slice, slice_empty, slice_make_len, slice_i_init, slice_e_init.
  destruct (zlen l =? 0) eqn:E.
  - destruct l; [reflexivity|]. unfold StackModel.zlen in E. cbn in E. lia.
  - replace (Z.to_nat (zlen l)) with (length l) by (unfold StackModel.zlen; lia).
    pose proof (slice_loop_ok l (length l) 0 (S (length l)) ltac:(lia) ltac:(lia)) as H.
    cbn [firstn app Z.of_nat] in H. rewrite Z.sub_0_r in H. exact H.
Qed.

Lemma peek_ok : forall (l : list T) (n : Z),
  peek T zero n l =
    if n <? 0 then SPanic
    else if n <? Z.of_nat (length l) then SOk (nth (Z.to_nat n) (rev l) zero, true)
    else SOk (zero, false).
Proof.
  intros. unfold peek, peek_none, peek_idx, peek_ret_none, peek_ret_ok.
  destruct (n <? 0) eqn:En.
  - replace (n >=? zlen l) with false by (pose proof (zlen_nonneg l); bool_lia).
    rewrite idx_out by lia. reflexivity.
  - replace (n <? Z.of_nat (length l)) with (Z.to_nat n <? length l)%nat
      by (destruct (Nat.ltb_spec (Z.to_nat n) (length l)); bool_lia).
    destruct (Z.to_nat n <? length l)%nat eqn:El.
    + apply Nat.ltb_lt in El.
      replace (n >=? zlen l) with false by (unfold StackModel.zlen; bool_lia).
      replace n with (Z.of_nat (Z.to_nat n)) at 1 by lia.
      rewrite idx_rev by assumption. reflexivity.
    + apply Nat.ltb_ge in El.
      replace (n >=? zlen l) with true by (unfold StackModel.zlen; bool_lia). reflexivity.
Qed.

Lemma step_refines : forall (l : list T) (o : sop T),
  sastep T zero (rev l) o = (rev (fst (sstep T zero l o)), snd (sstep T zero l o)).
Proof.
  intros l o. destruct o; cbn [sstep sastep fst snd].
  - unfold push. rewrite rev_app_distr. reflexivity.
  - unfold push. rewrite rev_app_distr. reflexivity.
  - unfold is_empty, isempty_ret, StackModel.zlen. rewrite rev_length.
    f_equal. f_equal. destruct (length l); cbn; [reflexivity|]. lia.
  - reflexivity.
  - unfold top, top_empty, top_idx. destruct l as [|x l'] using rev_ind.
    + reflexivity.
    + replace (zlen (l' ++ [x]) =? 0) with false by (unfold StackModel.zlen; rewrite app_length; cbn; bool_lia).
      pose proof (idx_rev (l' ++ [x]) 0 ltac:(rewrite app_length; cbn; lia)) as H.
      rewrite Z.sub_0_r in H. rewrite H. cbn [lift fst snd]. rewrite rev_app_distr. reflexivity.
  - rewrite peek_ok. rewrite rev_length. destruct (n <? 0); [reflexivity|].
    destruct (n <? Z.of_nat (length l)); reflexivity.
  - unfold pop, pop_peek_arg, pop_zero_idx, pop_hi. rewrite peek_ok. cbn [Z.ltb Z.compare Z.to_nat].
    destruct l as [|x l'] using rev_ind.
    + reflexivity.
    + clear IHl'. rewrite app_length. cbn [length]. replace (0 <? Z.of_nat (length l' + 1)) with true by bool_lia.
      rewrite rev_app_distr. cbn [rev app nth].
      replace (zlen (l' ++ [x]) - 1) with (Z.of_nat (length l')) by (unfold StackModel.zlen; rewrite app_length; cbn; lia).
      rewrite upd_ok by (rewrite app_length; cbn; lia).
      rewrite firstn_app, Nat.sub_diag, firstn_all. cbn [firstn]. rewrite app_nil_r.
      rewrite skipn_all2 by (rewrite app_length; cbn; lia).
      unfold reslice, StackModel.zlen. rewrite app_length. cbn [length].
      replace (0 <=? Z.of_nat (length l' + 1) - 1) with true by bool_lia.
      replace (Z.of_nat (length l' + 1) - 1 <=? Z.of_nat (length l' + 1)) with true by bool_lia.
      cbn [andb]. replace (Z.to_nat (Z.of_nat (length l' + 1) - 1)) with (length l') by lia.
      rewrite firstn_app, Nat.sub_diag, firstn_all. cbn [firstn fst snd]. rewrite app_nil_r. reflexivity.
  - rewrite each_ok. reflexivity.
  - unfold len_ret, StackModel.zlen. rewrite rev_length. reflexivity.
  - rewrite slice_ok. reflexivity.
Qed.

Theorem stack_refines : forall (ops : list (sop T)) (l : list T),
  srun T zero l ops = sarun T zero (rev l) ops.
Proof.
  induction ops as [|o ops IH]; intros l; [reflexivity|].
  cbn [srun sarun]. rewrite step_refines.
  destruct (sstep T zero l o) as [l' r]. cbn [fst snd]. rewrite IH. reflexivity.
Qed.

Theorem stack_lifo : forall ops : list (sop T), srun T zero [] ops = sarun T zero [] ops.
Proof. intros. apply (stack_refines ops []). Qed.

(* the reference never hangs and panics only on Peek of a negative offset *)
Lemma sastep_out : forall (a : list T) (o : sop T),
  snd (sastep T zero a o) <> THang T /\
  (snd (sastep T zero a o) = TPanic T -> exists n, o = SPeek T n /\ n < 0).
Proof.
  intros a o. destruct o; cbn [sastep snd]; try (split; [discriminate|discriminate]).
  - destruct (n <? 0) eqn:E; [|destruct (n <? Z.of_nat (length a))]; cbn [snd];
      (split; [discriminate|]); intros H; try discriminate. exists n. split; [reflexivity|lia].
  - destruct a; cbn [snd]; split; discriminate.
Qed.

End StackProofs.
