(* Model of stack/stack.go (Stack[T]: a slice with the top at the end).  Definitions only.
   Every index expression, condition, loop bound and step is a definition of Gen/StackIdx.v,
   regenerated from the Go source on every run.  Slice indexing and re-slicing are checked:
   out of range gives the explicit result SPanic (Go: "index out of range").  The two loops
   (Each, Slice) are fuelled with S (length list); running out is SOutOfFuel. *)
From Coq Require Import ZArith List Bool.
Import ListNotations.
From Mds Require Gen.StackIdx.
Local Open Scope Z_scope.

Inductive sres (A : Type) := SOk (a : A) | SPanic | SOutOfFuel.
Arguments SOk {A} a.
Arguments SPanic {A}.
Arguments SOutOfFuel {A}.

Section Stack.
Variable T : Type.
Variable zero : T.

Definition zlen (l : list T) : Z := Z.of_nat (length l).

(* l[i] *)
Definition idx (l : list T) (i : Z) : option T :=
  if (i <? 0) || (zlen l <=? i) then None else nth_error l (Z.to_nat i).

(* l[i] = v *)
Definition upd (l : list T) (i : Z) (v : T) : option (list T) :=
  if (0 <=? i) && (i <? zlen l)
  then Some (firstn (Z.to_nat i) l ++ v :: skipn (S (Z.to_nat i)) l)
  else None.

(* l[:hi] (hi beyond the length but within the capacity is not modelled: it never is) *)
Definition reslice (l : list T) (hi : Z) : option (list T) :=
  if (0 <=? hi) && (hi <=? zlen l) then Some (firstn (Z.to_nat hi) l) else None.

(* s.list = append(s.list, v) *)
Definition push (v : T) (l : list T) : list T := l ++ [v].

Definition is_empty (l : list T) : bool := StackIdx.isempty_ret (zlen l).

(* if len(s.list) == 0 { return zero }; return s.list[len(s.list)-1] *)
Definition top (l : list T) : sres T :=
  if StackIdx.top_empty (zlen l) then SOk zero
  else match idx l (StackIdx.top_idx (zlen l)) with Some v => SOk v | None => SPanic end.

(* if n >= len(s.list) { return zero, false }; return s.list[len(s.list)-1-n], true *)
Definition peek (n : Z) (l : list T) : sres (T * bool) :=
  if StackIdx.peek_none n (zlen l) then SOk (zero, StackIdx.peek_ret_none)
  else match idx l (StackIdx.peek_idx n (zlen l)) with Some v => SOk (v, StackIdx.peek_ret_ok) | None => SPanic end.

(* the same with the index expression evaluated in machine arithmetic: [w] is applied to its
   value (w = wrap-around to 64 bits for the Go code; the identity gives [peek]).  Used only to
   show that the unbounded-Z model is faithful for every int argument (StackProofsInt.v). *)
Definition peek_w (w : Z -> Z) (n : Z) (l : list T) : sres (T * bool) :=
  if StackIdx.peek_none n (zlen l) then SOk (zero, StackIdx.peek_ret_none)
  else match idx l (w (StackIdx.peek_idx n (zlen l))) with Some v => SOk (v, StackIdx.peek_ret_ok) | None => SPanic end.

(* out, ok := s.Peek(0); if ok { s.list[len(s.list)-1] = zero; s.list = s.list[:len(s.list)-1] } *)
Definition pop (l : list T) : sres (list T * (T * bool)) :=
  match peek StackIdx.pop_peek_arg l with
  | SOk (out, ok) =>
    if ok then
      match upd l (StackIdx.pop_zero_idx (zlen l)) zero with
      | Some l1 =>
        match reslice l1 (StackIdx.pop_hi (zlen l1)) with
        | Some l2 => SOk (l2, (out, ok))
        | None => SPanic
        end
      | None => SPanic
      end
    else SOk (l, (out, ok))
  | SPanic => SPanic
  | SOutOfFuel => SOutOfFuel
  end.

(* for i := len(s.list) - 1; i >= 0; i-- { if !f(s.list[i]) { return } } *)
Fixpoint each_loop (fuel : nat) (f : T -> bool) (l : list T) (i : Z) : sres (list T) :=
  match fuel with
  | O => SOutOfFuel
  | S fl =>
    if StackIdx.each_cond i then
      match idx l (StackIdx.each_idx i) with
      | None => SPanic
      | Some v =>
        if StackIdx.each_stop (f v) then SOk [v]
        else match each_loop fl f l (StackIdx.each_dec i) with
             | SOk vs => SOk (v :: vs)
             | r => r
             end
      end
    else SOk []
  end.

Definition each (f : T -> bool) (l : list T) : sres (list T) :=
  each_loop (S (length l)) f l (StackIdx.each_init (zlen l)).

(* if len(s.list) == 0 { return nil }; cp := make([]T, len(s.list))
   for i, e := 0, len(s.list)-1; i < len(s.list); i++ { cp[i] = s.list[e]; e-- } *)
Fixpoint slice_loop (fuel : nat) (l cp : list T) (i e : Z) : sres (list T) :=
  match fuel with
  | O => SOutOfFuel
  | S fl =>
    if StackIdx.slice_cond i (zlen l) then
      match idx l (StackIdx.slice_src_idx e) with
      | None => SPanic
      | Some v =>
        match upd cp (StackIdx.slice_dst_idx i) v with
        | None => SPanic
        | Some cp' => slice_loop fl l cp' (StackIdx.slice_i_inc i) (StackIdx.slice_e_dec e)
        end
      end
    else SOk cp
  end.

Definition slice (l : list T) : sres (list T) :=
  if StackIdx.slice_empty (zlen l) then SOk []
  else slice_loop (S (length l)) l (repeat zero (Z.to_nat (StackIdx.slice_make_len (zlen l)))) StackIdx.slice_i_init (StackIdx.slice_e_init (zlen l)).

Inductive sop := SPush (v : T) | SAdd (v : T) | SIsEmpty | SClear | STop | SPeek (n : Z) | SPop | SEach (f : T -> bool) | SLen | SSlice.
Inductive sout := TUnit | TVal (v : T) | TBool (b : bool) | TValBool (v : T) (b : bool) | TList (l : list T) | TInt (n : Z) | TPanic | THang.

Definition lift {A} (l : list T) (r : sres A) (o : A -> sout) : list T * sout :=
  match r with SOk a => (l, o a) | SPanic => (l, TPanic) | SOutOfFuel => (l, THang) end.

Definition sstep (l : list T) (o : sop) : list T * sout :=
  match o with
  | SPush v => (push v l, TUnit)
  | SAdd v => (push v l, TUnit)
  | SIsEmpty => (l, TBool (is_empty l))
  | SClear => ([], TUnit)
  | STop => lift l (top l) TVal
  | SPeek n => lift l (peek n l) (fun vb => TValBool (fst vb) (snd vb))
  | SPop => match pop l with
            | SOk (l', vb) => (l', TValBool (fst vb) (snd vb))
            | SPanic => (l, TPanic)
            | SOutOfFuel => (l, THang)
            end
  | SEach f => lift l (each f l) TList
  | SLen => (l, TInt (StackIdx.len_ret (zlen l)))
  | SSlice => lift l (slice l) TList
  end.

Fixpoint srun (l : list T) (ops : list sop) : list sout :=
  match ops with
  | [] => []
  | o :: ops' => let (l', r) := sstep l o in r :: srun l' ops'
  end.

(* ---- the reference: a LIFO sequence, newest first ---- *)

Fixpoint svisited (f : T -> bool) (l : list T) : list T :=
  match l with [] => [] | x :: l' => if f x then x :: svisited f l' else [x] end.

Definition sastep (a : list T) (o : sop) : list T * sout :=
  match o with
  | SPush v => (v :: a, TUnit)
  | SAdd v => (v :: a, TUnit)
  | SIsEmpty => (a, TBool (length a =? 0)%nat)
  | SClear => ([], TUnit)
  | STop => (a, TVal (hd zero a))
  | SPeek n => if n <? 0 then (a, TPanic)
               else if n <? Z.of_nat (length a) then (a, TValBool (nth (Z.to_nat n) a zero) true)
               else (a, TValBool zero false)
  | SPop => match a with [] => (a, TValBool zero false) | x :: a' => (a', TValBool x true) end
  | SEach f => (a, TList (svisited f a))
  | SLen => (a, TInt (Z.of_nat (length a)))
  | SSlice => (a, TList a)
  end.

Fixpoint sarun (a : list T) (ops : list sop) : list sout :=
  match ops with
  | [] => []
  | o :: ops' => let (a', r) := sastep a o in r :: sarun a' ops'
  end.

End Stack.
